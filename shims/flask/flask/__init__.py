"""Stand-in for Flask used only by the verification checks (flask is not installed here).

It reproduces ONLY the request-hook protocol that pony.flask relies on, as documented by Flask:

* ``app.before_request(f)``  -- f() runs before the view, inside the request context; a non-None return value
  short-circuits the view;
* ``app.teardown_request(f)`` -- f(exc) runs when the request context is torn down, in reverse order of
  registration, *whether or not* the view raised; ``exc`` is the unhandled exception of the request (None if the
  request succeeded or the exception was handled by a registered error handler);
* ``flask.request`` -- a proxy to the per-request object of the current request context (attribute get/set go to
  that object; outside of a request context access raises RuntimeError).

``Flask.handle(rule)`` plays the part of ``Flask.wsgi_app`` for one simulated request.  No routing, no WSGI.
"""
import sys

__version__ = '0.0-verif-stub'

_request_ctx_stack = []


class Request(object):
    """Per-request object (arbitrary attributes may be set on it, like on flask.Request)."""
    def __init__(self, rule):
        self.path = rule


class _RequestProxy(object):
    def _get_current_object(self):
        if not _request_ctx_stack:
            raise RuntimeError('Working outside of request context.')
        return _request_ctx_stack[-1]
    def __getattr__(self, name):
        return getattr(self._get_current_object(), name)
    def __setattr__(self, name, value):
        setattr(self._get_current_object(), name, value)
    def __delattr__(self, name):
        delattr(self._get_current_object(), name)


request = _RequestProxy()


class Response(object):
    def __init__(self, body, status_code, exception=None):
        self.body, self.status_code, self.exception = body, status_code, exception


class Flask(object):
    def __init__(self, import_name='app'):
        self.import_name = import_name
        self.before_request_funcs = []
        self.teardown_request_funcs = []
        self.view_functions = {}
        self.error_handlers = []          # [(exception class, handler)]
        self.propagate_exceptions = False

    # -- registration API ----------------------------------------------------
    def before_request(self, f):
        self.before_request_funcs.append(f)
        return f

    def teardown_request(self, f):
        self.teardown_request_funcs.append(f)
        return f

    def errorhandler(self, exc_class):
        def decorator(f):
            self.error_handlers.append((exc_class, f))
            return f
        return decorator

    def route(self, rule, **options):
        def decorator(f):
            self.view_functions[rule] = f
            return f
        return decorator

    # -- one simulated request ------------------------------------------------
    def handle(self, rule, *args, **kwargs):
        _request_ctx_stack.append(Request(rule))      # ctx.push()
        error = None
        try:
            try:
                rv = None
                for f in self.before_request_funcs:   # preprocess_request
                    rv = f()
                    if rv is not None: break
                if rv is None:
                    rv = self.view_functions[rule](*args, **kwargs)
                response = rv if isinstance(rv, Response) else Response(rv, 200)
            except Exception as e:
                handler = None
                for cls, h in self.error_handlers:
                    if isinstance(e, cls): handler = h; break
                if handler is not None:               # handled: teardown sees exc=None
                    rv = handler(e)
                    response = rv if isinstance(rv, Response) else Response(rv, 200)
                else:                                 # unhandled: 500, teardown sees the exception
                    error = e
                    if self.propagate_exceptions: raise
                    response = Response('Internal Server Error', 500, e)
            except:                                   # BaseException
                error = sys.exc_info()[1]
                raise
            return response
        finally:
            try:
                for f in reversed(self.teardown_request_funcs):   # do_teardown_request(exc)
                    f(error)
            finally:
                _request_ctx_stack.pop()              # ctx.pop()

"""Stand-in for Bottle used only by the verification checks (bottle is not installed here).

It reproduces ONLY what pony.orm.integration.bottle_plugin relies on, as documented by Bottle:

* the exception classes ``HTTPResponse`` and ``HTTPError`` (``HTTPError`` is a subclass of ``HTTPResponse``;
  views *raise* them: ``redirect()`` raises HTTPResponse(303/302), ``abort()`` raises HTTPError);
* the plugin API version 2: ``app.install(plugin)``; when a route is first called each plugin's
  ``apply(callback, route)`` wraps the callback (last installed plugin is the innermost wrapper);
* request handling: a raised HTTPResponse becomes the response; any other Exception becomes HTTPError(500)
  when ``catchall`` is true, otherwise it propagates.

``Bottle.handle(path)`` plays the part of ``Bottle._handle`` for one simulated request.  No routing, no WSGI.
"""

__version__ = '0.0-verif-stub'


class BottleException(Exception):
    pass


class HTTPResponse(BottleException):
    default_status = 200
    def __init__(self, body='', status=None, headers=None, **more_headers):
        BottleException.__init__(self, body, status)
        self.body = body
        self.status_code = status or self.default_status
        self.headers = dict(headers or {})
        self.headers.update(more_headers)


class HTTPError(HTTPResponse):
    default_status = 500
    def __init__(self, status=None, body=None, exception=None, traceback=None, **more_headers):
        self.exception = exception
        self.traceback = traceback
        HTTPResponse.__init__(self, body, status, **more_headers)


def abort(code=500, text='Unknown Error.'):
    raise HTTPError(code, text)


def redirect(url, code=303):
    raise HTTPResponse('', status=code, headers={'Location': url})


class Route(object):
    def __init__(self, app, rule, method, callback, plugins=None):
        self.app, self.rule, self.method, self.callback = app, rule, method, callback
        self.plugins = list(plugins or [])
        self._call = None
    def all_plugins(self):
        return reversed(self.app.plugins + self.plugins)
    def _make_callback(self):
        callback = self.callback
        for plugin in self.all_plugins():
            if hasattr(plugin, 'apply'):
                api = getattr(plugin, 'api', 1)
                context = self if api > 1 else {'rule': self.rule, 'method': self.method, 'callback': self.callback}
                callback = plugin.apply(callback, context)
            else:
                callback = plugin(callback)
        return callback
    def call(self, *args, **kwargs):
        if self._call is None: self._call = self._make_callback()
        return self._call(*args, **kwargs)


class Bottle(object):
    def __init__(self, catchall=True):
        self.catchall = catchall
        self.plugins = []
        self.routes = {}
    def install(self, plugin):
        if hasattr(plugin, 'setup'): plugin.setup(self)
        self.plugins.append(plugin)
        return plugin
    def route(self, path, method='GET', apply=None):
        def decorator(callback):
            self.routes[path] = Route(self, path, method, callback, apply)
            return callback
        return decorator
    def handle(self, path, *args, **kwargs):
        route = self.routes[path]
        try:
            out = route.call(*args, **kwargs)
            return out if isinstance(out, HTTPResponse) else HTTPResponse(out, 200)
        except HTTPResponse as e:
            return e
        except (KeyboardInterrupt, SystemExit, MemoryError):
            raise
        except Exception as e:
            if not self.catchall: raise
            return HTTPError(500, 'Internal Server Error', e)

"""Stub psycopg2.extras."""
REGISTERED = []


def register_uuid(*a, **kw): REGISTERED.append('uuid')
def register_default_json(*a, **kw): REGISTERED.append('json')
def register_default_jsonb(*a, **kw): REGISTERED.append('jsonb')


class Json(object):
    def __init__(self, adapted, dumps=None): self.adapted = adapted

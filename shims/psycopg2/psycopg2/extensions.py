"""Stub psycopg2.extensions (only what pony's postgres.py / cockroach.py may touch)."""
ISOLATION_LEVEL_AUTOCOMMIT = 0
ISOLATION_LEVEL_READ_COMMITTED = 1
ISOLATION_LEVEL_REPEATABLE_READ = 2
ISOLATION_LEVEL_SERIALIZABLE = 3
TRANSACTION_STATUS_IDLE = 0


def register_type(*a, **kw): pass
def register_adapter(*a, **kw): pass
def new_type(*a, **kw): return object()
def adapt(x): return x
UNICODE = UNICODEARRAY = object()

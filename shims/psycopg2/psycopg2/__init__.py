"""Stub psycopg2 for /verif (E5 dialect shim).  NOT a PostgreSQL driver: connections are
vlib.shimlib connections (record mode by default).  Replace CONNECTION_FACTORY to swap the
connection class (e.g. an executing twin-SQLite connection)."""
from vlib import shimlib as _shimlib

IS_VERIF_SHIM = True
__version__ = '2.9.9 (verif-shim)'
apilevel = '2.0'
threadsafety = 2
paramstyle = 'pyformat'

_shimlib.make_exceptions(globals())

LOG = _shimlib.StatementLog('postgres')
CONNECTION_FACTORY = _shimlib.RecordConnection


def connect(*args, **kwargs):
    return CONNECTION_FACTORY(LOG, *args, **kwargs)


def Binary(x):
    return bytes(x)

from . import extensions, extras   # noqa: E402  (pony does `from psycopg2 import extensions`)

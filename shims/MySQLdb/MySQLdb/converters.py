"""Stub MySQLdb.converters: pony copies `conversions` and adds its own entries."""
conversions = {}

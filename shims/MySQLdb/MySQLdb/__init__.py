"""Stub MySQLdb for /verif (E5 dialect shim).  NOT a MySQL driver; see vlib/shimlib.py."""
from vlib import shimlib as _shimlib

IS_VERIF_SHIM = True
__version__ = '2.2.0 (verif-shim)'
version_info = (2, 2, 0, 'final', 0)
apilevel = '2.0'
threadsafety = 1
paramstyle = 'format'

_shimlib.make_exceptions(globals())
MySQLError = Error  # noqa: F821

LOG = _shimlib.StatementLog('mysql')
CONNECTION_FACTORY = _shimlib.RecordConnection


def connect(*args, **kwargs):
    return CONNECTION_FACTORY(LOG, *args, **kwargs)

Connect = Connection = connect


def string_literal(s, encoders=None):
    """MySQLdb.string_literal under the default sql_mode: backslash-escaping quoted literal."""
    if isinstance(s, bytes): s = s.decode('utf8')
    out = ["'"]
    for ch in str(s):
        if ch == "'": out.append("\\'")
        elif ch == '\\': out.append('\\\\')
        elif ch == '\0': out.append('\\0')
        elif ch == '\n': out.append('\\n')
        elif ch == '\r': out.append('\\r')
        elif ch == '\x1a': out.append('\\Z')
        elif ch == '"': out.append('\\"')
        else: out.append(ch)
    out.append("'")
    return ''.join(out)


def Binary(x):
    return bytes(x)

from . import converters, constants   # noqa: E402

"""Stub cx_Oracle for /verif (E5 dialect shim).  NOT an Oracle driver; see vlib/shimlib.py."""
import sys as _sys
from vlib import shimlib as _shimlib

IS_VERIF_SHIM = True
version = '8.3.0 (verif-shim)'
apilevel = '2.0'
threadsafety = 2
paramstyle = 'named'

_shimlib.make_exceptions(globals())

LOG = _shimlib.StatementLog('oracle')
CONNECTION_FACTORY = _shimlib.RecordConnection


class LOB(object):
    def __init__(self, data=''): self.data = data
    def read(self): return self.data

class _DbType(object):
    def __init__(self, name): self.name = name
    def __repr__(self): return '<cx_Oracle.%s>' % self.name

STRING = _DbType('STRING'); NUMBER = _DbType('NUMBER'); FIXED_CHAR = _DbType('FIXED_CHAR')
TIMESTAMP = _DbType('TIMESTAMP'); DATETIME = _DbType('DATETIME'); CLOB = _DbType('CLOB')
BLOB = _DbType('BLOB'); BINARY = _DbType('BINARY'); NATIVE_FLOAT = _DbType('NATIVE_FLOAT')
INTERVAL = _DbType('INTERVAL')


def connect(*args, **kwargs):
    return CONNECTION_FACTORY(LOG, *args, **kwargs)


class SessionPool(_shimlib.SessionPool):
    def __init__(self, **kwargs):
        _shimlib.SessionPool.__init__(self, _sys.modules[__name__], **kwargs)

conversions = {}

"""Minimal stand-in for the MySQLdb driver: just enough for `import pony.orm.dbproviders.mysql` so that
checks/C07.py can round-trip the pure codec functions pony wires into the driver (timedelta2str /
str2timedelta / str2datetime via MySQLProvider.get_pool, MySQLTimeConverter.sql2py).  Never connects."""
paramstyle = 'format'
apilevel = '2.0'
threadsafety = 1
version_info = (2, 1, 0, 'stub', 0)

class Error(Exception): pass
class Warning(Exception): pass
class InterfaceError(Error): pass
class DatabaseError(Error): pass
class DataError(DatabaseError): pass
class OperationalError(DatabaseError): pass
class IntegrityError(DatabaseError): pass
class InternalError(DatabaseError): pass
class ProgrammingError(DatabaseError): pass
class NotSupportedError(DatabaseError): pass

def string_literal(obj, encoders=None):
    # documented MySQL string literal for the default sql_mode: quote, double quotes, escape backslash
    s = obj if isinstance(obj, str) else str(obj)
    return "'" + s.replace('\\', '\\\\').replace("'", "''") + "'"

def connect(*args, **kwargs):
    raise OperationalError(2003, 'stub MySQLdb driver cannot connect')

"""Minimal stand-in for cx_Oracle: just enough for `import pony.orm.dbproviders.oracle` so that checks/C07.py
can round-trip OraTimeConverter.py2sql/sql2py and the number output converters.  Never connects."""
paramstyle = 'named'
apilevel = '2.0'
threadsafety = 2
version = '5.stub'

class Error(Exception): pass
class Warning(Exception): pass
class InterfaceError(Error): pass
class DatabaseError(Error): pass
class DataError(DatabaseError): pass
class OperationalError(DatabaseError): pass
class IntegrityError(DatabaseError): pass
class InternalError(DatabaseError): pass
class ProgrammingError(DatabaseError): pass
class NotSupportedError(DatabaseError): pass

class LOB(object): pass
class _T(object):
    def __init__(self, name): self.name = name
    def __repr__(self): return '<cx_Oracle.%s>' % self.name
STRING = _T('STRING'); FIXED_CHAR = _T('FIXED_CHAR'); NUMBER = _T('NUMBER'); TIMESTAMP = _T('TIMESTAMP')
CLOB = _T('CLOB'); BLOB = _T('BLOB'); DATETIME = _T('DATETIME'); INTERVAL = _T('INTERVAL')

class SessionPool(object):
    def __init__(self, **kwargs):
        raise OperationalError('stub cx_Oracle driver cannot connect')

"""C06 -- values reach the database unchanged: parameters, literals, LIKE patterns, identifiers.

Monitors on the (sql, args) handed to cursor.execute (SQLite: vlib.dbapi recorder; other dialects:
record-mode stub drivers) and on what SQLite answers:

 P1 placeholder consistency  every provider family x all five DB-API paramstyles; each parameter carries
                             a unique sentinel; the column a placeholder is bound to is read off the SQL
                             text and the resolved argument must be the sentinel meant for that column.
 P2 echo on SQLite           adversarial values as parameters and as inline constants (==, select const,
                             startswith/endswith/in with const and param patterns): answer == Python answer.
 P3 literal decoding         Value/PGValue/MySQLValue/SQLiteValue text decoded by a per-dialect lexer must
                             be the original value; whole statements with inline constants / LIKE patterns
                             are evaluated on SQLite under the dialect's lexical + LIKE-escape model.
 P4 identifiers              hostile table/column names created and used on SQLite; other dialects: quote_name
                             decoded by the dialect lexer, statement skeleton equal to the benign-named twin.
 Structure monitor: token skeleton (literals/identifiers blanked) identical for benign and hostile values.
"""

META = {
    'level': 'exploration',
    'engine': 'E3+E5',
    'technique': 'runtime monitors on recorded (sql, args): sentinel placeholder<->column binding, SQLite echo '
                 'differential, per-dialect literal lexer + LIKE model, token-skeleton comparison',
    'level_text': 'Generated hostile values/identifiers are pushed through the real translator, builders and '
                  'providers of every dialect and all five paramstyles; each recorded statement is judged by '
                  'oracles that are independent of pony (SQL text lexers, Python string semantics, SQLite itself).',
    'level_note': 'Trusted base: sqlite3; Python %-formatting as the model of format/pyformat drivers; a ~40-line '
                  'lexer per dialect family (\'\' doubling; backslash escapes for MySQL default sql_mode; '
                  'standard_conforming_strings=on for PostgreSQL); a 15-line LIKE matcher with the dialect default '
                  'escape character (backslash for PostgreSQL/MySQL, none for Oracle/SQLite).',
    'rule': 'cases = (part, dialect, paramstyle, statement kind or query template, value/identifier); values from a '
            'fixed hostile list plus seeded random strings over a hostile alphabet; a case is non-trivial when the '
            'statement carries at least one parameter, literal or hostile identifier',
    'assumptions': [
        'Only SQLite executes statements. For PostgreSQL/MySQL/Oracle the generated text is judged by lexical models '
        'of the documented literal/identifier/LIKE rules (MySQL: default sql_mode, i.e. NO_BACKSLASH_ESCAPES off; '
        'PostgreSQL: standard_conforming_strings=on); server-side type coercion is not modelled.',
        'format/pyformat drivers apply Python %-formatting to the whole statement whenever an argument object '
        '(even an empty one) is passed, as MySQLdb and psycopg2 do.',
        'Placeholder<->column binding is read from the SQL text as "nearest preceding column reference"; the '
        'generated statements are restricted to shapes where that reading is unambiguous.',
        'NUL characters are excluded from the value domain (stated in the property).',
    ],
    'shims': ['psycopg2', 'MySQLdb', 'cx_Oracle'],
    'exhaustive_tiers': [],
}
SHARDS = {'quick': 1, 'thorough': 8}
SHARD_TIMEOUT = {'quick': 300, 'thorough': 900}

import re, sqlite3, collections
from datetime import date, datetime, time as dtime, timedelta
from decimal import Decimal

STYLES = ['qmark', 'format', 'numeric', 'named', 'pyformat']
NATIVE = {'generic': 'qmark', 'postgres': 'pyformat', 'mysql': 'format', 'oracle': 'named', 'sqlite': 'qmark',
          'cockroach': 'pyformat'}

ADV = ["", "a", "abc", "a'b", "''", "'", '"', 'a"b', "a\\b", "\\", "\\\\", "\\'", "a\\'b", "\\' OR 1=1 -- ",
       "x' OR '1'='1", "a%b", "%", "%%", "%s", "%(p1)s", "100%", "%d", "a_b", "_", "a!b", "!", "!!", "!%", "!_",
       "a\\%b", "\\_", "\\%", "ab\\", "é", "日本語", "ß€😀", "a\nb", "tab\tx", "a;b", "--", "/*x*/", ":p1", ":1", "?",
       "$x", "a b", " lead", "trail ", "NULL", "{}", "a\rb", "`", "a`b", "[x]", "\\n", "\\0", "\\Z", "ABC", "abcd"]
ALPHABET = ["'", '"', '\\', '%', '_', '!', 'a', 'b', 'A', ' ', 's', '(', ')', ':', '?', '`', ';', '-', 'é', '€', 'n', '0']


def rand_strings(rng, n):
    out = []
    for _ in range(n):
        out.append(''.join(rng.choice(ALPHABET) for _ in range(rng.randint(1, 7))))
    return out


# =================================================================================================
# P1  placeholder <-> argument consistency
# =================================================================================================
def p1_define(db, core):
    from pony.orm import Required, Optional, Set, PrimaryKey
    k1 = Required(int); k2 = Required(str); pname = Required(str); kids = Set('Child')
    Parent = type('Parent', (db.Entity,), {'k1': k1, 'k2': k2, 'name': pname, 'kids': kids,
                                           '_indexes_': [core.Index(k1, k2, is_pk=True)]})
    cid = PrimaryKey(int); a = Required(int); b = Required(str); c = Optional(int); d = Optional(str, nullable=True)
    e = Required(int); par = Optional('Parent'); tags = Set('Tag')
    Child = type('Child', (db.Entity,), {'id': cid, 'a': a, 'b': b, 'c': c, 'd': d, 'e': e, 'par': par, 'tags': tags})
    i1 = Required(int); i2 = Required(str); v = Required(str); w = Optional(int)
    Item = type('Item', (db.Entity,), {'i1': i1, 'i2': i2, 'v': v, 'w': w, '_indexes_': [core.Index(i1, i2, is_pk=True)]})
    tid = PrimaryKey(int); label = Required(str); children = Set('Child')
    Tag = type('Tag', (db.Entity,), {'id': tid, 'label': label, 'children': children})
    return Parent, Child, Item, Tag


def bindings(tokens, resolved):
    """[(section, column, value)] for every placeholder: INSERT pairs columns and values positionally,
    everywhere else a placeholder belongs to the nearest preceding column reference."""
    res = dict(resolved)
    words = [(i, t[2]) for i, t in enumerate(tokens) if t[0] == 'word']
    out = []
    if words and words[0][1] == 'INSERT':
        # INSERT INTO <name> ( c1, .. ) VALUES ( v1, .. ) [RETURNING ..]
        i = 0
        while i < len(tokens) and tokens[i][1] != '(': i += 1
        cols, i = [], i + 1
        while i < len(tokens) and tokens[i][1] != ')':
            if tokens[i][0] == 'ident': cols.append(tokens[i][2])
            i += 1
        while i < len(tokens) and tokens[i][1] != '(': i += 1
        vals, i = [], i + 1
        depth = 0
        while i < len(tokens) and not (tokens[i][1] == ')' and depth == 0):
            if tokens[i][1] == '(': depth += 1
            elif tokens[i][1] == ')': depth -= 1
            elif tokens[i][1] != ',': vals.append(i)
            i += 1
        if len(cols) != len(vals): raise ValueError('INSERT column/value count %d/%d' % (len(cols), len(vals)))
        for cname, vi in zip(cols, vals):
            if tokens[vi][0] == 'ph': out.append(('insert', cname, res[vi]))
        for j in range(i, len(tokens)):          # RETURNING .. INTO :new_id
            if tokens[j][0] == 'ph': out.append(('returning', None, res[j]))
        return out
    section, last_col = 'head', None
    for i, (kind, text, val) in enumerate(tokens):
        if kind == 'word' and val in ('SET', 'WHERE', 'VALUES', 'FROM', 'SELECT'):
            section = val.lower() if section != 'where' or val != 'SELECT' else 'where'
        elif kind == 'ident':
            last_col = val
        elif kind == 'ph':
            out.append((section, last_col, res[i]))
    return out


def p1_check(ctx, shimlib, what, dialect, style, sql, args, expect, fpr):
    """expect: list of (section or None, column, value) the statement must bind (as a multiset)."""
    if type(args) is list:      # executemany
        for k, a in enumerate(args): p1_check(ctx, shimlib, what, dialect, style, sql, a, expect[k], fpr + (k,))
        return
    ctx.case(('P1',) + fpr, nontrivial=bool(expect), sample={'part': 'P1', 'what': what, 'dialect': dialect,
                                                             'style': style, 'sql': sql, 'args': repr(args)[:300]})
    ctx.count('P1.statements'); ctx.count('P1.statements.%s/%s' % (dialect, style))
    w = {'part': 'P1', 'what': what, 'dialect': dialect, 'style': style, 'sql': sql, 'args': repr(args)[:400]}
    try:
        eff = shimlib.driver_view(style, sql, args)
        tokens = shimlib.lex(eff, dialect, style)
        resolved = shimlib.resolve(tokens, style, args)
        got = bindings(tokens, resolved)
    except (shimlib.DriverFormatError, shimlib.LexError, ValueError) as e:
        ctx.violation(dict(w, error='%s: %s' % (type(e).__name__, e)), mechanism='P1 placeholders do not match arguments')
        return
    nph = len(resolved)
    # number / names
    if style in ('qmark', 'format'):
        ok = isinstance(args, (tuple, list)) and len(args) == nph
    elif style == 'numeric':
        ok = isinstance(args, (tuple, list)) and all(0 <= t[2] < len(args) for t in tokens if t[0] == 'ph')
        if isinstance(args, (tuple, list)) and len(args) > len({t[2] for t in tokens if t[0] == 'ph'}):
            ctx.count('P1.numeric_duplicate_slots')
    else:
        names = {t[2] for t in tokens if t[0] == 'ph'}
        ok = isinstance(args, dict) and names == set(args)
    if not ok:
        ctx.violation(dict(w, placeholders=[t[1] for t in tokens if t[0] == 'ph']), mechanism='P1 placeholder count/names differ from arguments')
        return
    ctx.count('P1.placeholders_bound', nph)
    norm = lambda v: repr(v)
    g = collections.Counter((c, norm(v)) for (s, c, v) in got if s != 'returning')
    x = collections.Counter((c, norm(v)) for (s, c, v) in expect)
    if g != x:
        ctx.violation(dict(w, bound=sorted(g.elements()), expected=sorted(x.elements())),
                      mechanism='P1 sentinel bound to the wrong column')
        return
    # section-aware part (UPDATE: SET vs WHERE values of the same column differ)
    gs = collections.Counter((s, c, norm(v)) for (s, c, v) in got if s in ('set', 'where'))
    xs = collections.Counter((s, c, norm(v)) for (s, c, v) in expect if s in ('set', 'where'))
    if xs and gs != xs:
        ctx.violation(dict(w, bound=sorted(gs.elements()), expected=sorted(xs.elements())),
                      mechanism='P1 sentinel bound in the wrong clause')
        return
    ctx.count('P1.ok')


def p1_queries(rng, cols, n_random):
    """-> list of (name, source, params, expected pairs [(column, value)])."""
    A, B, C, D, E, K1, K2, ID = (cols[k] for k in ('a', 'b', 'c', 'd', 'e', 'par_k1', 'par_k2', 'id'))
    out = []
    def add(name, src, params, exp): out.append((name, src, params, exp))
    add('eq2', "c for c in Child if c.a == x1 and c.b == x2", {'x1': 9101, 'x2': 'S9102'}, [(A, 9101), (B, 'S9102')])
    add('repeat', "c for c in Child if c.a == x1 and c.e != x1 and c.c == x2 and c.e > x1",
        {'x1': 9201, 'x2': 9202}, [(A, 9201), (E, 9201), (C, 9202), (E, 9201)])
    add('in_list', "c for c in Child if c.a in seq and c.b == x", {'seq': [9301, 9302, 9303], 'x': 'S9304'},
        [(A, 9301), (A, 9302), (A, 9303), (B, 'S9304')])
    add('entity_param', "c for c in Child if c.par == par_obj and c.a == x", {'x': 9401},
        [(K1, 7001), (K2, 'K7002'), (A, 9401)])
    add('entity_param_ne', "c for c in Child if c.a == x and c.par != par_obj", {'x': 9411},
        [(A, 9411), (K1, 7001), (K2, 'K7002')])
    add('tuple_eq', "c for c in Child if (c.a, c.b) == (x1, x2)", {'x1': 9501, 'x2': 'S9502'}, [(A, 9501), (B, 'S9502')])
    add('range', "c for c in Child if c.a > lo and c.e < hi", {'lo': 9601, 'hi': 9602}, [(A, 9601), (E, 9602)])
    add('like_eq', "c for c in Child if c.b.startswith(x2) and c.a == x1", {'x1': 9701, 'x2': 'S9702'},
        [(B, 'S9702'), (A, 9701)])
    add('like_in', "c for c in Child if x2 in c.d and c.b.endswith(x3) and c.e == x1", {'x1': 9711, 'x2': 'S9712', 'x3': 'S9713'},
        [(D, 'S9712'), (B, 'S9713'), (E, 9711)])
    add('or', "c for c in Child if (c.a == x1 or c.c == x2) and c.d == x3", {'x1': 9801, 'x2': 9802, 'x3': 'S9803'},
        [(A, 9801), (C, 9802), (D, 'S9803')])
    add('subquery', "c for c in Child if c.a == x1 and exists(k for k in Child if k.e == x2 and k.a == c.a)",
        {'x1': 9901, 'x2': 9902}, [(A, 9901), (E, 9902)])
    add('select_param', "(c.id, x1) for c in Child if c.a == x2", {'x1': 'S9911', 'x2': 9912}, [(ID, 'S9911'), (A, 9912)])
    add('arith', "c for c in Child if c.a + x1 == x2", {'x1': 9921, 'x2': 9922}, [(A, 9921), (A, 9922)])
    add('parent_composite', "p for p in Parent if p.k2 == x and p.k1 in (x1, x2)", {'x': 'S9931', 'x1': 9932, 'x2': 9933},
        [(cols['p_k2'], 'S9931'), (cols['p_k1'], 9932), (cols['p_k1'], 9933)])
    add('join', "c for c in Child if c.par.name == x1 and c.a == x2", {'x1': 'S9941', 'x2': 9942},
        [(cols['p_name'], 'S9941'), (A, 9942)])
    # random conjunctions over atomic conditions, with parameter reuse
    atoms = [('c.a == %s', A, int), ('c.b == %s', B, str), ('c.c != %s', C, int), ('c.d == %s', D, str), ('c.e >= %s', E, int),
             ('c.b.startswith(%s)', B, str), ('%s in c.d', D, str), ('c.e < %s', E, int), ('c.a != %s', A, int)]
    for qi in range(n_random):
        k = rng.randint(2, 6)
        params, exp, conds = {}, [], []
        pool = {int: [], str: []}
        for j in range(k):
            tmpl, col, typ = rng.choice(atoms)
            if pool[typ] and rng.random() < 0.35:
                name = rng.choice(pool[typ])
            else:
                name = 'v%d' % j
                params[name] = (20000 + qi * 10 + j) if typ is int else 'R%d_%d' % (qi, j)
                pool[typ].append(name)
            conds.append(tmpl % name); exp.append((col, params[name]))
        add('random%d' % qi, 'c for c in Child if ' + ' and '.join(conds), params, exp)
    return out


def p1_run(ctx, shimlib, core, n_random):
    from pony.orm import Database, db_session, select, flush, commit, exists
    rng = ctx.subrng('p1')
    combos = []
    for base in ('generic', 'postgres', 'mysql', 'oracle'):
        for style in STYLES: combos.append((base, style))
    combos.append(('cockroach', 'pyformat'))
    combos = [c for i, c in enumerate(combos) if i % ctx.nshards == ctx.shard % max(1, min(ctx.nshards, len(combos)))] \
        if ctx.nshards > 1 else combos
    for base, style in combos:
        db = Database()
        if base == 'generic':
            cls = shimlib.make_generic_provider_class(style)
            db.bind(cls); log = cls.LOG
            dialect = 'generic'
        else:
            cls = shimlib.provider_class(base)
            if style != NATIVE[base]: cls = shimlib.with_paramstyle(cls, style)
            log = shimlib.bind_class(db, base, cls)
            dialect = base
        Parent, Child, Item, Tag = p1_define(db, core)
        mark = log.mark()
        db.generate_mapping(create_tables=True)
        for e in log.statements(mark):       # DDL and catalog probes: written by hand in the provider, native style
            if e['args'] is not None and e['sql'].lstrip().upper().startswith('SELECT'):
                ctx.count('P1.catalog_probe_statements')
        col = lambda attr, i=0: attr.columns[i]
        cols = {'a': col(Child.a), 'b': col(Child.b), 'c': col(Child.c), 'd': col(Child.d), 'e': col(Child.e),
                'id': col(Child.id), 'par_k1': col(Child.par, 0), 'par_k2': col(Child.par, 1),
                'p_k1': col(Parent.k1), 'p_k2': col(Parent.k2), 'p_name': col(Parent.name)}

        def stmts(mark, head):
            return [e for e in log.statements(mark) if e['sql'].lstrip().upper().startswith(head)]

        # ---- INSERTs (composite pk, fk to composite pk, m2m executemany) -------------------------
        mark = log.mark()
        with db_session:
            par = Parent(k1=7001, k2='K7002', name='N7003')
            ch = Child(id=501, a=1101, b='B1102', c=1103, d='D1104', e=1105, par=par)
            it = Item(i1=3001, i2='I3002', v='V3003', w=3004)
            t1 = Tag(id=801, label='L802'); t2 = Tag(id=803, label='L804')
            ch.tags.add(t1); ch.tags.add(t2)
            flush()
            ins = stmts(mark, 'INSERT')
            exp_by_table = {
                table_key(Parent._table_): [('insert', col(Parent.k1), 7001), ('insert', col(Parent.k2), 'K7002'), ('insert', col(Parent.name), 'N7003')],
                table_key(Child._table_): [('insert', cols['id'], 501), ('insert', cols['a'], 1101), ('insert', cols['b'], 'B1102'),
                                ('insert', cols['c'], 1103), ('insert', cols['d'], 'D1104'), ('insert', cols['e'], 1105),
                                ('insert', cols['par_k1'], 7001), ('insert', cols['par_k2'], 'K7002')],
                table_key(Item._table_): [('insert', col(Item.i1), 3001), ('insert', col(Item.i2), 'I3002'), ('insert', col(Item.v), 'V3003'),
                               ('insert', col(Item.w), 3004)],
            }
            m2m_table = Child.tags.table
            seen_tables = set()
            for e in ins:
                tname = insert_table(shimlib, e['sql'], dialect)
                seen_tables.add(tname)
                if tname == table_key(m2m_table):
                    p1_check_m2m(ctx, shimlib, dialect, style, e, Child, Tag)
                elif tname == table_key(Tag._table_):
                    lab = {801: 'L802', 803: 'L804'}
                    p1_check_tag(ctx, shimlib, dialect, style, e, Tag, lab)
                elif tname in exp_by_table:
                    p1_check(ctx, shimlib, 'insert', dialect, style, e['sql'], e['args'], exp_by_table[tname],
                             (base, style, 'insert', str(tname)))
                else:
                    ctx.violation({'part': 'P1', 'sql': e['sql'], 'dialect': dialect}, mechanism='P1 INSERT into unknown table')
            for t in (Parent._table_, Child._table_, Item._table_, Tag._table_, m2m_table):
                if table_key(t) not in seen_tables:
                    ctx.violation({'part': 'P1', 'dialect': dialect, 'style': style, 'missing_insert_for': str(t)},
                                  mechanism='P1 expected INSERT not recorded')

            # ---- queries built by the real translator ------------------------------------------
            for name, src, params, exp in p1_queries(rng, cols, n_random):
                g = dict(params, Child=Child, Parent=Parent, par_obj=par, exists=exists)
                mark = log.mark()
                try:
                    select(src, g)[:]
                except Exception as e:
                    ctx.count('P1.query_raised'); ctx.count('P1.query_raised.%s' % type(e).__name__)
                    if ctx.counters['P1.query_raised'] <= 3:
                        ctx.extra.setdefault('P1_query_errors', []).append({'dialect': dialect, 'query': src, 'error': repr(e)[:200]})
                    continue
                sel = stmts(mark, 'SELECT')
                if len(sel) != 1:
                    ctx.count('P1.query_multi_statement'); continue
                p1_check(ctx, shimlib, 'query:' + name, dialect, style, sel[0]['sql'], sel[0]['args'],
                         [(None, c, v) for c, v in exp], (base, style, 'query', name if not name.startswith('random') else src))
            # get()/filter kwargs path (Entity._construct_sql_)
            mark = log.mark()
            Child.get(a=4101, e=4102)
            sel = stmts(mark, 'SELECT')
            if len(sel) == 1:
                p1_check(ctx, shimlib, 'get_kwargs', dialect, style, sel[0]['sql'], sel[0]['args'],
                         [(None, cols['a'], 4101), (None, cols['e'], 4102)], (base, style, 'get_kwargs'))
            mark = log.mark()
            Item.get(i1=4201, i2='I4202')
            sel = stmts(mark, 'SELECT')
            if len(sel) == 1:
                p1_check(ctx, shimlib, 'get_composite_pk', dialect, style, sel[0]['sql'], sel[0]['args'],
                         [(None, col(Item.i1), 4201), (None, col(Item.i2), 'I4202')], (base, style, 'get_composite_pk'))

        # ---- UPDATE with optimistic checks / DELETE on objects "loaded" through canned rows -----
        canned = {
            table_key(Child._table_): {cols['id']: PKARG, cols['a']: 2101, cols['b']: 'OB2102', cols['c']: None, cols['d']: 'OD2104',
                                       cols['e']: 2105, cols['par_k1']: 7001, cols['par_k2']: 'K7002'},
            table_key(Item._table_): {col(Item.i1): 3001, col(Item.i2): 'I3002', col(Item.v): 'OV3003', col(Item.w): 3004},
            table_key(Parent._table_): {col(Parent.k1): 7001, col(Parent.k2): 'K7002', col(Parent.name): 'ON7003'},
        }
        def responder(sql, args, canned=canned, dialect=dialect, style=style):
            if not sql.lstrip().upper().startswith('SELECT'): return None
            try:
                toks = shimlib.lex(shimlib.driver_view(style, sql, args), dialect, style)
            except Exception: return None
            names, i = [], 1
            # select list of plain column references up to FROM
            while i < len(toks) and not (toks[i][0] == 'word' and toks[i][2] == 'FROM'):
                if toks[i][0] == 'ident': names.append(toks[i][2])
                elif toks[i][0] == 'word': return None
                i += 1
            if i >= len(toks) or not names: return None
            tname = toks[i + 1][2] if toks[i + 1][0] == 'ident' else None
            row = canned.get(tname)
            if row is None: return None
            colnames = names[1::2] if len(names) % 2 == 0 and len(set(names[0::2])) == 1 else names
            if any(c not in row for c in colnames): return None
            res = [v for _, v in shimlib.resolve(toks, style, args)] if args is not None else []
            return [tuple((res[0] if row[c] is PKARG and res else row[c]) for c in colnames)]
        log.responder = responder
        try:
            mark = log.mark()
            with db_session:
                ch = Child[601]
                _ = (ch.a, ch.b, ch.c, ch.d, ch.e)
                ch.a = 5101; ch.d = 'ND5104'
                it = Item[3001, 'I3002']
                _ = (it.v, it.w)
                it.v = 'NV5203'
                pr = Parent[7001, 'K7002']
                _ = pr.name
                pr.name = 'NN5303'
                commit()
            upd = stmts(mark, 'UPDATE')
            old_child = {cols['id']: 601, cols['a']: 2101, cols['b']: 'OB2102', cols['c']: None, cols['d']: 'OD2104', cols['e']: 2105}
            want = {
                table_key(Child._table_): ([('set', cols['a'], 5101), ('set', cols['d'], 'ND5104')], old_child),
                table_key(Item._table_): ([('set', col(Item.v), 'NV5203')],
                                          {col(Item.i1): 3001, col(Item.i2): 'I3002', col(Item.v): 'OV3003', col(Item.w): 3004}),
                table_key(Parent._table_): ([('set', col(Parent.name), 'NN5303')],
                                            {col(Parent.k1): 7001, col(Parent.k2): 'K7002', col(Parent.name): 'ON7003'}),
            }
            pk_cols = {table_key(Child._table_): [cols['id']], table_key(Item._table_): [col(Item.i1), col(Item.i2)],
                       table_key(Parent._table_): [col(Parent.k1), col(Parent.k2)]}
            seen = set()
            for e in upd:
                tname = update_table(shimlib, e['sql'], dialect)
                if tname not in want: continue
                seen.add(tname)
                sets, old = want[tname]
                # expected WHERE bindings: whatever columns pony chose to check, each with the OLD value; pk must be there
                try:
                    toks = shimlib.lex(shimlib.driver_view(style, e['sql'], e['args']), dialect, style)
                    got = bindings(toks, shimlib.resolve(toks, style, e['args']))
                except Exception:
                    got = []
                where_cols = [c for (s, c, v) in got if s == 'where']
                exp = list(sets) + [('where', c, old.get(c, '<no such column>')) for c in where_cols]
                for pk in pk_cols[tname]:
                    if pk not in where_cols: exp.append(('where', pk, old[pk]))
                if len(where_cols) > len(pk_cols[tname]): ctx.count('P1.optimistic_bindings', len(where_cols) - len(pk_cols[tname]))
                p1_check(ctx, shimlib, 'update', dialect, style, e['sql'], e['args'], exp, (base, style, 'update', str(tname)))
            for t in want:
                if t not in seen:
                    ctx.violation({'part': 'P1', 'dialect': dialect, 'style': style, 'missing_update_for': str(t)},
                                  mechanism='P1 expected UPDATE not recorded')
            mark = log.mark()
            with db_session:
                ch = Child[602]; ch.delete()
                it = Item[3001, 'I3002']; it.delete()
                commit()
            for e in stmts(mark, 'DELETE'):
                tname = delete_table(shimlib, e['sql'], dialect)
                if tname == table_key(Child._table_):
                    if Child.tags.table and tname == table_key(Child.tags.table): continue
                    p1_check(ctx, shimlib, 'delete', dialect, style, e['sql'], e['args'], [('where', cols['id'], 602)],
                             (base, style, 'delete', 'child'))
                elif tname == table_key(Item._table_):
                    p1_check(ctx, shimlib, 'delete', dialect, style, e['sql'], e['args'],
                             [('where', col(Item.i1), 3001), ('where', col(Item.i2), 'I3002')], (base, style, 'delete', 'item'))
        finally:
            log.responder = None
        db.disconnect()


PKARG = object()


def table_key(t):
    return t if isinstance(t, str) else t[-1]


def _first_ident_after(shimlib, sql, dialect, word):
    toks = shimlib.lex(_strip_ph(sql), dialect, 'qmark')
    for i, t in enumerate(toks):
        if t[0] == 'word' and t[2] == word:
            j = i + 1
            last = None
            while j < len(toks) and (toks[j][0] == 'ident' or toks[j][1] == '.'):
                if toks[j][0] == 'ident': last = toks[j][2]
                j += 1
            return last
    return None


def _strip_ph(sql):
    # neutralise pyformat/format/named placeholders so that the statement head can be lexed style-independently
    return re.sub(r'%\(\w+\)s|%s|%%', '?', sql)


def insert_table(shimlib, sql, dialect): return _first_ident_after(shimlib, sql, dialect, 'INTO')
def update_table(shimlib, sql, dialect): return _first_ident_after(shimlib, sql, dialect, 'UPDATE')
def delete_table(shimlib, sql, dialect): return _first_ident_after(shimlib, sql, dialect, 'FROM')


def p1_check_m2m(ctx, shimlib, dialect, style, e, Child, Tag):
    args = e['args'] if type(e['args']) is list else [e['args']]
    for k, a in enumerate(args):
        try:
            toks = shimlib.lex(shimlib.driver_view(style, e['sql'], a), dialect, style)
            got = bindings(toks, shimlib.resolve(toks, style, a))
        except Exception as ex:
            ctx.violation({'part': 'P1', 'what': 'm2m insert', 'dialect': dialect, 'style': style, 'sql': e['sql'], 'args': repr(a),
                           'error': repr(ex)}, mechanism='P1 placeholders do not match arguments')
            return
        ctx.case(('P1', dialect, style, 'm2m', k), sample=None)
        ctx.count('P1.statements'); ctx.count('P1.m2m_rows')
        byv = {v: c for (s, c, v) in got}
        # the value 501 must sit in the column named after the child entity, 801/803 in the one named after tag
        ok = len(got) == 2 and 501 in byv and (801 in byv or 803 in byv) and \
            byv[501].lower().startswith('child') and [c for v, c in byv.items() if v != 501][0].lower().startswith('tag')
        if ok: ctx.count('P1.ok')
        else:
            ctx.violation({'part': 'P1', 'what': 'm2m insert', 'dialect': dialect, 'style': style, 'sql': e['sql'], 'args': repr(a),
                           'bound': repr(got)}, mechanism='P1 sentinel bound to the wrong column')


def p1_check_tag(ctx, shimlib, dialect, style, e, Tag, labels):
    args = e['args'] if type(e['args']) is list else [e['args']]
    for a in args:
        try:
            toks = shimlib.lex(shimlib.driver_view(style, e['sql'], a), dialect, style)
            got = dict((c, v) for (s, c, v) in bindings(toks, shimlib.resolve(toks, style, a)))
        except Exception as ex:
            ctx.violation({'part': 'P1', 'what': 'tag insert', 'sql': e['sql'], 'args': repr(a), 'error': repr(ex)},
                          mechanism='P1 placeholders do not match arguments'); return
        ctx.case(('P1', dialect, style, 'tag', repr(a)))
        ctx.count('P1.statements')
        i, l = got.get(Tag.id.columns[0]), got.get(Tag.label.columns[0])
        if labels.get(i) == l: ctx.count('P1.ok')
        else: ctx.violation({'part': 'P1', 'what': 'tag insert', 'sql': e['sql'], 'args': repr(a), 'bound': repr(got)},
                            mechanism='P1 sentinel bound to the wrong column')


# =================================================================================================
# P2  echo on SQLite (real execution)
# =================================================================================================
def p2_run(ctx, values, quick):
    from pony.orm import Database, Required, Optional, PrimaryKey, db_session, select, flush
    from vlib.dbapi import Recorder
    import os
    rec = Recorder()
    fn = os.path.join(ctx.tmp(), 'p2-%d.sqlite' % ctx.shard)
    db = Database()
    db.bind('sqlite', fn, create_db=True, factory=rec.factory())
    S = type('S', (db.Entity,), {'id': PrimaryKey(int), 'v': Optional(str, autostrip=False)})
    N = type('N', (db.Entity,), {'id': PrimaryKey(int), 'i': Optional(int, size=64), 'f': Optional(float), 'de': Optional(Decimal, 24, 6),
                                 'dt': Optional(date), 'ts': Optional(datetime), 'td': Optional(timedelta), 'bb': Optional(bytes),
                                 'bo': Optional(bool)})
    db.generate_mapping(create_tables=True)
    data = list(dict.fromkeys(values))
    with db_session:
        for i, v in enumerate(data): S(id=i + 1, v=v)
    ids = {i + 1: v for i, v in enumerate(data)}
    # stored bytes identical (raw connection, no pony)
    raw = sqlite3.connect(fn)
    stored = dict(raw.execute('select id, v from "S"').fetchall())
    for i, v in ids.items():
        ctx.case(('P2', 'stored', v)); ctx.count('P2.stored_checked')
        if stored.get(i) != v:
            ctx.violation({'part': 'P2', 'what': 'value stored through a parameter differs', 'value': v, 'stored': stored.get(i)},
                          mechanism='P2 stored value differs')
    def judge(kind, form, x, src, got, exp):
        ctx.case(('P2', kind, form, x), sample={'part': 'P2', 'query': src, 'value': x})
        ctx.count('P2.queries'); ctx.count('P2.%s.%s' % (kind, form))
        if got == exp:
            ctx.count('P2.agree')
            if exp: ctx.count('P2.agree_nonempty')
        else:
            ctx.violation({'part': 'P2', 'query': src, 'value': x, 'got': sorted(got, key=repr), 'python': sorted(exp, key=repr)},
                          mechanism='P2 sqlite %s %s' % (kind, form))
    with db_session:
        for x in data:
            tests = [('eq', 'p.id for p in S if p.v == %s', lambda d: d == x),
                     ('startswith', 'p.id for p in S if p.v.startswith(%s)', lambda d: d.startswith(x)),
                     ('endswith', 'p.id for p in S if p.v.endswith(%s)', lambda d: d.endswith(x)),
                     ('contains', 'p.id for p in S if %s in p.v', lambda d: x in d),
                     ('not_contains', 'p.id for p in S if %s not in p.v', lambda d: x not in d)]
            for kind, tmpl, pyf in tests:
                exp = {i for i, d in ids.items() if pyf(d)}
                for form, arg, g in (('const', repr(x), {}), ('param', 'x', {'x': x})):
                    src = tmpl % arg
                    try: got = set(select(src, dict(g, S=S))[:])
                    except Exception as e:
                        ctx.violation({'part': 'P2', 'query': src, 'value': x, 'error': repr(e)[:300]},
                                      mechanism='P2 sqlite %s %s raised %s' % (kind, form, type(e).__name__)); continue
                    judge(kind, form, x, src, got, exp)
            # the value itself echoed back by the backend
            for form, arg, g in (('const', repr(x), {}), ('param', 'x', {'x': x})):
                src = '(p.id, %s) for p in S if p.id == 1' % arg
                try: got = select(src, dict(g, S=S))[:]
                except Exception as e:
                    ctx.violation({'part': 'P2', 'query': src, 'value': x, 'error': repr(e)[:300]}, mechanism='P2 sqlite echo raised'); continue
                judge('echo', form, x, src, list(got), [(1, x)])
    # every recorded statement: qmark count == len(args), no hostile text outside literals
    from vlib import shimlib
    for e in rec.statements():
        if e['args'] is None: continue
        try:
            toks = shimlib.lex(e['sql'], 'sqlite', 'qmark')
            shimlib.resolve(toks, 'qmark', e['args'])
            n = sum(1 for t in toks if t[0] == 'ph')
            ctx.count('P2.recorded_statements_checked')
            if n != len(e['args']):
                ctx.violation({'part': 'P2', 'sql': e['sql'], 'args': repr(e['args'])[:300]}, mechanism='P1 placeholder count/names differ from arguments')
        except (shimlib.LexError, shimlib.DriverFormatError) as ex:
            ctx.violation({'part': 'P2', 'sql': e['sql'], 'args': repr(e['args'])[:300], 'error': str(ex)},
                          mechanism='P2 recorded sqlite statement does not lex')
    # ---- typed values ---------------------------------------------------------------------------
    typed = {
        'i': [0, 1, -1, 2 ** 31, -2 ** 31 - 1, 2 ** 63 - 1, -2 ** 63, 10 ** 15 + 1],
        'f': [0.0, 1.5, -2.25, 1e-300, 1.5e300, 0.1, 123456789.125, -1e-7],
        'de': [Decimal('0'), Decimal('1.50'), Decimal('-12345.678901'), Decimal('0.000001'), Decimal('99999999.999999')],
        'dt': [date(2020, 1, 31), date(1999, 12, 31), date(2400, 2, 29), date(1000, 1, 1)],
        'ts': [datetime(2020, 1, 31, 1, 2, 3), datetime(2020, 1, 31, 1, 2, 3, 456), datetime(1999, 12, 31, 23, 59, 59, 999999)],
        'td': [timedelta(0), timedelta(hours=30, microseconds=5), timedelta(days=-1, seconds=1), timedelta(seconds=59, microseconds=999999),
               timedelta(days=400, hours=7)],
        'bb': [b'', b'\x00\xff', b"'\\%_", bytes(range(256))],
        'bo': [True, False],
    }
    rows = []
    with db_session:
        k = 0
        for attr, vals in typed.items():
            for v in vals:
                k += 1
                N(id=k, **{attr: v}); rows.append((k, attr, v))
    def const_src(v):
        if isinstance(v, bool): return repr(v)
        if isinstance(v, (int, float)): return repr(v)
        if isinstance(v, Decimal): return "Decimal('%s')" % v
        if isinstance(v, datetime): return 'datetime(%d,%d,%d,%d,%d,%d,%d)' % (v.year, v.month, v.day, v.hour, v.minute, v.second, v.microsecond)
        if isinstance(v, date): return 'date(%d,%d,%d)' % (v.year, v.month, v.day)
        if isinstance(v, timedelta): return 'timedelta(%d,%d,%d)' % (v.days, v.seconds, v.microseconds)
        if isinstance(v, bytes): return repr(v)
    G = {'N': N, 'Decimal': Decimal, 'date': date, 'datetime': datetime, 'timedelta': timedelta}
    with db_session:
        for (k, attr, v) in rows:
            same = lambda a, b: (abs(a - b) <= 1e-14 * max(abs(a), abs(b))) if attr == 'f' else a == b
            exp = {kk for (kk, aa, vv) in rows if aa == attr and same(vv, v)}
            for form in ('param', 'const'):
                if form == 'const':
                    src, g = 'p.id for p in N if p.%s == %s' % (attr, const_src(v)), {}
                else:
                    src, g = 'p.id for p in N if p.%s == x' % attr, {'x': v}
                try: got = set(select(src, dict(G, **g))[:])
                except Exception as e:
                    ctx.count('P2.typed_raised'); ctx.count('P2.typed_raised.%s.%s' % (attr, form))
                    ctx.case(('P2', 'typed', attr, form, repr(v), 'raised'), nontrivial=False)
                    continue
                ctx.case(('P2', 'typed', attr, form, repr(v)), sample={'part': 'P2', 'query': src, 'value': repr(v)})
                ctx.count('P2.queries'); ctx.count('P2.typed.%s' % form)
                if got == exp: ctx.count('P2.agree'); ctx.count('P2.agree_nonempty')
                else:
                    ctx.violation({'part': 'P2', 'query': src, 'value': repr(v), 'got': sorted(got), 'python': sorted(exp),
                                   'sql': db.last_sql}, mechanism='P2 sqlite typed %s %s' % (attr, form))
    raw.close()
    db.disconnect()


# =================================================================================================
# P3a  literal text of the Value classes decoded by the dialect lexer
# =================================================================================================
def parse_hms(s):
    neg = s.startswith('-')
    if neg: s = s[1:]
    parts = s.split(':')
    if len(parts) != 3: raise ValueError(s)
    sec = Decimal(parts[2])
    td = timedelta(hours=int(parts[0]), minutes=int(parts[1]), seconds=int(sec), microseconds=int((sec - int(sec)) * 1000000))
    return -td if neg else td


def decode_value(shimlib, dialect, style, text, backslash=None):
    """Decode the text of ONE inline constant as the server would read it (after driver %-formatting)."""
    eff = shimlib.driver_view(style, text, () if style in ('qmark', 'format', 'numeric') else {})
    toks = shimlib.lex(eff, dialect, style, backslash=backslash)
    kinds = [t[0] for t in toks]
    if kinds == ['str']: return toks[0][2]
    if kinds == ['num']: return Decimal(toks[0][1])
    if kinds == ['op', 'num'] and toks[0][1] == '-': return -Decimal(toks[1][1])
    if kinds == ['word']:
        w = toks[0][2]
        if w == 'NULL': return None
        if w in ('TRUE', 'FALSE'): return w == 'TRUE'
        if w[0] == 'X': raise shimlib.LexError('bare word ' + w)
    if kinds == ['word', 'str']:
        w, s = toks[0][2], toks[1][2]
        if w == 'DATE': return datetime.strptime(s, '%Y-%m-%d').date()
        if w == 'TIMESTAMP':
            return datetime.strptime(s, '%Y-%m-%d %H:%M:%S.%f' if '.' in s else '%Y-%m-%d %H:%M:%S')
        if w == 'X': return bytes.fromhex(s)
    if kinds[:2] == ['word', 'str'] and toks[0][2] == 'INTERVAL':
        tail = ' '.join(t[2] for t in toks[2:])
        if tail in ('HOUR TO SECOND', 'HOUR_SECOND', 'HOUR_MICROSECOND'): return parse_hms(toks[1][2])
    raise shimlib.LexError('unrecognised literal shape %r' % kinds)


def p3a_run(ctx, shimlib, values):
    from pony.orm.sqlbuilding import Value
    from pony.orm.dbproviders.sqlite import SQLiteValue
    from pony.orm.dbproviders.postgres import PGValue
    from pony.orm.dbproviders.mysql import MySQLValue
    classes = [('generic', Value, s) for s in STYLES] + [('oracle', Value, 'named'), ('postgres', PGValue, 'pyformat'),
               ('mysql', MySQLValue, 'format'), ('sqlite', SQLiteValue, 'qmark')]
    typed = [0, 7, -3, 2 ** 63, 1.5, -0.25, 1e300, 1e-7, Decimal('1.50'), Decimal('-0.000001'), True, False, None,
             date(2020, 1, 31), datetime(2020, 1, 31, 1, 2, 3, 456), datetime(1999, 12, 31, 23, 59, 59),
             timedelta(hours=30, microseconds=5), timedelta(seconds=5), timedelta(days=2, hours=3), b'\x00\xff\'%', b'']
    for dialect, cls, style in classes:
        for v in list(values) + typed:
            text = str(cls(style, v))
            ctx.case(('P3a', dialect, style, repr(v)), nontrivial=v not in ('',),
                     sample={'part': 'P3a', 'dialect': dialect, 'style': style, 'value': repr(v), 'literal': text})
            ctx.count('P3a.literals'); ctx.count('P3a.literals.' + dialect)
            w = {'part': 'P3a', 'dialect': dialect, 'style': style, 'class': cls.__name__, 'value': repr(v), 'literal_text': text}
            try:
                got = decode_value(shimlib, dialect, style, text)
                err = None
            except (shimlib.LexError, shimlib.DriverFormatError, ValueError) as e:
                got, err = None, '%s: %s' % (type(e).__name__, e)
            if err is None and literal_equal(dialect, v, got):
                ctx.count('P3a.ok'); continue
            # deviation rule: MySQL literal emitted without backslash escaping -- decoding the same text with
            # backslash escapes switched off (NO_BACKSLASH_ESCAPES) gives back the value
            if dialect == 'mysql' and isinstance(v, str) and '\\' in v:
                try: alt = decode_value(shimlib, dialect, style, text, backslash=False)
                except Exception: alt = object()
                if alt == v:
                    ctx.count('P3a.known.C06-MYSQL-BACKSLASH-LITERAL')
                    ctx.finding('C06-MYSQL-BACKSLASH-LITERAL', dict(w, decoded=repr(got), error=err,
                                rule="MySQL default sql_mode: backslash is an escape character inside '...' literals"))
                    continue
            ctx.violation(dict(w, decoded=repr(got), error=err), mechanism='P3a %s literal does not denote the value' % dialect)


def literal_equal(dialect, v, got):
    if isinstance(v, bool): return got in (v, Decimal(int(v)))
    if isinstance(v, (int, float)) and not isinstance(v, bool):
        return isinstance(got, Decimal) and (float(got) == float(v) if isinstance(v, float) else got == v)
    if isinstance(v, Decimal): return isinstance(got, Decimal) and got == v
    if dialect == 'sqlite':
        if isinstance(v, datetime): return got == v.strftime('%Y-%m-%d %H:%M:%S.%f')
        if isinstance(v, date): return got == v.isoformat()
        if isinstance(v, timedelta):
            return isinstance(got, Decimal) and abs(float(got) * 86400 - v.total_seconds()) < 1e-6
    return type(got) is type(v) and got == v


# =================================================================================================
# P3b  whole statements with inline constants / LIKE patterns under the dialect's lexical model
# =================================================================================================
def p3b_run(ctx, shimlib, values, data):
    from pony.orm import Database, Optional, PrimaryKey, db_session, select
    benign = ['abc', 'a%c']
    for dialect in ('generic', 'postgres', 'mysql', 'oracle'):
        db = Database()
        if dialect == 'generic':
            cls = shimlib.make_generic_provider_class('qmark'); db.bind(cls)
        else: shimlib.bind(db, dialect)
        style = NATIVE[dialect]
        S = type('S', (db.Entity,), {'id': PrimaryKey(int), 'v': Optional(str, autostrip=False)})
        db.generate_mapping(check_tables=False)
        rows = [(i + 1, d) for i, d in enumerate(data) if not (dialect == 'oracle' and d == '')]
        cons = {}
        def con_for(like_escape):
            if like_escape not in cons:
                con = sqlite3.connect(':memory:')
                shimlib.register_string_model(con, dialect, like_escape)
                t = S._table_ if isinstance(S._table_, str) else S._table_[-1]
                con.execute('create table "%s" ("%s" integer, "%s" text)' % (t, S.id.column, S.v.column))
                con.executemany('insert into "%s" values (?, ?)' % t, rows)
                cons[like_escape] = con
            return cons[like_escape]
        tests = [('eq', 'p.id for p in S if p.v == %s', lambda d, x: d == x),
                 ('ne', 'p.id for p in S if p.v != %s', lambda d, x: d != x),
                 ('startswith', 'p.id for p in S if p.v.startswith(%s)', lambda d, x: d.startswith(x)),
                 ('endswith', 'p.id for p in S if p.v.endswith(%s)', lambda d, x: d.endswith(x)),
                 ('contains', 'p.id for p in S if %s in p.v', lambda d, x: x in d)]
        skel = {}
        def statement(kind, tmpl, form, x):
            src = tmpl % (repr(x) if form == 'const' else 'x')
            with db_session:
                q = select(src, {'S': S, 'x': x})
                sql, args, _, _ = q._construct_sql_and_arguments()
            return src, sql, args
        for kind, tmpl, pyf in tests:
            for form in ('const', 'param'):
                skel[(kind, form)] = set()
                for b in benign:
                    src, sql, args = statement(kind, tmpl, form, b)
                    skel[(kind, form)].add(shimlib.skeleton(shimlib.lex(shimlib.driver_view(style, sql, args), dialect, style)))
        for x in values:
            if dialect == 'oracle' and x == '': continue
            for kind, tmpl, pyf in tests:
                exp = {i for i, d in rows if pyf(d, x)}
                for form in ('const', 'param'):
                    try:
                        src, sql, args = statement(kind, tmpl, form, x)
                    except Exception as e:
                        ctx.count('P3b.translation_raised'); continue
                    ctx.case(('P3b', dialect, kind, form, x), sample={'part': 'P3b', 'dialect': dialect, 'query': src, 'sql': sql,
                                                                     'args': repr(args)})
                    ctx.count('P3b.statements'); ctx.count('P3b.statements.' + dialect)
                    w = {'part': 'P3b', 'dialect': dialect, 'style': style, 'query': src, 'value': x, 'sql': sql, 'args': repr(args)}
                    def evaluate(backslash=None, like_escape='default'):
                        eff = shimlib.driver_view(style, sql, args)
                        toks = shimlib.lex(eff, dialect, style, backslash=backslash)
                        sk = shimlib.skeleton(toks)
                        rw = shimlib.to_sqlite(toks, style, args)
                        if rw is None: return sk, None
                        return sk, {r[0] for r in con_for(like_escape).execute(rw[0], rw[1]).fetchall()}
                    try:
                        sk, got = evaluate(); err = None
                    except (shimlib.LexError, shimlib.DriverFormatError, sqlite3.Error) as e:
                        sk, got, err = None, None, '%s: %s' % (type(e).__name__, e)
                    if err is None and got is None:
                        ctx.count('P3b.unsupported'); continue
                    ok_struct = err is None and sk in skel[(kind, form)]
                    if ok_struct and got == exp:
                        ctx.count('P3b.agree')
                        if exp: ctx.count('P3b.agree_nonempty')
                        ctx.count('P3b.skeleton_equal')
                        continue
                    # deviation rules: switch exactly one lexical rule off and see whether Python's answer comes back
                    verdict = None
                    for fid, kw in (('C06-MYSQL-BACKSLASH-LITERAL', {'backslash': False}),
                                    ('C06-LIKE-BACKSLASH-DEFAULT-ESCAPE', {'like_escape': None}),
                                    ('C06-MYSQL-BACKSLASH-LITERAL', {'backslash': False, 'like_escape': None})):
                        if 'backslash' in kw and dialect != 'mysql': continue
                        if 'like_escape' in kw and (shimlib.LEXICAL[dialect]['like_escape'] is None or kind not in ('startswith', 'endswith', 'contains')): continue
                        if '\\' not in x or form != 'const': continue
                        try: sk2, got2 = evaluate(**kw)
                        except Exception: continue
                        if got2 == exp and sk2 in skel[(kind, form)]:
                            verdict = fid; break
                    if verdict:
                        ctx.count('P3b.known.' + verdict)
                        ctx.finding(verdict, dict(w, got=sorted(got) if got is not None else None, python=sorted(exp), error=err,
                                                  structure_changed=not ok_struct))
                    elif not ok_struct:
                        ctx.violation(dict(w, skeleton=sk, benign_skeletons=sorted(skel[(kind, form)]), error=err),
                                      mechanism='P3b %s statement structure depends on the value' % dialect)
                    else:
                        ctx.violation(dict(w, got=sorted(got), python=sorted(exp)), mechanism='P3b %s %s %s' % (dialect, kind, form))
        for c in cons.values(): c.close()
        db.disconnect()


# =================================================================================================
# P4  identifiers
# =================================================================================================
WEIRD = ['two words', 'quo"te', 'back`tick', "sing'le", 'dot.ted', 'select', 'order', 'semi;colon', 'brack[et]', 'uni☃é',
         'UPPER', 'CamelCase', '--dash', 'a\\b', 'p:1', 'q?mark', ' padded ', '""', '``', 'x"."y', 'a`.`b', 'group by', '%s', 'per%cent',
         'x%(p1)sy']


def p4_define(db, tname, cnames):
    from pony.orm import Required, Optional, PrimaryKey
    attrs = {'id': PrimaryKey(int, column=cnames[0]), 'n': Required(int, column=cnames[1]), 's': Optional(str, column=cnames[2]),
             't': Optional(str, column=cnames[3], index=True), '_table_': tname}
    return type('W', (db.Entity,), attrs)


def p4_workload(db, W):
    from pony.orm import db_session, select, commit
    with db_session:
        W(id=1, n=10, s='one', t='x'); W(id=2, n=20, s='two', t='y')
    with db_session:
        w = W[1]; w.s = 'uno'; w.n = 11
    with db_session:
        r = sorted(select((w.id, w.n, w.s) for w in W if w.n >= 11 and w.t != 'zz')[:])
        r2 = W.get(n=20)
        r2 = (r2.id, r2.s) if r2 is not None else None
    with db_session:
        W[2].delete()
    with db_session:
        r3 = sorted(select((w.id, w.n, w.s) for w in W)[:])
    return r, r2, r3


def p4_run(ctx, shimlib, names, quick):
    from pony.orm import Database, db_session
    import os
    rng = ctx.subrng('p4')
    # (i) quote_name decoded by the dialect lexer
    provs = {}
    for dialect in ('generic', 'postgres', 'mysql', 'oracle', 'sqlite'):
        db = Database()
        if dialect == 'generic': db.bind(shimlib.make_generic_provider_class('qmark'))
        elif dialect == 'sqlite': db.bind('sqlite', ':memory:')
        else: shimlib.bind(db, dialect)
        provs[dialect] = db.provider
        style = NATIVE[dialect]
        for name in names + [('sch"ema', n) for n in names[:6]]:
            text = db.provider.quote_name(name)
            ctx.case(('P4', 'quote_name', dialect, name)); ctx.count('P4.quote_name')
            try:
                toks = shimlib.lex(text, dialect, 'qmark')
                dec = [t[2] for t in toks if t[0] == 'ident']
                shape = [t[0] if t[0] == 'ident' else t[1] for t in toks]
            except shimlib.LexError as e:
                dec, shape = None, str(e)
            want = [name] if isinstance(name, str) else list(name)
            want_shape = ['ident'] if isinstance(name, str) else ['ident', '.', 'ident']
            if dec == want and shape == want_shape: ctx.count('P4.quote_name_ok')
            else:
                ctx.violation({'part': 'P4', 'dialect': dialect, 'name': name, 'quoted': text, 'decoded': dec, 'shape': shape},
                              mechanism='P4 %s quote_name does not denote the name' % dialect)
        db.disconnect()
    # (ii) SQLite: create, catalog, CRUD
    groups = [names[i:i + 4] for i in range(0, len(names) - 3, 2)]
    if not quick:
        for _ in range(20): groups.append(rng.sample(names, 4))
    groups = [g for i, g in enumerate(groups) if i % ctx.nshards == ctx.shard]
    benign_result = None
    for gi, g in enumerate([['c_id', 'c_n', 'c_s', 'c_t']] + groups):
        tname = 'benign_t' if gi == 0 else g[0] + '/' + g[3]
        fn = os.path.join(ctx.tmp(), 'p4-%d-%d.sqlite' % (ctx.shard, gi))
        db = Database(); db.bind('sqlite', fn, create_db=True)
        w = {'part': 'P4', 'dialect': 'sqlite', 'table': tname, 'columns': g}
        ctx.case(('P4', 'sqlite', tname, tuple(g)), sample=w); ctx.count('P4.sqlite_schemas')
        try:
            W = p4_define(db, tname, g)
            db.generate_mapping(create_tables=True)
            result = p4_workload(db, W)
        except Exception as e:
            ctx.violation(dict(w, error='%s: %s' % (type(e).__name__, str(e)[:300])), mechanism='P4 sqlite hostile identifier breaks %s' % type(e).__name__)
            db.disconnect(); continue
        raw = sqlite3.connect(fn)
        q = lambda n: '"%s"' % n.replace('"', '""')
        tables = [r[0] for r in raw.execute("select name from sqlite_master where type='table'")]
        colnames = [r[1] for r in raw.execute('pragma table_info(%s)' % q(tname))]
        rows = raw.execute('select %s from %s order by 1' % (', '.join(q(c) for c in g), q(tname))).fetchall() if colnames == g else None
        raw.close()
        if gi == 0: benign_result = result
        if tables.count(tname) != 1 or colnames != g or rows != [(1, 11, 'uno', 'x')] or result != benign_result:
            ctx.violation(dict(w, tables=tables, catalog_columns=colnames, rows=rows, result=repr(result), benign=repr(benign_result)),
                          mechanism='P4 sqlite hostile identifier changes behaviour')
        else: ctx.count('P4.sqlite_ok')
        db.disconnect()
    # (iii) other dialects: recorded statements lex, bind, and have the skeleton of the benign twin
    for dialect in ('generic', 'postgres', 'mysql', 'oracle'):
        style = NATIVE[dialect]
        base = None
        for gi, g in enumerate([['c_id', 'c_n', 'c_s', 'c_t']] + groups):
            tname = 'benign_t' if gi == 0 else g[0] + '/' + g[3]
            db = Database()
            if dialect == 'generic':
                cls = shimlib.make_generic_provider_class('qmark'); db.bind(cls); log = cls.LOG
            else: log = shimlib.bind(db, dialect)
            mark = log.mark()
            w = {'part': 'P4', 'dialect': dialect, 'table': tname, 'columns': g}
            raised = None
            try:
                W = p4_define(db, tname, g)
                db.generate_mapping(create_tables=True)
                log.responder = p4_responder(shimlib, dialect, style, W)
                p4_workload(db, W)
            except Exception as e:
                raised = '%s: %s' % (type(e).__name__, str(e)[:300])
                ctx.count('P4.workload_raised.%s' % type(e).__name__)
            log.responder = None
            sk = []
            bad = None
            declared = {db.provider.normalize_name(n) if False else n for n in [tname] + g}
            for e in log.statements(mark):
                head = e['sql'].lstrip().split(None, 1)[0].upper()
                if head not in ('CREATE', 'INSERT', 'UPDATE', 'SELECT', 'DELETE', 'ALTER'): continue
                if _CATALOG_RE.search(e['sql']): continue
                ctx.count('P4.statements'); ctx.count('P4.statements.' + dialect)
                try:
                    toks = shimlib.lex(shimlib.driver_view(style, e['sql'], e['args']), dialect, style)
                    shimlib.resolve(toks, style, e['args'])
                    if any(t[0] in ('ident', 'str') and shimlib.MARK in t[2] for t in toks):
                        raise shimlib.DriverFormatError('the driver substituted an argument inside a quoted identifier/literal')
                    sk.append(shimlib.skeleton(toks))
                except (shimlib.LexError, shimlib.DriverFormatError) as ex:
                    bad = (e, '%s: %s' % (type(ex).__name__, ex)); break
            ctx.case(('P4', dialect, tname, tuple(g)), sample=w)
            if gi == 0:
                base = sk
                if bad: ctx.violation(dict(w, error=bad[1], sql=bad[0]['sql']), mechanism='P4 benign schema statement does not lex')
                continue
            if bad is not None:
                e, err = bad
                # deviation rule: '%' inside a quoted identifier is not doubled for format/pyformat drivers
                pct = [n for n in [tname] + g if '%' in n]
                if style in ('format', 'pyformat') and pct and e['args'] is not None:
                    fixed = e['sql']
                    for n in sorted({db.provider.quote_name(n) for n in pct} | {db.provider.quote_name(db.provider.normalize_name(n)) for n in pct}, key=len, reverse=True):
                        fixed = fixed.replace(n, n.replace('%', '%%'))
                    try:
                        toks = shimlib.lex(shimlib.driver_view(style, fixed, e['args']), dialect, style)
                        shimlib.resolve(toks, style, e['args'])
                        if any(t[0] in ('ident', 'str') and shimlib.MARK in t[2] for t in toks): raise ValueError('still substituted')
                        ctx.count('P4.known.C06-PERCENT-IN-IDENTIFIER')
                        ctx.finding('C06-PERCENT-IN-IDENTIFIER', dict(w, sql=e['sql'], args=repr(e['args']), error=err))
                        db.disconnect(); continue
                    except Exception: pass
                ctx.violation(dict(w, sql=e['sql'], args=repr(e['args']), error=err), mechanism='P4 %s statement with hostile identifier does not lex/bind' % dialect)
            elif raised is not None:
                ctx.violation(dict(w, error=raised), mechanism='P4 %s hostile identifier breaks the workload' % dialect)
            elif sk != base:
                diff = [(a, b) for a, b in zip(sk, base) if a != b][:2]
                ctx.violation(dict(w, first_difference=diff, n_statements=(len(sk), len(base))),
                              mechanism='P4 %s statement structure depends on identifier' % dialect)
            else: ctx.count('P4.skeleton_equal')
            db.disconnect()


_CATALOG_RE = re.compile(r'pg_catalog|pg_class|information_schema|all_tables|all_indexes|user_constraints|all_sequences|all_triggers', re.I)


def p4_responder(shimlib, dialect, style, W):
    """Canned rows for the W table so that W[1] / W[2] / W.get(n=20) load objects in record mode."""
    cols = [W.id.column, W.n.column, W.s.column, W.t.column]
    data = {1: (1, 10, 'one', 'x'), 2: (2, 20, 'two', 'y')}
    def responder(sql, args):
        if not sql.lstrip().upper().startswith('SELECT') or _CATALOG_RE.search(sql): return None
        try:
            toks = shimlib.lex(shimlib.driver_view(style, sql, args), dialect, style)
            res = [v for _, v in shimlib.resolve(toks, style, args)] if args is not None else []
        except Exception: return None
        idents = []
        for t in toks[1:]:
            if t[0] == 'word' and t[2] == 'FROM': break
            if t[0] == 'ident': idents.append(t[2])
        sel = idents[1::2] if len(idents) % 2 == 0 and len(set(idents[0::2])) == 1 else idents
        if sel != cols: return None
        if res == [20]: return [data[2]]
        if len(res) == 1 and res[0] in data: return [data[res[0]]]
        return None
    return responder


# =================================================================================================
def run(ctx):
    from pony.orm import core
    from vlib import shimlib
    quick = ctx.tier == 'quick'
    rng = ctx.subrng('values', ctx.shard)
    extra = rand_strings(rng, 120 if quick else 300)
    values = list(dict.fromkeys(ADV + extra))
    data = list(dict.fromkeys(ADV + extra[:10]))
    ctx.extra['value_domain'] = {'fixed_hostile_strings': len(ADV), 'random_strings': len(extra), 'identifiers': len(WEIRD)}
    p1_run(ctx, shimlib, core, 40 if quick else 150)
    p2_run(ctx, values, quick)
    p3a_run(ctx, shimlib, values)
    p3b_run(ctx, shimlib, values, data)
    names = list(WEIRD)
    if not quick:
        names += [''.join(rng.choice(['"', '`', "'", '.', ' ', 'a', 'B', ';', '-', '\\', ':', '?']) for _ in range(rng.randint(2, 6))) + 'z'
                  for _ in range(12)]
        names = list(dict.fromkeys(names))
    p4_run(ctx, shimlib, names, quick)
    per = 1.0 / max(1, ctx.nshards)
    ctx.floor('P1.placeholders_bound', int(1500 * per) if ctx.nshards == 1 else 60)
    ctx.floor('P1.ok', int(400 * per) if ctx.nshards == 1 else 20)
    ctx.floor('P1.optimistic_bindings', 3)
    ctx.floor('P2.agree_nonempty', 150)
    ctx.floor('P3a.ok', 300)
    ctx.floor('P3b.agree_nonempty', 300)
    ctx.floor('P4.quote_name_ok', 100)
    ctx.floor('P4.sqlite_ok', 3 if ctx.nshards > 1 else 8)

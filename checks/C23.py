META = {
    'level': 'exploration',
    'engine': 'E2+E3',
    'technique': 'strategy differential: the same generated history replayed under several loading strategies, observation traces and committed rows compared',
    'level_text': 'Each generated session history (fixed operation list) is executed on the real code under the default loading strategy and again with (a) every non-key attribute declared lazy, (b) prefetch() of every relationship on every entity query, (c) nplus1_threshold forced to 0 (batch loading always) and (d) to None (never), (e) every handle fully loaded before use (no pk-only seeds), (f) every row and collection loaded at the start of each session (prefetch of all relationships). In addition, for fixed relationship diagrams with a small committed population, EVERY sequence of 2 operations, and a deterministic sample of sequences of 3 (and, thorough, 4), over an alphabet of relationship modifications and reads from both sides, plain-attribute writes/reads and whole-entity queries is executed in lock step on one engine per strategy over identical populations. The ordered trace of values returned by reads, the outcome of every operation and the raw committed rows must be identical; the numbers of SQL statements are reported and must differ, otherwise the run is inconclusive. Held on the generated histories only.',
    'level_note': 'Trusted: SQLite as the only backend; traces are canonicalised by object handle (the operation list is fixed, so handles are comparable across strategies). A history whose default run already violates another monitor (known seed finding) is excluded from the comparison and counted.',
    'rule': 'one case = one generated history x one alternative strategy; distinct = distinct (diagram, operation list, strategy); non-trivial = the history contains at least 3 judged reads and the alternative strategy issued a different number of SELECT statements than the default one',
    'assumptions': ['SQLite only', 'single-threaded sessions', 'strategies: lazy attributes, prefetch, nplus1_threshold 0/None, fully loaded handles, everything preloaded per session'],
    'design_ref': 'DESIGN.md 2.2, 3 C23',
}
SHARDS = {'quick': 4, 'thorough': 16}
SHARD_TIMEOUT = {'quick': 300, 'thorough': 1500}
N = {'quick': 60, 'thorough': 220}
OPS = {'quick': 30, 'thorough': 50}
STRATEGIES = ['lazy', 'lazy_scalars', 'prefetch', 'nplus1_0', 'nplus1_none', 'loaded', 'eager']
WEIGHTS = {'create': 5, 'set': 8, 'setmany': 2, 'add': 6, 'remove': 4, 'assign': 2, 'clear': 1, 'delete': 3,
           'flush': 4, 'commit': 3, 'rollback': 1, 'end': 5, 'abort': 1,
           'read': 14, 'coll': 14, 'bypk': 6, 'bykey': 5, 'selectall': 5, 'selectcmp': 4, 'count': 2, 'todict': 4}


SEED_VIA_REFS = [True]      # how handles are obtained: True = every fifth through a referring object's to-one attribute


def configure(eng, strategy, seed_via_refs):
    from pony.orm import core
    eng.strategy = strategy
    eng.seed_via_refs = seed_via_refs
    if strategy in ('nplus1_0', 'nplus1_none'):
        for cls in eng.cls.values():
            for a in cls._attrs_:
                if isinstance(a, core.Set): a.nplus1_threshold = 0 if strategy == 'nplus1_0' else None


def make_engine(spec, workdir, strategy, counts, prefix='s_', force_load=None):
    from vlib import hist
    lazy = {'lazy': True, 'lazy_scalars': 'scalars'}.get(strategy, False)
    if force_load is None: force_load = (strategy == 'loaded')
    eng = hist.Engine(spec, workdir, name=prefix + strategy, count=counts, lazy_all=lazy, force_load=force_load)
    svr = SEED_VIA_REFS[0]
    configure(eng, strategy, svr)
    # what a classification replay needs to rebuild this engine
    eng.replay_kw = {'lazy_all': lazy, 'post': lambda e: configure(e, strategy, svr)}
    return eng


def selects(eng):
    return sum(1 for e in eng.rec.events if e['phase'] == 'call' and e['kind'] == 'execute'
               and (e['sql'] or '').lstrip().upper().startswith('SELECT'))


def run_one(spec, ops, workdir, strategy, counts, force_load=None):
    from vlib import hops
    eng = make_engine(spec, workdir, strategy, counts, force_load=force_load)
    outs = []
    try:
        outs = hops.run_history(eng, ops)
    finally:
        eng.close()
    rows = None
    try: rows = eng.raw_rows()[:2]
    except Exception: pass
    return eng, outs, rows


def compare(base, other):
    from vlib import htrace
    (e0, o0, r0), (e1, o1, r1) = base, other
    if htrace.auto_entities(e0.spec):
        # database-assigned key VALUES depend on the order of the INSERTs, i.e. on when each run happened to flush, and
        # they show up in every observation (to_dict, keys of related objects, lookups).  For such diagrams the runs are
        # not compared value by value: each run is judged by its own model-based monitors, and a run that a monitor
        # stops under one strategy but not under the default one is the difference
        k0 = sorted({(r.monitor, r.kind) for r in e0.reports}); k1 = sorted({(r.monitor, r.kind) for r in e1.reports})
        if k0 != k1: return {'kind': 'monitor_reports_differ', 'default': k0, 'alternative': k1}
        return None
    d = htrace.difference(e0.spec, o0, e0.trace, o1, e1.trace)
    if d: return d
    # database-assigned key values depend on the order of the INSERTs (on when each run flushed): rows of such diagrams
    # are judged by each run's own commit observer, not compared across runs
    if r0 != r1 and not htrace.auto_entities(e0.spec) and htrace.comparable_to_end(o0, o1):
        return {'kind': 'committed_rows_differ'}
    return None


def run(ctx):
    import random
    from vlib import hschema, hist, hops, hcheck
    from vlib.common import fp
    workdir = ctx.tmp()
    n = N[ctx.tier]
    start = ctx.shard * n
    differing = 0; compared = 0
    for i in range(start, start + n):
        rng = random.Random('%s/%d/%d' % (ctx.pid, ctx.seed, i))
        spec = hcheck.specs_for(ctx, i, rng, {'random_spec_share': 0.5})
        counts = {}
        # generate online under the default strategy
        eng = make_engine(spec, workdir, 'default', counts)
        try:
            ops = hops.random_history(eng, rng, OPS[ctx.tier], weights=WEIGHTS, invalid_rate=0.0, seed_objects=8, avoid_conflicts=True)
        except Exception as e:
            ctx.count('harness_error.' + type(e).__name__); eng.close(); continue
        finally:
            eng.close()
        if eng.reports or eng.diverged:
            ctx.count('histories_excluded_default_run_not_clean'); continue
        counts0 = {}
        base = run_one(spec, ops, workdir, 'default', counts0)
        if base[0].reports or base[0].diverged or base[0].trace != eng.trace:
            ctx.count('histories_excluded_default_replay_differs'); continue
        if any(o.startswith('raised') or o == 'diverged' for o in base[1]):
            # conflict timing is free and loud errors are not judged: only histories whose every operation
            # succeeds under the default strategy are compared
            ctx.count('histories_excluded_default_run_has_errors'); continue
        reads = len(base[0].trace)
        s0 = selects(base[0])
        for k, v in counts0.items():
            if k.startswith(('read.', 'op.', 'outcome.')): ctx.count(k, v)
        for strat in STRATEGIES:
            c1 = {}
            try:
                other = run_one(spec, ops, workdir, strat, c1)
            except Exception as e:
                ctx.count('harness_error.%s.%s' % (strat, type(e).__name__)); continue
            s1 = selects(other[0])
            compared += 1
            ctx.count('compared.' + strat)
            if s1 != s0: differing += 1; ctx.count('select_count_differs.' + strat)
            ctx.count('selects.default', s0); ctx.count('selects.' + strat, s1)
            ctx.count('observations_compared', reads)
            ctx.case(fp([spec['name'], ops, strat]), nontrivial=(reads >= 3 and s1 != s0),
                     sample={'spec': spec['name'], 'strategy': strat, 'n_ops': len(ops), 'reads': reads,
                             'selects_default': s0, 'selects_alternative': s1, 'ops': ops[:8]} if compared <= 3 else None)
            d = compare(base, other)
            if d is None: continue
            fid, why = classify_difference(ctx, spec, ops, strat, workdir, base, other)
            w = {'spec': spec, 'ops': ops, 'strategy': strat, 'difference': d,
                 'alt_reports': [r.as_dict() for r in other[0].reports[:2]], 'alt_errors': other[0].errlog[-3:]}
            if fid: w['classified_by'] = why; ctx.finding(fid, w)
            else: ctx.violation(w, mechanism='strategy.%s.%s' % (strat, d['kind']))
    small_scope_diff(ctx)
    ctx.extra['strategies'] = STRATEGIES
    ctx.inconclusive_if(compared and differing * 2 < compared,
                        'query counts differed in only %d of %d comparisons: strategies not exercised' % (differing, compared))
    ctx.floor('observations_compared', 2000)


SMALL = {'templates': ['m2m', 'o2m_opt', 'o2o_opt', 'rich', 'self', 'inherit'],
         'budget': {'quick': 2400, 'thorough': 16000},
         'plan': {'quick': [(2, True), (3, False)], 'thorough': [(2, True), (3, False), (4, False)]}}


def classify_difference(ctx, spec, ops, strat, workdir, base, other):
    """known mechanism behind a difference between the default run and an alternative strategy, or (None, None).
    Targeted deviation replay: the same history under both strategies, with exactly those objects loaded whose
    not-loaded many-to-one reference is about to be reassigned / that are about to be deleted while not loaded,
    right before exactly those operations.  Only if such loads really happened and the two runs then agree is the
    difference the known 'reverse side of an unloaded reference is not maintained' mechanism."""
    c0, c1 = {}, {}
    b = run_one(spec, ops, workdir, 'default', c0, force_load='targeted')
    o = run_one(spec, ops, workdir, strat, c1, force_load=True if strat == 'loaded' else 'targeted')
    ctx.count('deviation_replays.targeted')
    if (c0.get('targeted_loads', 0) + c1.get('targeted_loads', 0)) and compare(b, o) is None:
        return 'C23-UNLOADED-SEED-REVERSE-NOT-MAINTAINED', 'targeted deviation replay agrees (%d targeted loads)' % (c0.get('targeted_loads', 0) + c1.get('targeted_loads', 0))
    from vlib import hfindings
    for run, which in ((other, 'alternative'), (base, 'default')):
        if run[0].reports:
            fid = hfindings.classify(ctx.pid, run[0].reports[0], run[0], ops)
            if fid: return fid, 'monitor report of the %s run' % which
    return None, None


def small_scope_diff(ctx):
    """every operation sequence up to the planned length over a relationship-focused alphabet (relationship
    modifications and reads from both sides plus plain-attribute writes/reads), executed in lock step on one engine
    per loading strategy over identical populations; outcomes, observation traces and committed rows compared"""
    import random, itertools
    from vlib import hschema, hsmall, hops, hist, htrace
    from vlib.common import fp
    workdir = ctx.tmp()
    plan = SMALL['plan'][ctx.tier]
    strategies = ['default'] + STRATEGIES
    templates = [t for t in hschema.fixed_templates() if t['name'] in SMALL['templates']]
    jobs = []
    for t in templates:
        eng = hist.Engine(t, workdir, name='ssd_probe_' + t['name'])
        try:
            hsmall.populate(eng, random.Random('ssd/%s/%d' % (t['name'], ctx.seed)))
            fs = [f for f in hsmall.focuses(eng) if f[0] == 'rel']
        finally:
            eng.close()
        for f in fs: jobs.append((t, f))
    per_job = max(40, SMALL['budget'][ctx.tier] // max(1, len(jobs)))
    total = 0; reported = set()
    for ji, (t, f) in enumerate(jobs):
        if ji % ctx.nshards != ctx.shard: continue
        engs = {}
        SEED_VIA_REFS[0] = 'always'     # small scope: every object is first seen as an unloaded reference when possible
        try:
            pops = {}
            for st in strategies:
                engs[st] = make_engine(t, workdir, st, {}, prefix='ssd_%s_%d_' % (t['name'], ji))
                pops[st] = hsmall.populate(engs[st], random.Random('ssd/%s/%d' % (t['name'], ctx.seed)))
            alph = {st: hsmall.rel_alphabet(engs[st], f[1], f[2], scalars=True) for st in strategies}
            if any(pops[st] != pops['default'] or alph[st] != alph['default'] for st in strategies):
                # populations must be identical for the comparison to mean anything
                ctx.count('smallscope.population_differs_between_strategies'); continue
            alphabet = alph['default']
            if len(alphabet) < 3: continue
            base_rows = {st: hsmall.dump_sql(engs[st].file) for st in strategies}
            base_model = {st: engs[st].committed.copy() for st in strategies}
            if any(hsmall.norm_rows(base_rows[st]) != hsmall.norm_rows(base_rows['default']) for st in strategies):
                ctx.count('smallscope.population_rows_differ_between_strategies'); continue
            ctx.count('smallscope.focuses'); ctx.count('smallscope.alphabet_size', len(alphabet))
            def sequences():
                for L, want_all in plan:
                    if want_all or len(alphabet) ** L <= per_job:
                        ctx.count('smallscope.exhaustive_length_%d' % L)
                        for seq in itertools.product(range(len(alphabet)), repeat=L): yield seq
                    else:
                        ctx.count('smallscope.sampled_length_%d' % L)
                        r2 = random.Random('ssd-sample/%s/%s/%d/%d' % (t['name'], f, ctx.seed, L))
                        for _ in range(per_job): yield tuple(r2.randrange(len(alphabet)) for _ in range(L))
            def variants():
                for seq in sequences():
                    ops = [alphabet[i] for i in seq] + [{'op': 'commit'}, {'op': 'end'}]
                    yield seq, ops
                    # a second variant fetches the objects passed as arguments at the start of the session, so that no
                    # lookup (and the flush a lookup performs) happens between a modification and a later operation
                    def argsof(o):
                        return ([o['val']['ref']] if isinstance(o.get('val'), dict) and o['val'].get('ref') else []) + \
                               list(o.get('items') or []) + ([o['item']] if o.get('item') else [])
                    late = sorted({x for j, o in enumerate(ops) for x in argsof(o) if any(p['op'] in hops.MOD_OPS for p in ops[:j])})
                    if late: yield seq + ('pre',), [{'op': 'obtain', 'oids': late, 'via': 0}] + ops
            for seq, ops in variants():
                res = {}
                for st in strategies:
                    e = engs[st]
                    n0 = len(e.reports); step0 = e.step_no
                    outs = hsmall.run_sequence(e, ops)
                    sel = selects(e)
                    res[st] = (outs, list(e.trace), e.reports[n0:], bool(e.diverged), sel, step0)
                rows = {}
                def rows_of(st):
                    if st not in rows: rows[st] = hsmall.norm_rows(hsmall.dump_sql(engs[st].file))
                    return rows[st]
                total += 1
                b = res['default']
                reads = len(b[1])
                # loud errors are not judged (conflict timing is free); a default run stopped by a monitor report IS
                # compared: if another strategy runs the same sequence without that report, the strategy changed the data
                clean = not any(o.startswith('raised') for o in b[0])
                if not clean: ctx.count('smallscope.default_run_has_errors_not_compared')
                for st in STRATEGIES:
                    o = res[st]
                    ctx.count('smallscope.compared.' + st)
                    ctx.count('observations_compared', reads)
                    if o[4] != b[4]: ctx.count('smallscope.select_count_differs.' + st)
                    ctx.case(fp([t['name'], f, seq, st]), nontrivial=(reads >= 1 and o[4] != b[4]),
                             sample={'template': t['name'], 'focus': list(map(str, f)), 'strategy': st, 'ops': ops} if total <= 2 and st == 'lazy' else None)
                    if not clean: continue      # conflict timing is free and loud errors are not judged
                    d = htrace.difference(t, b[0], b[1], o[0], o[1], step0=b[5])
                    if d is None and not htrace.auto_entities(t) and htrace.comparable_to_end(b[0], o[0]) and rows_of(st) != rows_of('default'):
                        d = {'kind': 'committed_rows_differ'}
                    if d is None: continue
                    key = (t['name'], f, st, d['kind'])
                    if key in reported: continue
                    reported.add(key)
                    full = pops['default'] + ops
                    views = []
                    for st2 in ('default', st):
                        # classification needs the configuration of that run plus its reports of this sequence
                        v = type('EngView', (), {})()
                        v.reports = res[st2][2]; v.counts = engs[st2].counts; v.spec = engs[st2].spec
                        v.stop_on_taint = engs[st2].stop_on_taint; v.replay_kw = engs[st2].replay_kw
                        views.append((v,))
                    fid, why = classify_difference(ctx, t, full, st, workdir, views[0], views[1])
                    w = {'spec': t, 'ops': full, 'sequence': ops, 'strategy': st, 'difference': d, 'mode': 'small-scope',
                         'alt_reports': [r.as_dict() for r in o[2][:2]], 'default_reports': [r.as_dict() for r in b[2][:2]]}
                    if fid: w['classified_by'] = why; ctx.finding(fid, w)
                    else: ctx.violation(w, mechanism='smallscope.strategy.%s.%s' % (st, d['kind']))
                for st in strategies:
                    hsmall.restore_baseline(engs[st], base_rows[st], base_model[st])
        finally:
            SEED_VIA_REFS[0] = True
            for e in engs.values():
                try: e.close()
                except Exception: pass
    ctx.count('smallscope.sequences', total)


def replay(ctx, witness):
    workdir = ctx.tmp()
    base = run_one(witness['spec'], witness['ops'], workdir, 'default', {})
    other = run_one(witness['spec'], witness['ops'], workdir, witness['strategy'], {})
    d = compare(base, other)
    if d: ctx.violation({'difference': d}, mechanism='strategy.%s.%s' % (witness['strategy'], d['kind']))

META = {
    'level': 'exploration',
    'engine': 'E2+E3',
    'technique': 'strategy differential: the same generated history replayed under several loading strategies, observation traces and committed rows compared',
    'level_text': 'Each generated session history (fixed operation list) is executed on the real code under the default loading strategy and again with (a) every non-key attribute declared lazy, (b) prefetch() of every relationship on every entity query, (c) nplus1_threshold forced to 0 (batch loading always) and (d) to None (never), (e) every handle fully loaded before use (no pk-only seeds). The ordered trace of values returned by reads, the outcome of every operation and the raw committed rows must be identical; the numbers of SQL statements are reported and must differ, otherwise the run is inconclusive. Held on the generated histories only.',
    'level_note': 'Trusted: SQLite as the only backend; traces are canonicalised by object handle (the operation list is fixed, so handles are comparable across strategies). A history whose default run already violates another monitor (known seed finding) is excluded from the comparison and counted.',
    'rule': 'one case = one generated history x one alternative strategy; distinct = distinct (diagram, operation list, strategy); non-trivial = the history contains at least 3 judged reads and the alternative strategy issued a different number of SELECT statements than the default one',
    'assumptions': ['SQLite only', 'single-threaded sessions', 'strategies: lazy attributes, prefetch, nplus1_threshold 0/None, fully loaded handles'],
    'design_ref': 'DESIGN.md 2.2, 3 C23',
}
SHARDS = {'quick': 4, 'thorough': 16}
SHARD_TIMEOUT = {'quick': 300, 'thorough': 1500}
N = {'quick': 60, 'thorough': 500}
OPS = {'quick': 30, 'thorough': 50}
STRATEGIES = ['lazy', 'lazy_scalars', 'prefetch', 'nplus1_0', 'nplus1_none', 'loaded']
WEIGHTS = {'create': 5, 'set': 8, 'setmany': 2, 'add': 6, 'remove': 4, 'assign': 2, 'clear': 1, 'delete': 3,
           'flush': 4, 'commit': 3, 'rollback': 1, 'end': 5, 'abort': 1,
           'read': 14, 'coll': 14, 'bypk': 6, 'bykey': 5, 'selectall': 5, 'selectcmp': 4, 'count': 2, 'todict': 4}


def make_engine(spec, workdir, strategy, counts):
    from vlib import hist
    from pony.orm import core
    lazy = {'lazy': True, 'lazy_scalars': 'scalars'}.get(strategy, False)
    eng = hist.Engine(spec, workdir, name='s_' + strategy, count=counts, lazy_all=lazy,
                      force_load=(strategy == 'loaded'))
    eng.strategy = strategy
    if strategy in ('nplus1_0', 'nplus1_none'):
        for cls in eng.cls.values():
            for a in cls._attrs_:
                if isinstance(a, core.Set): a.nplus1_threshold = 0 if strategy == 'nplus1_0' else None
    return eng


def selects(eng):
    return sum(1 for e in eng.rec.events if e['phase'] == 'call' and e['kind'] == 'execute'
               and (e['sql'] or '').lstrip().upper().startswith('SELECT'))


def run_one(spec, ops, workdir, strategy, counts):
    from vlib import hops
    eng = make_engine(spec, workdir, strategy, counts)
    outs = []
    try:
        outs = hops.run_history(eng, ops)
    finally:
        eng.close()
    rows = None
    try: rows = eng.raw_rows()[:2]
    except Exception: pass
    return eng, outs, rows


def compare(base, other):
    (e0, o0, r0), (e1, o1, r1) = base, other
    if o0 != o1:
        for i, (a, b) in enumerate(zip(o0, o1)):
            if a != b: return {'kind': 'outcome_differs', 'step': i, 'default': a, 'alternative': b}
        return {'kind': 'outcome_count_differs', 'default': len(o0), 'alternative': len(o1)}
    if e0.trace != e1.trace:
        for i, (a, b) in enumerate(zip(e0.trace, e1.trace)):
            if a != b: return {'kind': 'observation_differs', 'index': i, 'default': a, 'alternative': b}
        return {'kind': 'trace_length_differs', 'default': len(e0.trace), 'alternative': len(e1.trace)}
    if r0 != r1:
        return {'kind': 'committed_rows_differ'}
    return None


def run(ctx):
    import random
    from vlib import hschema, hist, hops, hcheck
    from vlib.common import fp
    workdir = ctx.tmp()
    n = N[ctx.tier]
    start = ctx.shard * n
    differing = 0; compared = 0
    for i in range(start, start + n):
        rng = random.Random('%s/%d/%d' % (ctx.pid, ctx.seed, i))
        spec = hcheck.specs_for(ctx, i, rng, {'random_spec_share': 0.5})
        counts = {}
        # generate online under the default strategy
        eng = make_engine(spec, workdir, 'default', counts)
        try:
            ops = hops.random_history(eng, rng, OPS[ctx.tier], weights=WEIGHTS, invalid_rate=0.0, seed_objects=8, avoid_conflicts=True)
        except Exception as e:
            ctx.count('harness_error.' + type(e).__name__); eng.close(); continue
        finally:
            eng.close()
        if eng.reports or eng.diverged:
            ctx.count('histories_excluded_default_run_not_clean'); continue
        counts0 = {}
        base = run_one(spec, ops, workdir, 'default', counts0)
        if base[0].reports or base[0].diverged or base[0].trace != eng.trace:
            ctx.count('histories_excluded_default_replay_differs'); continue
        if any(o.startswith('raised') or o == 'diverged' for o in base[1]):
            # conflict timing is free and loud errors are not judged: only histories whose every operation
            # succeeds under the default strategy are compared
            ctx.count('histories_excluded_default_run_has_errors'); continue
        reads = len(base[0].trace)
        s0 = selects(base[0])
        for k, v in counts0.items():
            if k.startswith(('read.', 'op.', 'outcome.')): ctx.count(k, v)
        for strat in STRATEGIES:
            c1 = {}
            try:
                other = run_one(spec, ops, workdir, strat, c1)
            except Exception as e:
                ctx.count('harness_error.%s.%s' % (strat, type(e).__name__)); continue
            s1 = selects(other[0])
            compared += 1
            ctx.count('compared.' + strat)
            if s1 != s0: differing += 1; ctx.count('select_count_differs.' + strat)
            ctx.count('selects.default', s0); ctx.count('selects.' + strat, s1)
            ctx.count('observations_compared', reads)
            ctx.case(fp([spec['name'], ops, strat]), nontrivial=(reads >= 3 and s1 != s0),
                     sample={'spec': spec['name'], 'strategy': strat, 'n_ops': len(ops), 'reads': reads,
                             'selects_default': s0, 'selects_alternative': s1, 'ops': ops[:8]} if compared <= 3 else None)
            d = compare(base, other)
            if d is None: continue
            # a difference that the alternative run's own monitors explain by the known unloaded-seed finding
            known = False
            if strat == 'lazy':
                # deviation replay: lazy declared on scalar attributes only.  If the difference disappears, it is the
                # known 'reference not loaded when modified -> reverse side not maintained' mechanism, which a lazy
                # relationship attribute triggers on every object
                alt2 = run_one(spec, ops, workdir, 'lazy_scalars', {})
                ctx.count('deviation_replays.lazy_scalars')
                if compare(base, alt2) is None:
                    ctx.finding('C23-UNLOADED-SEED-REVERSE-NOT-MAINTAINED',
                                {'spec': spec, 'ops': ops, 'strategy': strat, 'difference': d, 'deviation': 'lazy on scalars only agrees'})
                    known = True
            if not known and other[0].reports:
                from vlib import hfindings
                fid = hfindings.classify(ctx.pid, other[0].reports[0], other[0], ops)
                if fid:
                    ctx.finding(fid, {'spec': spec, 'ops': ops, 'strategy': strat, 'difference': d})
                    known = True
            if not known:
                ctx.violation({'spec': spec, 'ops': ops, 'strategy': strat, 'difference': d,
                               'alt_reports': [r.as_dict() for r in other[0].reports[:2]], 'alt_errors': other[0].errlog[-3:]},
                              mechanism='strategy.%s.%s' % (strat, d['kind']))
    ctx.extra['strategies'] = STRATEGIES
    ctx.inconclusive_if(compared and differing * 2 < compared,
                        'query counts differed in only %d of %d comparisons: strategies not exercised' % (differing, compared))
    ctx.floor('observations_compared', 2000)


def replay(ctx, witness):
    workdir = ctx.tmp()
    base = run_one(witness['spec'], witness['ops'], workdir, 'default', {})
    other = run_one(witness['spec'], witness['ops'], workdir, witness['strategy'], {})
    d = compare(base, other)
    if d: ctx.violation({'difference': d}, mechanism='strategy.%s.%s' % (witness['strategy'], d['kind']))

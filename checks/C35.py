"""C35 — locked rows and serializable sessions cannot be overwritten concurrently (SQLite).

Harness: vlib/sched.py + vlib/schedprog.py + DB-API recorder.  A LOCKER session A -- R.get_for_update(id=..)
(plain / nowait / skip_locked), select(..).for_update() (plain / nowait), or db_session(serializable=True) -- runs
against 1-2 WRITER sessions (optimistic, optimistic=False, immediate, or lockers themselves) on the same rows,
under every operation-level interleaving (exhaustive per program set) and sampled statement-level schedules.

Sessions may consist of several transactions (commit() / rollback() in the middle): a lock lasts until its
TRANSACTION ends; every transaction that committed is a unit of the serial-equivalence oracle.  Locks are taken
through every API path (get_for_update by pk / secondary unique key / composite key, query.for_update(), with
nowait / skip_locked) on objects that are not / are already cached by a plain read.

Oracles
  0 DB-API boundary: when a locking call returns an object, the recorder log shows an open transaction (a BEGIN that
    returned and no COMMIT/ROLLBACK since) of that session -- on SQLite there is no lock outside a transaction.
  1 protected rows unchanged: for every row A locked (the locking call returned the object) resp. every row a
    serializable A read, the COMMITTED content of that row, observed through an independent raw connection right
    after the call returned and again inside A's session just before it ends, is identical (A's own changes are
    uncommitted at that point and invisible to the observer).
  2 log check: no other session's UPDATE/DELETE on such a row returns successfully AND is committed between those two
    points (recorder log; gives the mechanism when 1 fires).
  3 writers wait or fail: a writer whose write overlapped the protected interval either was blocked in
    SQLiteProvider.acquire_lock (scheduler state) or raised -- a corollary of 1+2, counted as evidence.
  4 no committed write lost: the raw final state equals a serial application of exactly the committed sessions.
"""
import itertools

META = {
    'level': 'exploration',
    'engine': 'E4+E3',
    'technique': 'deterministic scheduler over locker/writer session programs; committed-state snapshots of protected '
                 'rows at lock point and session end + recorder-log check + serial equivalence of the final state',
    'level_text': 'Every operation-level interleaving of each locker/writer program set (all locking variants x writer '
                  'kinds) is executed on the real code, plus sampled statement-level schedules; protected rows are '
                  'observed from outside pony. The program-set family (35 locker variants x 18 writer kinds) is covered '
                  'completely at operation level by the thorough tier and sampled by the quick tier.',
    'level_note': 'On SQLite the row lock is a BEGIN IMMEDIATE transaction plus a process-wide lock; SQLite\'s own file '
                  'lock backs both up, so a broken process lock shows as loud "database is locked" (allowed: writers wait '
                  'or fail). The monitors therefore mainly decide whether the immediate transaction is opened in time.',
    'rule': 'program family: 35 basic locker variants x 18 writer kinds, plus 43 wider locker variants x 8 writer kinds: '
            'every lock API path (get_for_update by pk / secondary unique key / composite key, with nowait / skip_locked; '
            'select().for_update() incl. nowait / skip_locked; Entity.select(kw).for_update()) on objects that are not / are '
            'already in the identity map (cached by Entity[pk], get(unique), get(composite), a query); sessions of several '
            'transactions (commit() / rollback() in the middle, re-lock afterwards); serializable / optimistic=False / '
            'immediate=True sessions across the commit boundary. '
            'case = (locker program incl. locking variant, writer programs incl. session kind, schedule); distinct by '
            'program text + executed trace; non-trivial = a writer attempted a write statement or a lock wait while the '
            'locker\'s protected interval was open, or the schedule is not serial.',
    'assumptions': ['SQLite only: PostgreSQL row locks (FOR UPDATE [NOWAIT|SKIP LOCKED]) and SERIALIZABLE isolation are '
                    'not executed; nowait/skip_locked are accepted by pony on SQLite and behave like plain for_update',
                    'the protected interval starts when the locking call (resp. the first read of a serializable session) '
                    'returns and ends when that TRANSACTION ends (commit()/rollback() in the middle of the session, or the '
                    'session end): a lock cannot outlive its transaction',
                    'a serializable session protects a row it reads in a transaction only if it actually reads it from the '
                    'database there; a cached object re-used after commit() is the separate finding '
                    'C35-NONOPTIMISTIC-SESSION-REUSES-STALE-CACHE-AFTER-COMMIT',
                    'on SQLite a lock exists only inside an open transaction: a locking call that returns an object while the '
                    'recorder log shows no open transaction of that session is a violation by itself',
                    'observed: db_session(serializable=True) on SQLite is immediate and non-optimistic, i.e. BEGIN IMMEDIATE '
                    'before its first statement plus the process-wide lock (counter begin_immediate); no lost update was '
                    'observable, so nothing is proposed as a finding'],
    'shims': [],
    'exhaustive_tiers': [],
}
SHARDS = {'quick': 1, 'thorough': 16}
SHARD_TIMEOUT = {'quick': 300, 'thorough': 1500}

EXPECTED_ERRORS = ('OptimisticCheckError', 'UnrepeatableReadError', 'OperationalError', 'CommitException',
                   'TransactionIntegrityError', 'UnexpectedError', 'RollbackException', 'ObjectNotFound')
HOWS = ('get_for_update', 'nowait', 'skip_locked', 'query_for_update', 'query_nowait')
F_STALE = 'C35-NONOPTIMISTIC-SESSION-REUSES-STALE-CACHE-AFTER-COMMIT'


def S(name, ops, **opts):
    return {'name': name, 'ops': list(ops), 'opts': opts}


def lockers():
    out = []
    for how in HOWS:
        out.append(S('A', [('lock', 1, how), ('inc', 1, 'x')]))
        out.append(S('A', [('lock', 1, how), ('read', 1, 'x'), ('write', 1, 'y', 1001)]))
        out.append(S('A', [('read', 1, 'x'), ('lock', 1, how), ('copy', 1, 'y', 1, 'x')]))
        out.append(S('A', [('lock', 1, how), ('lock', 2, HOWS[(HOWS.index(how) + 1) % 5]), ('copy', 2, 'x', 1, 'x')]))
        out.append(S('A', [('lock', 1, how), ('read', 1, 'x'), ('read', 1, 'y')]))                       # read-only locker
        out.append(S('A', [('lock', 1, how), ('write', 1, 'x', 1001), ('flush',), ('inc', 1, 'y')]))
    out.append(S('A', [('read', 1, 'x'), ('write', 1, 'y', 1001)], serializable=True))
    out.append(S('A', [('inc', 1, 'x')], serializable=True))
    out.append(S('A', [('read', 1, 'x'), ('read', 2, 'x'), ('copy', 1, 'z', 2, 'x')], serializable=True))
    out.append(S('A', [('copy', 1, 'y', 1, 'x'), ('flush',), ('read', 2, 'y')], serializable=True))
    out.append(S('A', [('read', 1, 'x'), ('read', 1, 'y'), ('read', 2, 'x')], serializable=True))      # read-only
    return out


def writers():
    out = []
    for opts in ({}, {'optimistic': False}, {'immediate': True}):
        out.append(S('B', [('inc', 1, 'x')], **opts))
        out.append(S('B', [('write', 1, 'x', 2001), ('write', 1, 'y', 2002)], **opts))
        out.append(S('B', [('read', 1, 'x'), ('write', 1, 'y', 2001)], **opts))
        out.append(S('B', [('copy', 1, 'x', 1, 'y')], **opts))
        out.append(S('B', [('read', 1, 'x'), ('inc', 2, 'x')], **opts))
    out.append(S('B', [('lock', 1, 'get_for_update'), ('inc', 1, 'x')]))
    out.append(S('B', [('lock', 1, 'query_nowait'), ('write', 1, 'y', 2001)]))
    out.append(S('B', [('inc', 1, 'x')], serializable=True))
    return out


def lockers2():
    """Wider locker family: every API path to a lock, on objects that are / are not already in the identity map,
    and sessions made of several transactions (commit() / rollback() in the middle)."""
    out = []
    cat = ['path']
    def A(ops, **kw):
        d = S('A', ops, **kw); d['cat'] = cat[0]; out.append(d)
    # --- lock acquisition paths, object not cached / cached by different plain reads
    for how in ('by_code', 'by_ckey', 'by_code_nowait', 'by_ckey_skip', 'query_skip', 'select_kw'):
        A([('lock', 1, how), ('inc', 1, 'x')])
    for pre, how in (('pk', 'get_for_update'), ('pk', 'by_code'), ('code', 'by_code'), ('query', 'by_ckey'), ('query', 'get_for_update'),
                     ('ckey', 'by_ckey_skip'), ('get_id', 'by_code_nowait'), ('pk', 'query_for_update'), ('code', 'select_kw'),
                     ('query', 'query_skip'), ('pk', 'by_ckey')):
        A([('preload', 1, pre), ('lock', 1, how), ('inc', 1, 'x')])
    A([('read', 1, 'y'), ('lock', 1, 'by_code'), ('copy', 1, 'z', 1, 'x')])
    A([('preload', 2, 'pk'), ('preload', 1, 'query'), ('lock', 1, 'by_ckey'), ('read', 1, 'x'), ('write', 1, 'y', 1001)])
    A([('lock', 1, 'query_for_update'), ('read', 1, 'x'), ('preload', 1, 'pk'), ('inc', 1, 'x')])     # Entity[pk] after a for_update query
    # --- several transactions in one session: the lock lasts until the transaction ends
    cat[0] = 'multi'
    for how in ('get_for_update', 'query_for_update', 'by_code', 'nowait'):
        A([('lock', 1, how), ('inc', 1, 'x'), ('commit',), ('inc', 1, 'x')])
    A([('lock', 1, 'get_for_update'), ('write', 1, 'y', 1001), ('commit',), ('read', 1, 'x'), ('write', 1, 'z', 1002)])
    A([('lock', 1, 'by_ckey'), ('inc', 1, 'x'), ('commit',), ('lock', 1, 'get_for_update'), ('inc', 1, 'x')])
    A([('lock', 1, 'query_for_update'), ('inc', 1, 'x'), ('rollback',), ('lock', 1, 'by_code'), ('inc', 1, 'x')])
    A([('lock', 2, 'get_for_update'), ('inc', 2, 'x'), ('commit',), ('lock', 1, 'query_skip'), ('copy', 1, 'y', 1, 'x')])
    A([('lock', 1, 'get_for_update'), ('read', 1, 'x'), ('rollback',), ('inc', 1, 'x')])
    A([('read', 1, 'x'), ('commit',), ('lock', 1, 'by_code'), ('inc', 1, 'x')])
    # --- session modes across the commit boundary (second unit works on a row the session had not loaded before)
    cat[0] = 'modes'
    for opts in ({'serializable': True}, {'optimistic': False}, {'immediate': True}):
        A([('inc', 2, 'x'), ('commit',), ('inc', 1, 'x')], **opts)
        A([('read', 2, 'x'), ('commit',), ('read', 1, 'x'), ('write', 1, 'y', 1001)], **opts)
        A([('write', 2, 'y', 1001), ('rollback',), ('copy', 1, 'y', 1, 'x')], **opts)
    A([('inc', 2, 'x'), ('flush',), ('inc', 1, 'x')], serializable=True)
    # --- the same row on both sides of the commit (cached object re-used by the next transaction)
    cat[0] = 'stale'
    A([('inc', 1, 'x'), ('commit',), ('inc', 1, 'x')], serializable=True)
    A([('inc', 1, 'x'), ('commit',), ('inc', 1, 'x')], optimistic=False)
    A([('read', 1, 'x'), ('commit',), ('copy', 1, 'y', 1, 'x')], serializable=True)
    return out


def core_writers():
    """Writer kinds paired with the wider locker family (most of them write the attribute the locker computes from)."""
    return [S('B', [('inc', 1, 'x')]), S('B', [('inc', 1, 'x')], optimistic=False), S('B', [('inc', 1, 'x')], immediate=True),
            S('B', [('write', 1, 'x', 2001), ('write', 1, 'y', 2002)]), S('B', [('copy', 1, 'x', 1, 'y')]),
            S('B', [('lock', 1, 'by_code'), ('inc', 1, 'x')]), S('B', [('read', 1, 'x'), ('write', 1, 'y', 2001)], optimistic=False),
            S('B', [('inc', 1, 'x'), ('commit',), ('inc', 2, 'x')])]


def third_writers():
    return [S('C', [('inc', 1, 'x')]), S('C', [('write', 1, 'y', 3001)], optimistic=False), S('C', [('inc', 2, 'x')])]


def all_sets():
    return [[a, b] for a in lockers() for b in writers()] + [[a, b] for a in lockers2() for b in core_writers()]


def protected_rows(run):
    """[(unit, row, mark seq, committed row at mark, kind)]: rows the session locked in that unit (the locking call
    returned the object) and, for a serializable session, rows it read in that unit and had not loaded in an earlier
    unit (a cached object re-used after commit() is not read from the database again)."""
    out = []
    for (u, r), (seq, row) in run.lock_marks.items(): out.append((u, r, seq, row, 'for_update'))
    if run.sess['opts'].get('serializable'):
        for (u, r), (seq, row) in run.read_marks.items():
            if (u, r) in run.lock_marks: continue
            if run.first_touch.get(r) != u: continue
            out.append((u, r, seq, row, 'serializable'))
    return out


def reuses_cached_rows_without_checks(sp, sess):
    """A session that performs no optimistic checks (serializable / optimistic=False) names the same row in two
    different units: after commit() the cached object is re-used without being read again."""
    if not (sess['opts'].get('serializable') or sess['opts'].get('optimistic') is False): return False
    units = sp.rows_by_unit(sess)
    return any(units[i] & units[j] for i in range(len(units)) for j in range(i + 1, len(units)))


def judge(ctx, sp, sessions, res, desc):
    names = [s['name'] for s in sessions]
    wit0 = dict(desc, sessions=sessions, choices=''.join(res.sched.choices))
    if res.status != 'ok' or res.final is None:
        ctx.count('schedule.' + res.status)
        # neither a deadlock (all workers blocked) nor a watchdog is a verdict about this property
        ctx.inconclusive_if(True, '%s in schedule %r: %r' % (res.status, desc, res.sched.status_detail))
        return False
    outcomes = {}
    for n in names:
        r = res.runs[n]
        if r.outcome == 'committed': outcomes[n] = 'committed'; ctx.count('session.committed')
        elif r.outcome == 'raised':
            outcomes[n] = r.exc[0]; ctx.count('session.raised.' + r.exc[0])
            if r.exc[0] not in EXPECTED_ERRORS:
                ctx.count('outcome.unexpected_error')
                ctx.extra.setdefault('unexpected_errors', [])
                if len(ctx.extra['unexpected_errors']) < 10: ctx.extra['unexpected_errors'].append([n, r.exc, sessions])
        else:
            ctx.inconclusive_if(True, 'harness: session %s ended with %r %r' % (n, r.outcome, r.exc)); return False
    wit0['outcomes'] = outcomes
    overlap = False

    for n in names:
        L = res.runs[n]
        # ---- oracle 0 (DB-API boundary): a transaction of the session is open when a locking call returns an object
        for lr in L.lock_results:
            if len(lr) > 4 and lr[3] == 'obj':
                ctx.count('lock_calls.returned_object'); ctx.count('lock_calls.' + lr[2])
                if not lr[4]:
                    ctx.violation(dict(wit0, locker=n, step=lr[0], row=lr[1], how=lr[2]), 'locking-call-returned-without-open-transaction')
        for (u, r, seq, row0, kind) in protected_rows(L):
            end = L.unit_ends.get(u) or L.pre_exit
            if end is None or 'error' in end[1]:
                ctx.count('protected.no_end_snapshot'); continue
            end_seq, end_state = end
            ctx.count('protected.rows_checked'); ctx.count('protected.%s' % kind)
            if u: ctx.count('protected.in_later_transaction')
            row1 = end_state['R'].get(r)
            # ---- oracle 2: foreign writes / commits inside the interval (mechanism) -------------------------------
            foreign = []
            for e in res.events:
                if not (seq < e['seq'] <= end_seq) or e['tag'] in (n, None): continue
                if e['kind'] == 'execute' and e['sql']:
                    verb = e['sql'].lstrip()[:6].upper()
                    if verb in ('UPDATE', 'DELETE', 'INSERT', 'BEGIN '): overlap = True
                    if e['phase'] == 'ret' and verb in ('UPDATE', 'DELETE'): foreign.append([e['tag'], e['seq'], e['sql'][:80]])
            commits = [[e['tag'], e['seq']] for e in res.events if seq < e['seq'] <= end_seq and e['kind'] == 'commit'
                       and e['phase'] == 'ret' and e['tag'] not in (n, None)]
            # ---- oracle 1: committed content of the protected row unchanged until the transaction ends ----------
            if row0 != row1:
                ctx.violation(dict(wit0, locker=n, unit=u, row=r, kind=kind, at_lock=row0, before_end=row1, interval=[seq, end_seq],
                                   foreign_writes=foreign, foreign_commits=commits), 'protected-row-changed-before-transaction-end')
            elif foreign and commits and any(outcomes.get(t) == 'committed' for t, _ in commits):
                hit = []
                for e in res.events:
                    if seq < e['seq'] <= end_seq and e['kind'] == 'execute' and e['phase'] == 'call' and e['tag'] not in (n, None):
                        pu = sp.parse_update(e['sql'].lstrip(), e['args']) if e['sql'] else None
                        if pu and pu[0] == 'R' and pu[2] == r and any(t == e['tag'] for t, _ in commits): hit.append([e['tag'], e['seq']])
                if hit:
                    ctx.violation(dict(wit0, locker=n, unit=u, row=r, kind=kind, foreign=hit, commits=commits), 'foreign-write-committed-on-protected-row')
    # ---- oracle 3 (evidence): writers that met the lock waited or failed ---------------------------------------
    for w in res.sched.workers:
        if w.lock_waits: ctx.count('writer.waited_in_acquire_lock', w.lock_waits); overlap = True
    # ---- oracle 4: no committed write lost (units = transactions of a session that committed) -------------------------
    units = [sp.committed_units(s, res.runs[s['name']]) for s in sessions]
    wit0['committed_units'] = [[u['name'] for u in us] for us in units]
    serial = sp.serial_results_units(units)
    unprotected_cross = any(sp.cross_object_flow(s) and not s['opts'].get('serializable') and s['opts'].get('optimistic') is not False
                            and not s['opts'].get('immediate') and not all(r in res.runs[s['name']].locked for op in s['ops'] if op[0] == 'copy' for r in (op[1], op[3]))
                            for s in sessions)
    stale_shape = any(reuses_cached_rows_without_checks(sp, s) for s in sessions)
    equivalent = any(st == res.final for st in serial.values())
    if unprotected_cross: ctx.count('serial.not_judged_cross_object_flow')
    elif equivalent:
        ctx.count('serial.judged'); ctx.count('serial.equivalent')
        if stale_shape: ctx.count('serial.stale_shape_equivalent')
    elif stale_shape:
        ctx.count('serial.judged'); ctx.count('serial.known_stale_cache_after_commit')
        ctx.finding(F_STALE, dict(wit0, final=res.final['R'], serial={'>'.join(o): st['R'] for o, st in list(serial.items())[:6]}))
    else:
        ctx.count('serial.judged')
        ctx.violation(dict(wit0, final=res.final['R'], serial={'>'.join(o): st['R'] for o, st in list(serial.items())[:6]}),
                      'final-state-not-serial-equivalent')
    if any(o != 'committed' for o in outcomes.values()): ctx.count('schedules.with_failed_session')
    return overlap


SIGS = set()


def is_serial_trace(sched_obj):
    seen_end = set(); cur = None
    for n, lab in sched_obj.trace:
        if n != cur:
            if n in seen_end: return False
            if cur is not None: seen_end.add(cur)
            cur = n
    return True


def explore(ctx, model, sp, sessions, key, stmt_samples, max_enum=2000, nsample=200):
    from vlib import sched
    names = [s['name'] for s in sessions]
    counts = [sp.n_steps(s) for s in sessions]
    total = sched.n_interleavings(counts)
    if total <= max_enum:
        seqs = list(sched.interleavings(counts)); ctx.count('sets.enumerated_exhaustively')
    else:
        seqs = sched.sample_interleavings(counts, nsample, ctx.subrng('ilv', *key)); ctx.count('sets.sampled')
    progfp = [[s['name'], s['ops'], sorted(s['opts'].items())] for s in sessions]
    plans = [('op', [names[i] for i in seq]) for seq in seqs] + [('stmt', j) for j in range(stmt_samples)]
    for level, p in plans:
        if level == 'op':
            ch = sched.SequenceChooser(p); levels = ('op', 'lock'); desc = {'level': 'op', 'seq': ''.join(p)}
        else:
            r2 = ctx.subrng('stmt', p, *key)
            ch = sched.RandomChooser(r2, r2.choice((0.3, 0.5, 0.7))); levels = ('stmt', 'op', 'lock'); desc = {'level': 'stmt', 'sample': p}
        desc['key'] = list(key)
        res = sp.run_schedule(model, sessions, ch, levels=levels, watch_writes=False)
        ctx.count('schedules'); ctx.count('schedules.%s_level' % level)
        overlap = judge(ctx, sp, sessions, res, desc)
        nontrivial = bool(overlap) or (res.status == 'ok' and not is_serial_trace(res.sched))
        if nontrivial: ctx.count('schedules.nontrivial')
        if overlap: ctx.count('schedules.writer_met_protected_interval')
        ctx.case([progfp, res.sched.signature], nontrivial=nontrivial,
                 sample={'desc': desc, 'sessions': sessions, 'outcomes': {n: (r.outcome, r.exc and r.exc[0]) for n, r in res.runs.items()},
                         'lock_results': res.runs['A'].lock_results, 'final': res.final and res.final['R']})
        ctx.count('lock_waits', sum(w.lock_waits for w in res.sched.workers))
        ctx.count('db_statements', sum(1 for e in res.events if e['phase'] == 'call' and e['kind'] == 'execute'))
        ctx.count('begin_immediate', sum(1 for e in res.events if e['phase'] == 'ret' and e['kind'] == 'execute'
                                         and (e['sql'] or '').startswith('BEGIN IMMEDIATE')))
        SIGS.add(res.sched.signature + repr(progfp))


def run(ctx):
    from vlib import schedprog as sp
    model = sp.Model(ctx.tmp(), timeout=0.05)
    model.track_marks = True
    try:
        sets = all_sets()
        ctx.extra['program_set_space'] = len(sets)
        if ctx.tier == 'quick':
            rng = ctx.rng
            # stratified sample of the program-set family: 10 of the basic locker variants with a random writer kind,
            # and of the wider family 7 lock-path, 7 multi-transaction, 6 session-mode and 1 cached-row-reuse variants
            L0, W0, L2, W2 = lockers(), writers(), lockers2(), core_writers()
            chosen = [[a, rng.choice(W0)] for a in rng.sample(L0, 10)]
            for c, k in (('path', 7), ('multi', 7), ('modes', 6), ('stale', 1)):
                pool = [a for a in L2 if a['cat'] == c]
                chosen += [[a, rng.choice(W2)] for a in rng.sample(pool, k)]
            chosen = [next(s for s in sets if s[0] == a and s[1] == b) for a, b in chosen]
            stmt, three, nsample = 2, 1, 50
        else:
            chosen = [s for i, s in enumerate(sets) if i % ctx.nshards == ctx.shard]
            stmt, three, nsample = 3, 3, 200
        for sessions in chosen:
            # quick: interleaving spaces above 90 are sampled (time budget); thorough enumerates up to 2000
            explore(ctx, model, sp, sessions, ('set', sets.index(sessions)), stmt,
                    max_enum=90 if ctx.tier == 'quick' else 2000, nsample=nsample)
            ctx.count('program_sets')
        rng = ctx.rng
        L, W, C = lockers() + lockers2(), writers() + core_writers(), third_writers()
        for i in range(three):
            sessions = [rng.choice(L), rng.choice(W), rng.choice(C)]
            explore(ctx, model, sp, sessions, ('three', ctx.tier, ctx.shard, i), stmt,
                    max_enum=60 if ctx.tier == 'quick' else 2000, nsample=nsample)
            ctx.count('program_sets')
    finally:
        model.close()
    ctx.count('distinct_schedules', len(SIGS))
    ctx.floor('schedules.nontrivial', 500)
    ctx.floor('protected.rows_checked', 600)
    ctx.floor('protected.serializable', 25)
    ctx.floor('schedules.writer_met_protected_interval', 300)
    ctx.floor('writer.waited_in_acquire_lock', 200)
    ctx.floor('serial.judged', 800)


def replay(ctx, witness):
    from vlib import schedprog as sp, sched
    model = sp.Model(ctx.tmp(), timeout=0.05)
    model.track_marks = True
    try:
        sessions = witness['sessions']
        for s in sessions: s['ops'] = [tuple(o) for o in s['ops']]
        levels = ('op', 'lock') if witness.get('level') == 'op' else ('stmt', 'op', 'lock')
        res = sp.run_schedule(model, sessions, sched.ReplayChooser(witness['choices']), levels=levels, watch_writes=False)
        judge(ctx, sp, sessions, res, {'replay': True, 'level': witness.get('level')})
    finally:
        model.close()

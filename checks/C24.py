"""C24 -- query methods agree with list semantics of the full ordered result.

Monitor: for a base query q (engine E1 grammar) the harness fetches, through the real pipeline,
    U = list(q)                      the unordered result (automatic DISTINCT as pony decides)
    B = list(q.without_distinct())   the bag
    R = list(q_ord)                  the full result of q ordered by a TOTAL order (pk / all-columns tiebreak)
and then runs method chains on q / q_ord and compares each result with the corresponding PYTHON operation on R:
slices and limit/page for ALL bounds 0..|R|+1, nested limits, first/get/exists/count/sum/min/max/avg/group_concat
(with distinct= / sep=), distinct/without_distinct, chained filter/where (lambda, text, kwargs -- predicate evaluated by
the E1 reference interpreter on the mirror), re-ordering (stable sort of R), random(n), iteration over a limited
subquery, access scripts on the result OBJECT (lazy limit/page results and eager slice/fetch results indexed, negatively
indexed, sliced, re-sliced, len()'d, partially and fully iterated in every order -- compared with a plain list), and delete(bulk=True/False) judged from the database inside the same transaction (then rolled back).
"Ordering only permutes": Counter(R) == Counter(U).
"""
META = {
    'level': 'exploration',
    'engine': 'E1',
    'technique': 'runtime monitor: python list/Counter operations on the full ordered result R (fetched through the same '
                 'pipeline) vs the result of every query method chain; predicates via the E1 reference interpreter; '
                 'bulk delete judged by raw SQL inside the transaction',
    'level_text': 'Self-consistency of the query-method layer (slice/limit/page arithmetic, nested limit composition, '
                  'aggregate rewriting, filter chaining, ordering, random, delete) against python list semantics, with all '
                  'non-negative bounds 0..|R|+1 enumerated for slices, limit/offset and pages and all 4-tuples for nested '
                  'limits on small results; base queries and data are generated, so this is exploration.',
    'level_note': 'R is fetched by pony itself (the correctness of R is property C01); the trusted base is python list '
                  'operations, the E1 interpreter for filter predicates and sqlite3. Aggregates accept the list (R) or the '
                  'bag (B) reading and count() may ignore None (SQL aggregate reading) -- those are bracketed.',
    'rule': 'case = (base query text, parameters, ordering step, method chain with concrete bounds, data set); distinct = '
            'fingerprint of that tuple; non-trivial = R is non-empty and the chain result was compared (not raised)',
    'assumptions': [
        'SQLite only', 'negative bounds are outside the property', 'R, U and B are fetched through pony (C01 judges them)',
        'ordering checks of re-ordered queries skip keys containing None (python cannot order None)',
        'group_concat compared as a multiset of parts (SQL does not define the order inside an aggregate)',
    ],
    'shims': [],
    'exhaustive_tiers': [],
}
SHARDS = {'quick': 1, 'thorough': 16}
SHARD_TIMEOUT = {'quick': 300, 'thorough': 1500}

SIZES = {'quick': dict(datasets=6, bases=14, nested=2, max_bound_rows=7),
         'thorough': dict(datasets=5, bases=13, nested=3, max_bound_rows=8)}

FINDINGS = {
    'order_drops_distinct': 'C24-ORDER-BY-DROPS-AUTO-DISTINCT',
    'count_scalar_distinct': 'C24-COUNT-ALWAYS-DISTINCT-FOR-SCALAR',
    'count_tuple_first_col': 'C24-COUNT-TUPLE-FIRST-COLUMN',
    'filter_before_limit': 'C24-LIMITED-SUBQUERY-FILTER-BEFORE-LIMIT',
    'filter_truth_raw': 'C24-FILTER-NON-BOOLEAN-EXPRESSION-USED-RAW',
    'bulk_delete_aliases': 'C24-BULK-DELETE-SUPPRESSED-ALIASES',
    'bulk_delete_having': 'C24-BULK-DELETE-DROPS-AGGREGATE-CONDITION',
}


# ----------------------------------------------------------------------------------------------------------------
# base queries with known result kind
# ----------------------------------------------------------------------------------------------------------------
class Base(object):
    def __init__(self, src, params, kind, var=None, ent=None, types=None, lam=None, prods=()):
        self.src, self.params, self.kind, self.var, self.ent, self.types, self.lam, self.prods = \
            src, params, kind, var, ent, types, lam, list(prods)     # kind: entity | scalar | tuple | group


def gen_base(gen, rng, schema, small=False):
    from vlib import qdiff
    gen.reset()
    r = rng.random()
    if small:
        ent = rng.choice(['Person', 'Item', 'Tag'])
        v = gen.newvar(ent); gen.vars = [(v, ent)]
        cond = '%s.id <= %d' % (v, rng.choice([2, 3, 3, 4]))
        return Base('%s for %s in %s if %s' % (v, v, ent, cond), {}, 'entity', v, ent, lam={'ent': ent, 'var': v, 'cond': cond})
    D = rng.choice([1, 1, 2])
    scal = lambda e: [a for a in schema.ents[e].attrs.values() if a.is_scalar and a.kind != 'pk' and a.typ != 'bool']
    if r < 0.30:
        ent = rng.choice(['Person', 'Person', 'Item', 'Tag', 'Dept', 'Passport', 'Gadget'])
        v = gen.newvar(ent); gen.vars = [(v, ent)]
        cond = gen.gen('cond', D).t if rng.random() < 0.7 else None
        src = '%s for %s in %s%s' % (v, v, ent, (' if ' + cond) if cond else '')
        return Base(src, gen.params, 'entity', v, ent, lam={'ent': ent, 'var': v, 'cond': cond}, prods=gen.prods)
    if r < 0.50:
        ent = rng.choice(['Person', 'Person', 'Item', 'Dept'])
        v = gen.newvar(ent); gen.vars = [(v, ent)]
        a = rng.choice(scal(ent))
        cond = gen.gen('cond', D).t if rng.random() < 0.5 else None
        src = '%s.%s for %s in %s%s' % (v, a.name, v, ent, (' if ' + cond) if cond else '')
        return Base(src, gen.params, 'scalar', v, ent, types=[a.typ], prods=gen.prods)
    if r < 0.65:
        ent = rng.choice(['Person', 'Person', 'Item'])
        v = gen.newvar(ent); gen.vars = [(v, ent)]
        attrs = rng.sample(scal(ent), 2)
        cond = gen.gen('cond', D).t if rng.random() < 0.4 else None
        src = '(%s) for %s in %s%s' % (', '.join('%s.%s' % (v, a.name) for a in attrs), v, ent, (' if ' + cond) if cond else '')
        return Base(src, gen.params, 'tuple', v, ent, types=[a.typ for a in attrs], prods=gen.prods)
    if r < 0.80:
        owners = [(e.name, a) for e in schema.ents.values() for a in e.own_attrs if a.is_set]
        en, a = rng.choice(owners)
        v = gen.newvar(en); gen.vars = [(v, en)]
        w = gen.newvar(a.typ); gen.vars.append((w, a.typ))
        cond = gen.gen('cond', D).t if rng.random() < 0.5 else None
        which = rng.choice([v, w])
        went = en if which == v else a.typ
        src = '%s for %s in %s for %s in %s.%s%s' % (which, v, en, w, v, a.name, (' if ' + cond) if cond else '')
        return Base(src, gen.params, 'entity', which, went, prods=gen.prods)
    if r < 0.92:
        owners = [(e.name, a) for e in schema.ents.values() for a in e.own_attrs if a.is_set]
        en, a = rng.choice(owners)
        v = gen.newvar(en); gen.vars = [(v, en)]
        w = gen.newvar(a.typ); gen.vars.append((w, a.typ))
        which, went = rng.choice([(v, en), (w, a.typ)])
        at = rng.choice(scal(went))
        src = '%s.%s for %s in %s for %s in %s.%s' % (which, at.name, v, en, w, v, a.name)
        return Base(src, gen.params, 'scalar', None, None, types=[at.typ], prods=gen.prods)
    v = 'p'; gen.vars = [(v, 'Person')]
    key = rng.choice(['p.dept', 'p.active', 'p.age', 'p.name'])
    agg = rng.choice(['count(p)', 'sum(p.age)', 'max(p.name)', 'count()'])
    src = '(%s, %s) for p in Person' % (key, agg)
    return Base(src, {}, 'group', None, None, types=['?', '?'], prods=gen.prods)


def order_steps(base, rng, schema):
    """Total orders: pk tiebreak for entity results, all columns for scalar/tuple/group results."""
    out = []
    if base.kind == 'entity':
        e = schema.ents[base.ent]
        scal = [a for a in e.attrs.values() if a.is_scalar and a.kind != 'pk']
        ks = rng.sample(scal, min(len(scal), rng.choice([0, 1, 1, 2])))
        var = base.var
        spec_attrs = [[base.ent, a.name, rng.random() < 0.4] for a in ks] + [[base.ent, 'id', rng.random() < 0.3]]
        m = rng.choice(['order_by', 'sort_by'])
        out.append([m, 'attrs', spec_attrs])
        parts = [('desc(%s.%s)' if d else '%s.%s') % (var, a) for _e, a, d in spec_attrs]
        out.append([m, 'lambda', 'lambda %s: (%s)' % (var, ', '.join(parts))])
        out.append([m, 'str', ', '.join(parts)])
        out.append([m, 'str', 'lambda %s: (%s)' % (var, ', '.join(parts))])
        return [rng.choice(out)]
    n = len(base.types)
    nums = list(range(1, n + 1)); rng.shuffle(nums)
    return [[rng.choice(['order_by', 'sort_by']), 'numbers', [k if rng.random() < 0.6 else -k for k in nums]]]


# ----------------------------------------------------------------------------------------------------------------
# helpers
# ----------------------------------------------------------------------------------------------------------------
def canon_list(rows):
    from vlib import qdiff
    return [qdiff.canon(r) for r in rows]


def same_list(a, b):
    from vlib import qdiff
    return len(a) == len(b) and all(qdiff.value_match(x, y) for x, y in zip(a, b))


def same_bag(a, b):
    from vlib import qdiff
    m, e = qdiff.counter_diff(a, b)
    return not m and not e


def sub_bag(small, big):
    from vlib import qdiff
    m, e = qdiff.counter_diff(small, big)
    return not m


class Monitor(object):
    def __init__(self, ctx, env, qdiff):
        self.ctx, self.env, self.qdiff = ctx, env, qdiff
        self.shrink = True

    def run(self, base, form, chain):
        p = self.qdiff.Program(base.src, base.params, form, chain, base.lam if form == 'lam' else None, base.prods)
        return p, self.qdiff.run_program(self.env, p)

    def book(self, method, program, status, detail='', expected=None, got=None, rule=None, nontrivial=True):
        ctx = self.ctx
        ctx.case(fingerprint=[program.key(), self.env.data_id], nontrivial=nontrivial and status in ('agree', 'known', 'disagree'),
                 sample={'src': program.src, 'chain': program.chain, 'form': program.form, 'status': status})
        ctx.count('method.%s.%s' % (method, status))
        ctx.count('outcome.' + status)
        ctx.count('form.%s.%s' % (program.form, status))
        if status in ('known', 'disagree'):
            w = {'program': program.to_json(), 'text': program.text(), 'data': self.env.data, 'method': method,
                 'detail': detail, 'expected': self.qdiff.enc(expected) if expected is not None else None,
                 'got': self.qdiff.enc(got) if got is not None else None}
            if status == 'known': ctx.finding(FINDINGS[rule], w); ctx.count('finding.' + FINDINGS[rule])
            else: ctx.violation(w, mechanism='method-%s-disagrees-with-list-semantics' % method)

    def rows(self, base, form, chain, method):
        """Run a chain expected to give rows; returns canonical list or None (raised -> booked as pony_raised)."""
        p, res = self.run(base, form, chain)
        if res.kind == 'raised':
            self.ctx.count('method.%s.pony_raised' % method); self.ctx.count('raised.' + res.exc)
            self.ctx.count('outcome.db_error' if res.db_error else 'outcome.pony_raised')
            return p, None
        if res.kind != 'rows': return p, ('scalar', res.value)
        return p, canon_list(res.rows)


def eval_pred(qdiff, env, base, text, rows_raw, argnames):
    """Evaluate lambda/expr text on result elements with the E1 interpreter.
    -> list of (incA, incB, flagged) per row, or None when unsupported."""
    import ast
    node = ast.parse('(' + text + ')', mode='eval').body
    if isinstance(node, ast.Lambda):
        argnames = [a.arg for a in node.args.args]; node = node.body
    it = qdiff.Interp(env.mirror, base.params)
    if base.kind == 'entity' and len(argnames) == 1:
        # predicates that hit a mechanism listed for C01 (collection-aggregate join, reverse one-to-one read, alias
        # clash, ...) are C01's business: not judged here
        it.tenv = {argnames[0]: ('ent', base.ent)}
        fake = ast.GeneratorExp(ast.Name(argnames[0], ast.Load()),
                                [ast.comprehension(ast.Name(argnames[0], ast.Store()), ast.Name(base.ent, ast.Load()), [node], 0)])
        ast.fix_missing_locations(fake)
        try:
            if qdiff.aggr_opt_rewrite(it, fake) is not None or it.find_o2o_reads(fake) or qdiff.scan_shapes(it, fake): return None
        except qdiff.Unsupported: return None
    out = []
    for row in rows_raw:
        vals = row if (isinstance(row, tuple) and not (len(row) == 4 and row[0] == '@')) else (row,)
        if len(argnames) != len(vals): return None
        e = {}
        it.tenv = {}
        for n, v in zip(argnames, vals):
            if isinstance(v, tuple) and len(v) == 4 and v[0] == '@':
                o = env.mirror.by_pk.get((v[1], v[2]))
                e[n] = o; it.tenv[n] = ('ent', o._ent)
            else: e[n] = v
        res = []
        flagged = False
        for mode in ('A', 'B'):
            it.mode, it.row_flag, it.amb_seen, it.strict = mode, False, False, False
            try: t = it.cond(node, e)
            except (qdiff.Unsupported, qdiff.NoReference, qdiff.PyWouldRaise): return None
            lv = {n for n in argnames}
            if it.optref_drop(node, lv, e): pass
            res.append(t is True); flagged = flagged or it.row_flag
            if mode == 'A' and not it.amb_seen: res.append(t is True); break
        if 'optref_inner_join' in it.sites: flagged = True
        out.append((res[0], res[1], flagged))
    if it.sites - {'optref_inner_join'}: return None
    return out


def raw_truth_rows(qdiff, env, base, text, R, raw_R, argnames):
    """Deviation rule: filter/where whose whole body is a str-typed expression -> rows whose text casts to non-zero."""
    import ast, re
    node = ast.parse('(' + text + ')', mode='eval').body
    if isinstance(node, ast.Lambda):
        argnames = [a.arg for a in node.args.args]; node = node.body
    it = qdiff.Interp(env.mirror, base.params)
    out = []
    for r, row in zip(R, raw_R):
        vals = row if (isinstance(row, tuple) and not (len(row) == 4 and row[0] == '@')) else (row,)
        if len(argnames) != len(vals): return None
        e = {}; it.tenv = {}
        for n, v in zip(argnames, vals):
            if isinstance(v, tuple) and len(v) == 4 and v[0] == '@':
                e[n] = env.mirror.by_pk.get((v[1], v[2])); it.tenv[n] = ('ent', e[n]._ent)
            else: e[n] = v
        st = it.stype(node)
        if isinstance(st, tuple) and st[0] == 'set':
            try: v = it.ev(node, e)
            except Exception: return None
            # the collection is JOINED instead of tested with EXISTS and its primary key COLUMNS are the condition: one
            # output row per item whose every key column is "true" for sqlite (non-zero number / text with a non-zero
            # numeric prefix) -- always the case for integer keys >= 1, not for the text part of a composite key
            def sq_true(x):
                if x is None: return False
                if isinstance(x, tuple): return all(sq_true(i) for i in x)
                if isinstance(x, str):
                    m = re.match(r'^\s*[+-]?(\d+\.?\d*(?:[eE][+-]?\d+)?|\.\d+(?:[eE][+-]?\d+)?)', x)
                    try: return bool(m) and float(m.group(0)) != 0
                    except ValueError: return False
                return x != 0
            out.extend([r] * sum(1 for item in v if sq_true(item.id))); continue
        try: v = it.ev(node, e)
        except Exception: return None
        if v is None or v is qdiff.U: continue
        if isinstance(v, (set, frozenset, list, qdiff.GroupConcat)): return None
        if not isinstance(v, str):
            if isinstance(v, (int, float)) or type(v).__name__ == 'Decimal':
                if v != 0: out.append(r)
                continue
            return None
        m = re.match(r'^\s*[+-]?(\d+\.?\d*(?:[eE][+-]?\d+)?|\.\d+(?:[eE][+-]?\d+)?)', v)
        if m:
            try:
                if float(m.group(0)) != 0: out.append(r)
            except ValueError: pass
    return out


def pick(R, pred, which):
    """rows of R selected under reading `which` (0 = must, 1 = may)."""
    if which == 0: return [r for r, (a, b, f) in zip(R, pred) if a and b and not f]
    return [r for r, (a, b, f) in zip(R, pred) if a or b or f]


# ----------------------------------------------------------------------------------------------------------------
def check_base(mon, base, form, rng, sz, schema, gen):
    qdiff, env, ctx = mon.qdiff, mon.env, mon.ctx
    Counter = __import__('collections').Counter
    # --- the three reference fetches -------------------------------------------------------------------------------
    pU, U = mon.rows(base, form, [], 'fetch')
    if U is None or not isinstance(U, list): return
    pB, B = mon.rows(base, form, [['without_distinct']], 'fetch')
    if B is None: return
    ostep = order_steps(base, rng, schema)[0]
    pR, R = mon.rows(base, form, [ostep], 'order_by')
    if R is None: return
    raw_R = qdiff.run_program(env, pR).rows
    ctx.count('bases')
    ctx.count('rows_in_R', len(R))
    nt = len(R) > 0
    auto_distinct = len(U) != len(B) or (base.kind in ('scalar', 'tuple') and len(set(map(repr, U))) == len(U) and len(B) == len(U))

    # --- ordering only permutes ------------------------------------------------------------------------------------
    if same_bag(R, U): mon.book('order_permutes', pR, 'agree', nontrivial=nt)
    elif same_bag(R, B) and same_bag(list(set(R)), list(set(U))):
        mon.book('order_permutes', pR, 'known', 'ordered result is the bag, unordered result is DISTINCT', U, R, 'order_drops_distinct')
    else: mon.book('order_permutes', pR, 'disagree', 'ordered result is not a permutation of the unordered one', U, R)
    if base.kind != 'group':
        if sub_bag(list(set(U)), B) and same_bag(list(set(B)), list(set(U))): mon.book('without_distinct', pB, 'agree', nontrivial=nt)
        else: mon.book('without_distinct', pB, 'disagree', 'without_distinct() changes the set of rows', U, B)
    # ordered list really sorted by the requested keys (entity results; attribute keys)
    # (the C01 check judges ordering against the mirror; here: R is the reference for everything below)

    n = len(R)
    chain0 = [ostep]
    # --- slices / limit / page: all non-negative bounds 0..n+1 --------------------------------------------------------
    bounds = range(0, n + 2) if n <= sz['max_bound_rows'] else sorted(set([0, 1, 2, n - 1, n, n + 1] + [rng.randint(0, n + 1) for _ in range(3)]))
    for a in list(bounds) + [None]:
        for b in list(bounds) + [None]:
            p, got = mon.rows(base, form, chain0 + [['slice', a, b]], 'slice')
            if got is None: continue
            exp = R[a:b]
            mon.book('slice', p, 'agree' if same_list(got, exp) else 'disagree', 'q[%s:%s]' % (a, b), exp, got, nontrivial=nt)
    for lim in list(bounds) + [None]:
        for off in [None] + list(bounds):
            args = ['limit', lim] + ([off] if off is not None else [])
            p, got = mon.rows(base, form, chain0 + [args], 'limit')
            if got is None: continue
            o = off or 0
            exp = R[o:] if lim is None else R[o:o + lim]
            mon.book('limit', p, 'agree' if same_list(got, exp) else 'disagree', 'limit(%s, %s)' % (lim, off), exp, got, nontrivial=nt)
    for size in range(1, min(n, 6) + 2):
        for page in range(1, n // size + 3):
            p, got = mon.rows(base, form, chain0 + [['page', page, size]], 'page')
            if got is None: continue
            exp = R[(page - 1) * size: page * size]
            mon.book('page', p, 'agree' if same_list(got, exp) else 'disagree', 'page(%d, %d)' % (page, size), exp, got, nontrivial=nt)

    # --- first / get / exists ----------------------------------------------------------------------------------------
    for meth in ('first', 'exists', 'get'):
        p, res = mon.run(base, form, chain0 + [[meth]])
        if res.kind == 'raised':
            if meth == 'get' and res.exc == 'MultipleObjectsFoundError' and n > 1: mon.book(meth, p, 'agree', nontrivial=nt)
            else:
                ctx.count('method.%s.pony_raised' % meth); ctx.count('raised.' + res.exc); ctx.count('outcome.pony_raised')
            continue
        got = qdiff.canon(res.value) if res.kind == 'scalar' else ('rows', res.rows)
        if meth == 'exists': exp, ok = bool(R), res.value is bool(R)
        elif meth == 'first': exp = R[0] if R else None; ok = qdiff.value_match(exp, got)
        else:
            if n > 1: exp, ok = 'MultipleObjectsFoundError', False
            else: exp = R[0] if R else None; ok = qdiff.value_match(exp, got)
        mon.book(meth, p, 'agree' if ok else 'disagree', meth, exp, got, nontrivial=nt)

    # --- count and the other aggregates: on q, q_ord, q.without_distinct(), q.distinct() ------------------------------
    variants = [([], U), (chain0, R), ([['without_distinct']], B), ([['distinct']], None)]
    for pre, L in variants:
        if L is None:
            pD, L = mon.rows(base, form, pre, 'distinct')
            if L is None or not isinstance(L, list): continue
            if same_bag(L, list(set(B))) and len(set(L)) == len(L): mon.book('distinct', pD, 'agree', nontrivial=nt)
            else: mon.book('distinct', pD, 'disagree', 'distinct() is not the set of rows', sorted(set(B), key=repr), L)
        check_aggregates(mon, base, form, pre, L, B, nt)

    # --- distinct() on the ordered query keeps the order when the keys are the projected columns -------------------------
    if base.kind in ('scalar', 'tuple') and ostep[1] == 'numbers':
        p, got = mon.rows(base, form, chain0 + [['distinct']], 'distinct_ordered')
        if got is not None:
            exp = list(__import__('collections').OrderedDict.fromkeys(R))
            mon.book('distinct_ordered', p, 'agree' if same_list(got, exp) else 'disagree', 'distinct() after order_by', exp, got, nontrivial=nt)

    # --- random(k) ----------------------------------------------------------------------------------------------------
    for k in sorted({0, 1, 2, n, n + 1, len(B) + 1}):
        for pre, L in ((chain0, R), ([], U)):
            p, got = mon.rows(base, form, pre + [['random', k]], 'random')
            if got is None: continue
            ok = sub_bag(got, L) and len(got) == min(k, len(L))
            if ok: mon.book('random', p, 'agree', nontrivial=nt)
            elif sub_bag(got, B) and len(got) == min(k, len(B)) and same_bag(list(set(L)), list(set(B))):
                mon.book('random', p, 'known', 'random() orders the query, which drops the automatic DISTINCT', L, got, 'order_drops_distinct')
            else: mon.book('random', p, 'disagree', 'random(%d) is not a sub-multiset of the result of the right size' % k, L, got)

    # --- the result OBJECT (QueryResult) indexed / sliced / iterated in every load state -------------------------------
    check_result_access(mon, base, form, chain0, R, rng, nt)
    # --- chained filter / where -----------------------------------------------------------------------------------------
    if base.kind in ('entity', 'scalar', 'tuple'):
        for _ in range(3): check_filter(mon, base, form, chain0, R, raw_R, rng, gen, schema, nt)
    # --- re-ordering: stable sort of R ---------------------------------------------------------------------------------
    check_reorder(mon, base, form, chain0, R, raw_R, rng, schema, nt)
    # --- iteration over a limited subquery -----------------------------------------------------------------------------
    if base.kind == 'entity': check_iter_limited(mon, base, form, chain0, R, raw_R, rng, gen, schema, nt, sz)
    # --- delete -----------------------------------------------------------------------------------------------------------
    if base.kind == 'entity' and form != 'str' or base.kind == 'entity': check_delete(mon, base, form, chain0, U, rng, nt)


def list_model(L, script):
    """What the same access script observes on a plain python list."""
    out = []
    for a in script:
        k = a[0]
        try:
            if k == 'idx': v = L[a[1]]
            elif k == 'slice': v = L[a[1]:a[2]]
            elif k == 'slice2': v = L[a[1]:a[2]][a[3]:a[4]]
            elif k == 'len': v = len(L)
            elif k in ('list', 'to_list'): v = list(L)
            elif k == 'reversed': v = list(reversed(L))
            elif k == 'next':
                it = iter(L); v = [next(it) for _ in range(a[1])]
            elif k == 'contains': v = (L[a[1]] in L) if len(L) > a[1] else None
            else: raise ValueError(a)
        except (IndexError, StopIteration) as e: v = ('$exc', type(e).__name__)
        out.append(v)
    return out


def access_scripts(w, rng):
    """Access scripts for a result of length w: the FIRST access varies over indexing, negative indexing, slicing,
    len(), full and partial iteration; later accesses see the result in the state the earlier ones left it in."""
    ri = lambda: rng.randint(-w - 1, w + 1)
    rb = lambda: rng.choice([None, ri(), ri()])
    i0 = rng.randint(0, max(w - 1, 0))
    return [
        [['idx', 0], ['list'], ['len']],
        [['idx', -1], ['len'], ['idx', i0], ['list']],
        [['idx', i0], ['slice', rb(), rb()], ['list']],
        [['slice', rb(), rb()], ['idx', ri()], ['len']],
        [['slice', None, None], ['idx', w], ['idx', -w - 1]],
        [['slice2', rb(), rb(), rb(), rb()], ['idx', ri()], ['list']],
        [['len'], ['idx', ri()], ['slice', rb(), rb()], ['idx', -1]],
        [['next', min(1, w)], ['idx', i0], ['slice', rb(), rb()], ['list'], ['len']],
        [['next', w + 1], ['idx', 0], ['len']],
        [['list'], ['idx', ri()], ['slice2', rb(), rb(), rb(), rb()], ['reversed']],
        [['reversed'], ['idx', i0], ['to_list']],
        [['contains', i0], ['idx', -1], ['slice', rb(), rb()]],
        [['to_list'], ['slice', rb(), rb()], ['idx', ri()]],
    ]


def check_result_access(mon, base, form, chain0, R, rng, nt):
    """q.limit(n, off) / q.page(p, s) (lazy results), q[a:b] / q.fetch(n, off) (eager results) and q[:]: the result object
    must behave like the python list R[window] under every access script, whatever access comes first."""
    qdiff, ctx = mon.qdiff, mon.ctx
    n = len(R)
    prods = [(['slice', None, None], R)]
    cand = [(l, o) for l in range(0, n + 2) for o in range(0, n + 2)]
    rng.shuffle(cand)
    for l, o in cand[:4] + [(max(n - 1, 1), 1), (2, max(n - 2, 0))]:
        prods.append((['limit', l, o], R[o:o + l]))
    o = rng.randint(1, n + 1) if n else 1
    prods.append((['limit', None, o], R[o:]))
    for _ in range(3):
        size = rng.randint(1, max(n, 1)); page = rng.randint(1, n // size + 2)
        prods.append((['page', page, size], R[(page - 1) * size: page * size]))
    a, b = sorted([rng.randint(0, n + 1), rng.randint(0, n + 1)])
    prods.append((['slice', a, b], R[a:b]))
    prods.append((['slice', a, None], R[a:]))
    l, o = rng.randint(0, n + 1), rng.randint(0, n + 1)
    prods.append((['fetch', l, o], R[o:o + l]))
    for step, L in prods:
        scripts = access_scripts(len(L), rng)
        scripts = rng.sample(scripts, 7 if step[0] in ('limit', 'page') else 5)
        for script in scripts:
            p, res = mon.run(base, form, chain0 + [step, ['access', script]])
            if res.kind == 'raised':
                ctx.count('method.result_access.pony_raised'); ctx.count('raised.' + res.exc); ctx.count('outcome.pony_raised'); continue
            got = res.value[1] if isinstance(res.value, tuple) and res.value and res.value[0] == '$access' else None
            exp = list_model(L, script)
            ok = got is not None and len(got) == len(exp) and all(obs_match(qdiff, e, g) for e, g in zip(exp, got))
            first = script[0][0]
            ctx.count('result_access.first_%s.%s' % (first, 'agree' if ok else 'disagree'))
            mon.book('result_access', p, 'agree' if ok else 'disagree',
                     'result of %s accessed by %s' % (step, script), qdiff.enc(exp), qdiff.enc([qdiff.canon(g) if not isinstance(g, list) else [qdiff.canon(x) for x in g] for g in (got or [])]),
                     nontrivial=nt and len(L) > 0)


def obs_match(qdiff, exp, got):
    """exp: list-model observation over canonical rows; got: raw observation from the result object."""
    if isinstance(exp, tuple) and exp and exp[0] == '$exc': return isinstance(got, tuple) and tuple(got) == tuple(exp)
    if isinstance(exp, list):
        return isinstance(got, list) and len(got) == len(exp) and all(qdiff.value_match(e, qdiff.canon(g)) for e, g in zip(exp, got))
    if isinstance(exp, bool) or exp is None: return got is exp or got == exp
    if isinstance(got, list): return False
    return qdiff.value_match(exp, qdiff.canon(got))


def check_aggregates(mon, base, form, pre, L, B, nt):
    qdiff, ctx = mon.qdiff, mon.ctx
    def nn(xs): return [x for x in xs if x is not None]
    # count
    for dist in (None, True, False):
        p, res = mon.run(base, form, pre + [['count', dist]])
        if res.kind == 'raised':
            ctx.count('method.count.pony_raised'); ctx.count('raised.' + res.exc); ctx.count('outcome.pony_raised'); continue
        got = res.value
        if dist is True: admissible = {len(set(L)), len(set(nn(L))), len(set(B)), len(set(nn(B)))}
        elif dist is False: admissible = {len(B), len(nn(B))}
        else: admissible = {len(L), len(nn(L)), len(B), len(nn(B))} if not pre or pre == [['distinct']] else {len(L), len(nn(L))}
        if got in admissible: mon.book('count', p, 'agree', nontrivial=nt)
        elif base.kind == 'scalar' and got == len(set(nn(B))):
            mon.book('count', p, 'known', 'count() of a single-column query is COUNT(DISTINCT col) although the list has duplicates',
                     sorted(admissible), got, 'count_scalar_distinct')
        elif base.kind == 'tuple' and got in (len({r[0] for r in B if r[0] is not None}), len([r for r in B if r[0] is not None])):
            mon.book('count', p, 'known', 'count() of a multi-column DISTINCT query counts distinct values of the FIRST column',
                     sorted(admissible), got, 'count_tuple_first_col')
        else: mon.book('count', p, 'disagree', 'count(distinct=%s)' % dist, sorted(admissible), got)
    if base.kind != 'scalar': return
    typ = base.types[0]
    for meth in ('sum', 'avg', 'min', 'max', 'group_concat'):
        for dist in ((None, True, False) if meth in ('sum', 'avg', 'group_concat') else (None,)):
            step = [meth] + ([None, dist] if meth == 'group_concat' else [dist] if meth in ('sum', 'avg') else [])
            if meth == 'group_concat' and dist is None and len(L) % 2: step = ['group_concat', '|', None]
            p, res = mon.run(base, form, pre + [step])
            if res.kind == 'raised':
                ctx.count('method.%s.pony_raised' % meth); ctx.count('raised.' + res.exc); ctx.count('outcome.pony_raised'); continue
            got = qdiff.canon(res.value)
            cands = [L, B] if dist is None else ([list(set(B))] if dist else [B])
            ok = False
            exps = []
            for xs in cands:
                xs = nn(xs)
                if meth == 'sum': exp = sum(xs) if typ in ('int', 'float', 'dec') else None
                elif meth == 'avg': exp = (sum(float(x) for x in xs) / len(xs)) if xs and typ in ('int', 'float', 'dec') else None
                elif meth in ('min', 'max'):
                    try: exp = (min(xs) if meth == 'min' else max(xs)) if xs else None
                    except TypeError: exp = '?'
                else:
                    sep = step[1] or ','
                    parts = [x[1] if isinstance(x, tuple) and x and x[0] == 'd' else x for x in xs]
                    exp = ('gc', tuple(sorted(str(int(x)) if isinstance(x, float) and x == int(x) and typ == 'int' else str(x) for x in parts)), sep)
                exps.append(exp)
                if exp == '?': ok = True
                elif isinstance(exp, tuple) and exp and exp[0] == 'gc':
                    if typ in ('float', 'dec', 'date'): ok = True          # text rendering of these types is not modelled
                    elif qdiff.match_gc(exp, res.value): ok = True
                elif qdiff.value_match(exp, got): ok = True
            mon.book(meth, p, 'agree' if ok else 'disagree', '%s(distinct=%s)' % (meth, dist), exps, got, nontrivial=nt)


def make_pred_text(base, rng, gen, schema):
    """A predicate over the RESULT ELEMENTS of the base query: (kind, text/kwargs, argnames)."""
    gen.reset(); gen.params = dict(base.params)
    gen.p_param = 0.0
    saved_ex = gen.exclude
    import re as _re
    gen.reserved = set(_re.findall(r'for (\w+) in', base.src))     # nested variables of the predicate must not shadow the base query's
    gen.exclude = set(gen.exclude) | {'div', 'strip0', 'slice', 'fstring', 'ifexp'}
    try:
        if base.kind == 'entity':
            v = 'x'
            gen.vars = [(v, base.ent)]
            cond = gen.gen('cond', rng.choice([1, 1, 2])).t
            return cond, [v]
        names = ['v%d' % i for i in range(len(base.types))]
        i = rng.randrange(len(names))
        typ = base.types[i]
        c = gen.const(typ, allow_param=False).t
        op = rng.choice(['<', '<=', '>', '>=', '==', '!='])
        extra = ''
        if typ == 'str' and rng.random() < 0.4: return '%s.startswith(%s)' % (names[i], c), names
        if rng.random() < 0.3: return '%s is not None and %s %s %s' % (names[i], names[i], op, c), names
        return '%s %s %s' % (names[i], op, c), names
    finally:
        gen.p_param = 0.3
        gen.exclude = saved_ex
        gen.reserved = ()


def check_filter(mon, base, form, chain0, R, raw_R, rng, gen, schema, nt):
    qdiff, env, ctx = mon.qdiff, mon.env, mon.ctx
    body, names = make_pred_text(base, rng, gen, schema)
    if qdiff.has_ifexp(qdiff.Program(body + ' for z in Z')) : return
    variants = [('filter', 'lambda', 'lambda %s: %s' % (', '.join(names), body)),
                ('filter', 'str', 'lambda %s: %s' % (', '.join(names), body))]
    if base.kind == 'entity' and base.var is not None:
        own = body.replace('x.', base.var + '.') if names == ['x'] else None
        import re
        own = re.sub(r'\bx\b', base.var, body)
        variants += [('where', 'lambda', 'lambda %s: %s' % (base.var, own)), ('where', 'str', own), ('where', 'lambda', 'lambda: %s' % own)]
    meth, kind, text = rng.choice(variants)
    pred = eval_pred(qdiff, env, base, text if 'lambda' in text else 'lambda %s: %s' % (base.var, text), raw_R, names)
    if pred is None:
        ctx.count('method.%s.unsupported' % meth); ctx.count('outcome.unsupported'); return
    for pos in ('after', 'before'):
        chain = chain0 + [[meth, kind, text]] if pos == 'after' else [[meth, kind, text]] + chain0
        p, got = mon.rows(base, form, chain, meth)
        if got is None: continue
        must, may = pick(R, pred, 0), pick(R, pred, 1)
        if len(must) == len(may): ok = same_list(got, must)
        else: ok = sub_bag(must, got) and sub_bag(got, may)
        if ok: mon.book(meth, p, 'agree', nontrivial=nt); continue
        alt = raw_truth_rows(qdiff, env, base, text if 'lambda' in text else 'lambda %s: %s' % (base.var, text), R, raw_R, names)
        if alt is not None and (same_list(got, alt) or (len(alt) != len(set(alt)) and same_bag(got, alt))):
            mon.book(meth, p, 'known', 'a non-boolean %s() expression is used as the SQL condition without a truth test' % meth,
                     must, got, 'filter_truth_raw')
        else: mon.book(meth, p, 'disagree', '%s(%s) %s order_by' % (meth, text, pos), must, got)
    # kwargs
    if base.kind == 'entity' and R:
        o = env.mirror.by_pk[raw_R[rng.randrange(len(raw_R))][1:3]]
        e = schema.ents[o._ent]
        a = rng.choice([a for a in e.attrs.values() if a.is_scalar])
        val = getattr(o, a.name)
        exp = [r for r, rr in zip(R, raw_R) if (lambda m: (getattr(m, a.name, None) == val) if val is not None else getattr(m, a.name, 0) is None)(env.mirror.by_pk[rr[1:3]])]
        if val == '' and a.typ == 'str': return
        p, got = mon.rows(base, form, chain0 + [['filter', 'kwargs', {a.name: qdiff.enc(val)}]], 'filter_kwargs')
        if got is not None:
            mon.book('filter_kwargs', p, 'agree' if same_list(got, exp) else 'disagree', 'filter(%s=%r)' % (a.name, val), exp, got, nontrivial=nt)


def check_reorder(mon, base, form, chain0, R, raw_R, rng, schema, nt):
    """q_ord.order_by(k2) == stable sort of R by k2 (new keys take precedence, the old order breaks ties)."""
    qdiff, env = mon.qdiff, mon.env
    if base.kind == 'entity':
        e = schema.ents[base.ent]
        a = rng.choice([a for a in e.attrs.values() if a.is_scalar])
        desc = rng.random() < 0.5
        step = ['order_by', 'attrs', [[base.ent, a.name, desc]]]
        keys = [getattr(env.mirror.by_pk[r[1:3]], a.name, None) for r in raw_R]
        keys = [qdiff.canon(k) for k in keys]
    else:
        i = rng.randrange(len(base.types)); desc = rng.random() < 0.5
        step = ['order_by', 'numbers', [-(i + 1) if desc else (i + 1)]]
        keys = [(r[i] if base.kind != 'scalar' else r) for r in R]
    p, got = mon.rows(base, form, chain0 + [step], 'reorder')
    if got is None: return
    if any(k is None for k in keys) or any(isinstance(k, tuple) and k and k[0] == '@' for k in keys):
        ok = same_bag(got, R)
        mon.book('reorder', p, 'agree' if ok else 'disagree', 're-ordering changed the multiset', R, got, nontrivial=nt); return
    try:
        idx = sorted(range(len(R)), key=lambda j: keys[j], reverse=desc)
        if desc:     # stable for descending: sort ascending on negated rank
            ranks = {k: n for n, k in enumerate(sorted(set(keys)))}
            idx = sorted(range(len(R)), key=lambda j: -ranks[keys[j]])
    except TypeError: return
    exp = [R[j] for j in idx]
    mon.book('reorder', p, 'agree' if same_list(got, exp) else 'disagree', 'order_by chained on an ordered query', exp, got, nontrivial=nt)


def check_iter_limited(mon, base, form, chain0, R, raw_R, rng, gen, schema, nt, sz):
    qdiff, env, ctx = mon.qdiff, mon.env, mon.ctx
    n = len(R)
    body, names = make_pred_text(base, rng, gen, schema)
    if ' if ' in body and ' else ' in body: body = None
    pred = eval_pred(qdiff, env, base, 'lambda x: ' + body, raw_R, ['x']) if body else None
    combos = [(l, o) for l in range(0, n + 2) for o in range(0, n + 2)] if n <= 5 else \
        [(rng.randint(0, n + 1), rng.randint(0, n + 1)) for _ in range(12)]
    for lim, off in combos:
        # plain iteration: select(x for x in q.limit(lim, off)) as a list (pony merges the two queries and keeps the order)
        p, got = mon.rows(base, form, chain0 + [['limit', lim, off], ['iter', 'x for x in _Q']], 'iter_limited')
        if got is not None:
            exp = R[off:off + lim]
            ok = same_bag(got, exp)
            mon.book('iter_limited', p, 'agree' if ok else 'disagree', 'select(x for x in q.limit(%d, %d))' % (lim, off), exp, got, nontrivial=nt)
        if pred is not None and (lim + off) % 2 == 0:
            p, got = mon.rows(base, form, chain0 + [['limit', lim, off], ['iter', 'x for x in _Q if ' + body]], 'iter_limited_cond')
            if got is None: continue
            window = list(zip(R, pred))[off:off + lim]
            must = [r for r, (a, b, f) in window if a and b and not f]
            may = [r for r, (a, b, f) in window if a or b or f]
            ok = sub_bag(must, got) and sub_bag(got, may)
            if ok: mon.book('iter_limited_cond', p, 'agree', nontrivial=nt)
            else:
                alt_must = pick(R, pred, 0)[off:off + lim]; alt_may = pick(R, pred, 1)
                if (len(alt_must) == len(pick(R, pred, 1)[off:off + lim]) and same_bag(got, alt_must)) or \
                        (len(pick(R, pred, 0)) != len(alt_may) and sub_bag(got, alt_may) and len(got) <= lim):
                    mon.book('iter_limited_cond', p, 'known', 'the condition of the outer query is applied BEFORE the limit of the iterated query',
                             must, got, 'filter_before_limit')
                else:
                    mon.book('iter_limited_cond', p, 'disagree', 'select(x for x in q.limit(%d, %d) if %s)' % (lim, off, body), must, got)
    # nested limits: select(x for x in q.limit(l1, o1))[a:b] -- all 4-tuples on small results
    if n <= 4 and n >= 2 and ctx.counters.get('nested_bases', 0) < sz['nested']:
        ctx.count('nested_bases')
        for l1 in range(0, n + 2):
            for o1 in range(0, n + 2):
                for a in range(0, n + 2):
                    for b in range(0, n + 2):
                        p, got = mon.rows(base, form, chain0 + [['limit', l1, o1], ['iter', 'x for x in _Q'], ['slice', a, b]], 'nested_limit')
                        if got is None: continue
                        exp = R[o1:o1 + l1][a:b]
                        mon.book('nested_limit', p, 'agree' if same_list(got, exp) else 'disagree',
                                 'select(x for x in q.limit(%d,%d))[%d:%d]' % (l1, o1, a, b), exp, got, nontrivial=nt)


def check_delete(mon, base, form, chain0, U, rng, nt):
    qdiff, env, ctx = mon.qdiff, mon.env, mon.ctx
    root = env.schema.ents[base.ent].root
    table = env.ns[root]._table_
    table = table if isinstance(table, str) else table[-1]
    for bulk in (True, False):
        for pre in ([], chain0):
            state = {}
            def in_session(res, state=state):
                state['after'] = sorted(r for r in env.db.select('select id from "%s"' % table))
            p = qdiff.Program(base.src, base.params, form, pre + [['delete', bulk]], base.lam if form == 'lam' else None, base.prods)
            with env.orm.db_session:
                before = sorted(env.db.select('select id from "%s"' % table))
            res = qdiff.run_program(env, p, in_session=in_session)
            if res.kind == 'raised':
                ctx.count('method.delete.pony_raised'); ctx.count('raised.' + res.exc)
                ctx.count('outcome.db_error' if res.db_error else 'outcome.pony_raised'); continue
            selected = sorted({r[2] for r in U})
            exp_after = [i for i in before if i not in set(selected)]
            ok = state.get('after') == exp_after
            ctx.count('delete.return_value.' + ('rows_selected' if res.value == len(selected) else 'other'))
            exp_d, got_d = {'remaining': exp_after, 'returned': len(selected)}, {'remaining': state.get('after'), 'returned': res.value}
            if ok: mon.book('delete_bulk' if bulk else 'delete', p, 'agree', nontrivial=nt)
            elif bulk and bulk_delete_having_shape(qdiff, env, base) and set(state.get('after') or []) <= set(exp_after):
                mon.book('delete_bulk', p, 'known', 'the DELETE ... WHERE pk IN (subquery) form omits the HAVING conditions of a '
                         'collection-aggregate condition: more rows are deleted than the query selects', exp_d, got_d, 'bulk_delete_having')
            elif bulk and bulk_delete_alias_shape(base.src):
                mon.book('delete_bulk', p, 'known', 'DELETE is built with table aliases suppressed: a correlated subquery in the '
                         'condition then compares a table with itself', exp_d, got_d, 'bulk_delete_aliases')
            else: mon.book('delete_bulk' if bulk else 'delete', p, 'disagree', 'delete(bulk=%s): remaining pks' % bulk, exp_d, got_d)
            with env.orm.db_session:
                now = sorted(env.db.select('select id from "%s"' % table))
            if now != before:
                ctx.violation({'program': p.to_json(), 'detail': 'delete was not rolled back by the harness'}, mechanism='harness')
                env.load(env.data, env.data_id)


def check_delete_new_param(mon, rng):
    """Queries parameterised with an object CREATED IN THE SAME SESSION (auto primary key, not flushed yet): delete(bulk=..)
    must remove exactly the rows the query selects -- the new rows that reference the new object -- and nothing else."""
    qdiff, env, ctx = mon.qdiff, mon.env, mon.ctx
    schema, orm, ns = env.schema, env.orm, env.ns
    data = qdiff.dec(env.data)
    def kwargs(row, over):
        e = schema.ents[row['_cls']]
        kw = {}
        for a in e.attrs.values():
            if a.name in over or a.kind == 'pk': continue
            if a.is_scalar:
                if row.get(a.name) is not None: kw[a.name] = row[a.name]
            elif a.is_ref and a.kind == 'req' and not a.reverse.is_ref and row.get(a.name) is not None:
                kw[a.name] = ns[schema.ents[a.typ].root][row[a.name]]
        kw.update(over)
        return kw
    pairs = [(e.name, a.name, a.typ) for e in schema.roots() for a in e.own_attrs
             if a.is_ref and not a.reverse.is_ref and not schema.pk_composite(a.typ)]
    for E, attr, T in pairs:
        if not data.get(E) or not data.get(schema.ents[T].root): continue
        ent = ns[E]
        cols = ', '.join('"%s"' % c for c in ent._pk_columns_)
        sql = 'select %s from "%s"' % (cols, ent._table_)
        for form, text in (('gen', 'def _f(t): return select(x for x in %s if x.%s == t)' % (E, attr)),
                           ('lam', 'def _f(t): return %s.select(lambda x: x.%s == t)' % (E, attr)),
                           ('str', 'def _f(t): return select(%r, _G, {"t": t})' % ('x for x in %s if x.%s == t' % (E, attr)))):
            loc = {}
            exec(compile(text, '<c24 delete battery>', 'exec'), ns, loc)
            for bulk in (True, False):
                for flushed in (False, True, 'rows_after_query'):
                    p = qdiff.Program('x for x in %s if x.%s == t' % (E, attr), {}, form,
                                      [['new_param', T, str(flushed)], ['delete', bulk]], {'ent': E, 'var': 'x', 'cond': 'x.%s == t' % attr})
                    try:
                        with orm.db_session:
                            existing = sorted(env.db.select(sql), key=repr)
                            trow = rng.choice(data[schema.ents[T].root])
                            t = ns[trow['_cls']](**kwargs(trow, {}))
                            k = rng.randint(1, 3)
                            q_early = loc['_f'](t) if flushed == 'rows_after_query' else None    # query built before the rows exist
                            for i in range(k):
                                erow = rng.choice(data[E])
                                over = {attr: t}
                                if schema.pk_composite(E):
                                    for pkn in schema.pk(E):
                                        a = schema.ents[E].attrs[pkn]
                                        if pkn != attr: over[pkn] = ('zz%d' % i) if a.typ == 'str' else 900 + i
                                ns[erow['_cls']](**kwargs(erow, over))
                            if flushed is True: orm.flush()
                            n = (q_early or loc['_f'](t)).delete(bulk=bulk)
                            after = sorted(env.db.select(sql), key=repr)
                            orm.rollback()
                    except Exception as e:
                        ctx.count('method.delete_new_param.pony_raised'); ctx.count('raised.' + type(e).__name__); ctx.count('outcome.pony_raised')
                        continue
                    extra = [r for r in after if r not in existing]
                    ok = all(r in after for r in existing) and len(extra) == (1 if schema.ents[T].root == schema.ents[E].root else 0)
                    ctx.count('delete_new_param.return_value.' + ('rows_selected' if n == k else 'other'))
                    mon.book('delete_new_param', p, 'agree' if ok else 'disagree',
                             'delete(bulk=%s) of a query parameterised with a %s new %s object: %d new %s rows reference it'
                             % (bulk, {True: 'flushed', False: 'NOT yet flushed', 'rows_after_query': 'new (query built before the referencing rows were created)'}[flushed], T, k, E),
                             {'remaining_rows': len(existing)}, {'remaining_rows': len(after), 'returned': n})


def bulk_delete_having_shape(qdiff, env, base):
    """The condition aggregates a collection path that pony turns into LEFT JOIN + GROUP BY + HAVING."""
    import ast
    it = qdiff.Interp(env.mirror, base.params)
    tree = qdiff.parse_src(base.src)
    it.tenv = {}; it.bind_static(tree.generators)
    try: rew = qdiff.aggr_opt_rewrite(it, tree)
    except qdiff.Unsupported: return False
    if rew is None: return False
    return any(it.has_qaggr(c) for g in rew[0].generators for c in g.ifs)


def bulk_delete_alias_shape(src):
    """Single-loop query (DELETE FROM t WHERE ..., aliases suppressed) whose condition contains a nested query."""
    import ast
    tree = ast.parse('(' + src + ')', mode='eval').body
    if len(tree.generators) != 1: return False
    for c in tree.generators[0].ifs:
        for n in ast.walk(c):
            if isinstance(n, (ast.GeneratorExp, ast.Lambda)): return True
    return False


def run(ctx):
    from vlib import qdiff
    sz = SIZES[ctx.tier]
    env = qdiff.get_env('S1')
    schema = env.schema
    rng = ctx.rng
    gen = qdiff.ProgramGen(schema, rng, max_depth=2, exclude=('ifexp',))
    mon = Monitor(ctx, env, qdiff)
    mon.pred_exclude = {'ifexp', 'div', 'strip0', 'slice', 'fstring'}
    forms = ['gen', 'str', 'lam']
    for ds in range(sz['datasets']):
        data = qdiff.gen_data(schema, rng, flavor=rng.choice(['mixed', 'dense', 'mixed']))
        env.load(data, 'D%d.%d.%d' % (ctx.seed, ctx.shard, ds))
        ctx.count('datasets')
        check_delete_new_param(mon, rng)
        for k in range(sz['bases']):
            base = gen_base(gen, rng, schema, small=(k == 0 and ds < sz['nested']))
            if qdiff.lint_program(base.src) is not None or qdiff.has_ifexp(qdiff.Program(base.src)): continue
            form = forms[(k + ds) % 3]
            if form == 'lam' and base.lam is None: form = 'gen'
            try: check_base(mon, base, form, rng, sz, schema, gen)
            except (qdiff.Unsupported, qdiff.NoReference) as e:
                ctx.count('outcome.unsupported'); ctx.count('unsupported.' + str(e)[:40])
    ctx.extra['executed_on'] = ['sqlite']
    for m in ('slice', 'limit', 'page', 'first', 'get', 'exists', 'count', 'sum', 'min', 'max', 'avg', 'group_concat', 'distinct',
              'without_distinct', 'random', 'filter', 'where', 'reorder', 'iter_limited', 'delete', 'delete_bulk', 'order_permutes'):
        ctx.floor('method.%s.agree' % m, 5)
    ctx.floor('method.slice.agree', 1000)
    ctx.floor('method.limit.agree', 1000)
    ctx.floor('method.nested_limit.agree', 300)
    ctx.floor('method.result_access.agree', 1500)
    ctx.floor('method.delete_new_param.agree', 40)
    for first in ('idx', 'slice', 'slice2', 'len', 'next', 'list', 'reversed'):
        ctx.floor('result_access.first_%s.agree' % first, 50)


def replay(ctx, witness):
    from vlib import qdiff
    env = qdiff.get_env('S1')
    env.load(witness['data'], 'replay')
    p = qdiff.Program.from_json(witness['program'])
    res = qdiff.run_program(env, p)
    print('replay: method', witness.get('method'), 'detail', witness.get('detail'))
    print('  expected', witness.get('expected')); print('  now     ', res.summary())
    got = qdiff.enc([qdiff.canon(r) for r in res.rows]) if res.kind == 'rows' else qdiff.enc(qdiff.canon(res.value)) if res.kind == 'scalar' else None
    if witness.get('got') is not None and json_eq(got, witness['got']):
        ctx.violation(witness, mechanism='replayed-same-result')


def json_eq(a, b):
    import json
    return json.dumps(a, sort_keys=True, default=repr) == json.dumps(b, sort_keys=True, default=repr)

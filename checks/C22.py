"""C22 — concurrent threads do not interfere through shared process state.

Engine E4 (vlib/sched.py) at LINE granularity inside the shared-cache code (sys.monitoring LINE events on the code
objects of Query._get_translator, Query._construct_sql_and_arguments, create_extractors, decompile, string2ast,
adapt_sql, parse_raw_sql, get_lambda_args, Database._update_local_stat, merge_local_stats, plus Query.__init__,
_process_lambda, _order_by, _apply_kwargs, extract_vars), statement granularity at the DB-API boundary and lock
waits as scheduler states.  2-3 worker threads run query programs on ONE Database (file-backed SQLite: one
connection per thread).

Oracle 1 (solo equivalence): every step outcome (canonical result or exception class) of a thread in the
concurrent run equals the outcome of the same step when the thread's program runs ALONE on the same data (solo run
with cold caches and solo run with warm caches must agree with each other first, else the step is not judged).
Oracle 2 (statistics): per-SQL db_count added to Database.global_stats by the concurrent run equals the sum of
the solo runs.
Oracle 3 (cross-thread object use): while thread A's session is alive, thread B (inside its own session) loading
an unloaded attribute / lazy attribute / collection of A's object, or mixing A's object into its own session,
must raise (pony: TransactionError); A's view of its objects is unchanged afterwards.
"""
import os, sys, shutil, types, traceback

META = {
    'level': 'exploration',
    'engine': 'E4+E3',
    'technique': 'deterministic thread scheduler (sys.monitoring LINE yield points in shared-cache code, DB-API '
                 'statements, lock waits) + solo-run equivalence oracle per thread + cross-thread-use-must-raise',
    'level_text': 'Runtime monitoring of the real code under seeded, replayable thread schedules: every schedule '
                  'serialises 2-3 threads with preemption only at source lines of the cache-accessing functions, at '
                  'DB-API calls and at lock waits; each thread must observe exactly what it observes alone. This '
                  'explores interleavings at the cache access points the property quantifies over; it is sampling, '
                  'not exhaustive.',
    'level_note': 'Trusted: CPython switches threads only between bytecodes, so a switch between two source lines of '
                  'the instrumented functions is a legal preemption; preemption inside other functions (translator '
                  'construction, dict internals) is not explored. SQLite only; one process.',
    'rule': 'case = (workload shape, parameter instance, schedule); schedules are distinct by the hash of the full '
            '(thread, yield point) trace; non-trivial = at least two thread switches while more than one thread was '
            'unfinished. Workload shapes: slice bounds, getattr names, parameter type changes, identical query '
            'strings, raw SQL $params, first use of entities, lambda args, chained filters/order_by/kwargs, '
            'aggregates+limits, hybrid methods, private-row writes, 3-thread mixes, baked-in parameters (getattr name, '
            'slice bound) inside NESTED generators with a thread-constant value per thread, cross-thread object use '
            'from a session that already worked with the database (warm) and as the very first action of a new '
            'session (fresh).',
    'assumptions': ['SQLite file database, threads of one process (PostgreSQL/MySQL pools not executed)',
                    'preemption points are source lines of the listed cache functions, DB-API calls, lock waits and '
                    'step boundaries; finer (bytecode-level) or other-function preemptions are not explored',
                    'cross-thread use is judged for: unloaded/lazy attribute load, Entity.load(), collection '
                    'iteration/len/contains/is_empty (each loads into the owner session), assigning/adding/'
                    'creating-with a foreign object, kwargs filter with a foreign object; reading already loaded '
                    'values, count(), a foreign object as query parameter and writing an attribute of a foreign '
                    'object are recorded but not judged'],
    'shims': [],
    'exhaustive_tiers': [],
}
SHARDS = {'quick': 1, 'thorough': 16}
SHARD_TIMEOUT = {'quick': 300, 'thorough': 1500}

F_DEL = 'C22-TRANSLATOR-CACHE-DEL-KEYERROR'
F_HYB = 'C22-HYBRID-METHOD-TRANSLATED-WITH-ANOTHER-METHODS-AST'
F_LAZY = 'C22-XTHREAD-LAZY-ATTR-LOAD-NO-ERROR'
F_ISEMPTY = 'C22-XTHREAD-SET-IS-EMPTY-NO-ERROR'

NAMES = ['alice', 'bob', 'carol', 'dave', 'erin', 'frank', 'grace', 'heidi']
AGES = [21, 35, None, 48, 35, 62, 19, None]

po = None          # pony.orm, set in _init()
core = None


def _init():
    global po, core
    import pony.orm as _po
    from pony.orm import core as _core
    po, core = _po, _core


# ---------------------------------------------------------------------------------------------------------
# model + data
# ---------------------------------------------------------------------------------------------------------

def make_db(path, factory, create=False):
    db = po.Database()

    class Dept(db.Entity):
        id = po.PrimaryKey(int)
        title = po.Required(str)
        staff = po.Set('Person')

    class Person(db.Entity):
        id = po.PrimaryKey(int)
        name = po.Required(str)
        age = po.Optional(int)
        score = po.Optional(float)
        bio = po.Optional(str, lazy=True)
        owner = po.Required(int, default=0)
        dept = po.Optional(Dept)
        tags = po.Set('Tag')

        def older(self, n):
            return self.age > n

        @property
        def shout(self):
            return self.name.upper()

    class Tag(db.Entity):
        id = po.PrimaryKey(int)
        label = po.Required(str)
        people = po.Set(Person)

    # timeout=0: SQLITE_BUSY is answered at once; the factory turns it into a scheduler state (vlib.sched 'busy')
    db.bind('sqlite', path, create_db=create, timeout=0, factory=factory)
    db.generate_mapping(create_tables=create, check_tables=False)
    E = types.SimpleNamespace(db=db, Person=Person, Dept=Dept, Tag=Tag)
    return E


def fill(E):
    with po.db_session:
        d = [E.Dept(id=1, title='dev'), E.Dept(id=2, title='ops')]
        t = [E.Tag(id=i, label='t%d' % i) for i in (1, 2, 3)]
        for i, (n, a) in enumerate(zip(NAMES, AGES), 1):
            p = E.Person(id=i, name=n, age=a, score=i * 1.5, bio='bio of ' + n, owner=0,
                         dept=d[i % 2] if i % 3 else None)
            for k in (0, 1, 2):
                if (i + k) % 3 == 0: p.tags.add(t[k])
        for tid in (1, 2, 3):      # two private rows per thread, in a private department: nothing a thread reads
            pd = E.Dept(id=10 + tid, title='private%d' % tid)      # may depend on what other threads commit
            for k in (1, 2):
                E.Person(id=100 * tid + k, name='own%d_%d' % (tid, k), age=10 * tid + k, owner=tid, dept=pd)
    E.db.disconnect()


def clear_caches(E):
    from pony.orm import asttranslation, decompiling, ormtypes
    from pony.utils import utils
    db = E.db
    for d in (db._translator_cache, db._constructed_sql_cache, db._insert_cache, core.string2ast_cache,
              core.adapted_sql_cache, decompiling.ast_cache, asttranslation.extractors_cache,
              ormtypes.raw_sql_cache, utils.lambda_args_cache):
        d.clear()
    for ent in db.entities.values():
        for n in ('_find_sql_cache_', '_load_sql_cache_', '_batchload_sql_cache_', '_insert_sql_cache_',
                  '_update_sql_cache_', '_delete_sql_cache_'):
            getattr(ent, n).clear()
        ent._cached_max_id_sql_ = None
        for attr in ent._attrs_:
            attr.lazy_sql_cache = None
            if attr.is_collection:
                attr.cached_load_sql.clear()
                attr.cached_add_m2m_sql = attr.cached_remove_m2m_sql = None
                attr.cached_count_sql = attr.cached_empty_sql = None


# ---------------------------------------------------------------------------------------------------------
# canonical outcomes
# ---------------------------------------------------------------------------------------------------------

def canon(v, depth=0):
    if depth > 6: return repr(v)
    if v is None or isinstance(v, (bool, int, str)): return v
    if isinstance(v, float): return round(v, 9)
    if isinstance(v, core.Entity): return ['E', type(v).__name__, v._pkval_]
    if isinstance(v, dict): return {str(k): canon(x, depth + 1) for k, x in sorted(v.items(), key=repr)}
    if isinstance(v, (set, frozenset)): return sorted((canon(x, depth + 1) for x in v), key=repr)
    if isinstance(v, (list, tuple)) or hasattr(v, '__iter__'): return [canon(x, depth + 1) for x in v]
    return repr(v)


_DEL_OFFSETS = {}


def is_del_keyerror(e):
    """KeyError raised by the statement `del database._translator_cache[query_key]` in Query._get_translator:
    innermost frame is that function and the failing instruction is its DELETE_SUBSCR (decided on the loaded
    bytecode, not on the source file, which may be edited while the check runs)."""
    if type(e) is not KeyError: return False
    tb = e.__traceback__
    last = None
    while tb is not None: last = tb; tb = tb.tb_next
    if last is None: return False
    code = last.tb_frame.f_code
    if code is not core.Query._get_translator.__code__: return False
    offs = _DEL_OFFSETS.get(code)
    if offs is None:
        import dis
        offs = _DEL_OFFSETS[code] = {i.offset for i in dis.get_instructions(code) if i.opname == 'DELETE_SUBSCR'}
    return last.tb_lasti in offs


class Env(object):
    def __init__(self, E, tid, shared, w):
        self.E, self.db, self.tid, self.shared, self.w = E, E.db, tid, shared, w
        self.v = {}


def run_step(label, fn, env, sched_mod):
    try:
        return [label, 'ok', canon(fn(env))]
    except sched_mod.ScheduleAbort:
        raise
    except Exception as e:
        return [label, 'exc', type(e).__name__,
                {'del_keyerror': is_del_keyerror(e), 'tb': traceback.format_exc(limit=-4)[-700:]}]


class NoSession(object):
    def __init__(self, steps): self.steps = steps


def make_runner(prog, E, tid, shared, sched_mod):
    def run(w):
        env = Env(E, tid, shared, w)
        out = []
        first = True
        for sess in prog:
            try:
                if isinstance(sess, NoSession):          # steps that open their own db_sessions
                    for label, fn in sess.steps:
                        if not first: w.op_yield()
                        first = False
                        out.append(run_step(label, fn, env, sched_mod))
                else:
                    with po.db_session:
                        for label, fn in sess:
                            if not first: w.op_yield()
                            first = False
                            out.append(run_step(label, fn, env, sched_mod))
                out.append(['session-exit', 'ok', None])
            except sched_mod.ScheduleAbort:
                raise
            except Exception as e:
                out.append(['session-exit', 'exc', type(e).__name__, {'tb': traceback.format_exc(limit=-4)[-700:]}])
        try: E.db.merge_local_stats()
        except sched_mod.ScheduleAbort: raise
        except Exception as e: out.append(['merge_local_stats', 'exc', type(e).__name__, {}])
        return out
    return run


# ---------------------------------------------------------------------------------------------------------
# step factories — every factory yields closures over ONE code object, so all threads share its cache keys
# ---------------------------------------------------------------------------------------------------------

def st_slice(n):
    def f(env):
        P = env.E.Person
        return sorted(po.select(p.name[:n] for p in P if p.owner == 0))
    return ('name[:%r]' % (n,), f)

def st_slice2(a, b):
    def f(env):
        P = env.E.Person
        return sorted(po.select((p.id, p.name[a:b]) for p in P if p.owner == 0))
    return ('name[%r:%r]' % (a, b), f)

def st_index(i):
    def f(env):
        P = env.E.Person
        return sorted(po.select((p.id, p.name[i]) for p in P if p.owner == 0 and p.id < 5))
    return ('name[%r]' % (i,), f)

def st_getattr(a):
    def f(env):
        P = env.E.Person
        return sorted(po.select(getattr(p, a) for p in P if p.owner == 0), key=repr)
    return ('getattr(%r)' % (a,), f)

def st_getattr_filter(a, x):
    def f(env):
        P = env.E.Person
        return sorted(po.select(p.id for p in P if getattr(p, a) == x and p.owner == 0))
    return ('getattr(%r)==%r' % (a, x), f)

def st_slice_getattr(n, a):
    def f(env):
        P = env.E.Person
        return sorted(po.select((p.name[:n], getattr(p, a)) for p in P if p.owner == 0), key=repr)
    return ('(name[:%r], getattr(%r))' % (n, a), f)

def st_age_eq(x):
    def f(env):
        P = env.E.Person
        return sorted(po.select(p.id for p in P if p.age == x and p.owner == 0))
    return ('age==%r' % (x,), f)

def st_name_eq(x):
    def f(env):
        P = env.E.Person
        return sorted(po.select(p.id for p in P if p.name == x))
    return ('name==%r' % (x,), f)

def st_id_in(xs):
    def f(env):
        P = env.E.Person
        return sorted(po.select(p.name for p in P if p.id in xs))
    return ('id in %r' % (xs,), f)

def st_dept_eq(did):
    def f(env):
        P, D = env.E.Person, env.E.Dept
        d = D[did] if did is not None else None
        return sorted(po.select(p.id for p in P if p.dept == d and p.owner == 0))
    return ('dept==Dept[%r]' % (did,), f)

def st_str_select(x):
    def f(env):
        P = env.E.Person; x_ = x
        return sorted(po.select("p.id for p in P if p.age > x_ and p.owner == 0"))
    return ('str:age>%r' % (x,), f)

def st_str_lambda(x, y):
    def f(env):
        P = env.E.Person; lo = x; hi = y
        q = P.select("lambda p: p.age > lo and p.owner == 0").filter("lambda p: p.age < hi").order_by("p.name")
        return [p.id for p in q]
    return ('str-lambda:%r<age<%r' % (x, y), f)

def st_str_exists(x):
    def f(env):
        P = env.E.Person; x_ = x
        return [po.exists("p for p in P if p.age > x_"), po.count("p for p in P if p.age > x_ and p.owner == 0")]
    return ('str-exists:age>%r' % (x,), f)

def st_str_slice(n):
    def f(env):
        P = env.E.Person; k = n
        return sorted(po.select("p.name[:k] for p in P if p.owner == 0"))
    return ('str:name[:%r]' % (n,), f)

def st_str_variant(k):
    # the query TEXT differs per thread only far from its beginning (a cache keyed by less than the text would
    # serve one thread the other thread's tree)
    text = "p.id for p in P if p.owner == 0 and p.age is not None and p.id != %d" % k
    def f(env):
        P = env.E.Person
        return sorted(po.select(text))
    return ('str-variant:%r' % (k,), f)

def st_raw_variant(k):
    text = "name from Person where owner = 0 and age > $lo and id <> %d order by id" % k
    def f(env):
        lo = 20
        return list(env.db.select(text))
    return ('raw-variant:%r' % (k,), f)

def st_raw_select(x):
    def f(env):
        db = env.db; x_ = x
        return list(db.select("name from Person where age > $x_ and owner = 0 order by id"))
    return ('raw:age>%r' % (x,), f)

def st_raw_expr(x):
    def f(env):
        db = env.db; x_ = x; me = env.tid
        return [db.get("count(*) from Person where owner = $me"),
                db.exists("select 1 from Person where age = $(x_ + 1)"),
                list(db.select("id, name from Person where age >= $x_ and owner in (0, $me) order by id"))]
    return ('raw-expr:%r' % (x,), f)

def st_by_sql(x):
    def f(env):
        P = env.E.Person; x_ = x
        objs = P.select_by_sql("select * from Person where age > $x_ and owner = 0")
        one = P.get_by_sql("select id, name, age from Person where id = $(1 + env.tid)")
        return [sorted(o.id for o in objs), one.name]
    return ('by_sql:age>%r' % (x,), f)

def st_raw_fragment(x):
    def f(env):
        P = env.E.Person; x_ = x
        a = sorted(po.select(p.id for p in P if po.raw_sql("p.age > $x_") and p.owner == 0))
        b = sorted(po.select(po.raw_sql("upper(p.name)") for p in P if p.age == x_))
        return [a, b]
    return ('raw_sql():%r' % (x,), f)

def st_execute(x):
    def f(env):
        x_ = x
        return env.db.execute("select id from Person where age < $x_ and owner = 0 order by id").fetchall()
    return ('execute:age<%r' % (x,), f)

def st_lambda(x, y):
    def f(env):
        P = env.E.Person
        q = P.select(lambda p: p.age > x and p.owner == 0).filter(lambda p: p.age < y)
        return [p.id for p in q.order_by(lambda p: (p.age, p.id))]
    return ('lambda:%r<age<%r' % (x, y), f)

def st_where(s):
    def f(env):
        P = env.E.Person
        q = po.select(p for p in P if p.owner == 0).where(lambda p: p.name.startswith(s))
        return sorted(p.name for p in q)
    return ('where:startswith(%r)' % (s,), f)

def st_lambda_slice(n, s):
    def f(env):
        P = env.E.Person
        return sorted(p.id for p in P.select(lambda p: p.name[:n] == s))
    return ('lambda:name[:%r]==%r' % (n, s), f)

def st_kwargs(x):
    def f(env):
        P = env.E.Person
        q = P.select(owner=0).filter(age=x).order_by(P.name)
        return [p.id for p in q]
    return ('kwargs:age=%r' % (x,), f)

def st_order(descending, n):
    def f(env):
        P = env.E.Person
        q = po.select(p for p in P if p.owner == 0)
        q = q.order_by(po.desc(P.age), P.id) if descending else q.order_by(P.age, P.id)
        return [p.id for p in q[:n]]
    return ('order(desc=%r)[:%r]' % (descending, n), f)

def st_order_num(n):
    def f(env):
        P = env.E.Person
        q = po.select((p.name, p.age) for p in P if p.owner == 0 and p.age is not None).order_by(n)
        return list(q)
    return ('order_by(%r)' % (n,), f)

def st_without_order(k):
    def f(env):
        P = env.E.Person
        q = po.select(p for p in P if p.owner == 0 and p.id <= k).order_by(P.name).order_by(None)
        return sorted(p.id for p in q)
    return ('order_by(None):%r' % (k,), f)

def st_aggr(x):
    def f(env):
        P = env.E.Person
        q = po.select(p.age for p in P if p.owner == 0 and p.age > x)
        return [q.count(), q.sum(), q.min(), q.max(), q.avg(), po.select(p for p in P if p.age > x).exists()]
    return ('aggr:age>%r' % (x,), f)

def st_limit(a, b):
    def f(env):
        P = env.E.Person
        q = po.select(p for p in P if p.owner == 0).order_by(P.id)
        return [[p.id for p in q[a:b]], [p.id for p in q.page(a + 1, 3)], q.first().id]
    return ('limit[%r:%r]' % (a, b), f)

def st_count_fn(x):
    def f(env):
        P = env.E.Person
        return [po.count(p for p in P if p.age > x), po.max(p.age for p in P if p.owner == 0 and p.age < x + 30),
                po.select(po.count(p.id) for p in P if p.dept is not None and p.age > x).first()]
    return ('count():%r' % (x,), f)

def st_hybrid(x):
    def f(env):
        P = env.E.Person
        return [sorted(po.select(p.id for p in P if p.older(x) and p.owner == 0)),
                sorted(po.select(p.shout for p in P if p.owner == 0 and p.age > x))]
    return ('hybrid:older(%r)' % (x,), f)

def st_nested_getattr(a, v):
    def f(env):
        D = env.E.Dept
        return sorted(po.select(d.id for d in D if po.exists(p for p in d.staff if getattr(p, a) == v and p.owner == 0)))
    return ('nested-getattr(%r)==%r' % (a, v), f)

def st_nested_getattr2(a, b, v):
    def f(env):
        D = env.E.Dept
        q = po.select(getattr(d, b) for d in D if d.id < 10 and po.count(p for p in d.staff if getattr(p, a) >= v and p.owner == 0) > 0)
        return sorted(q, key=repr)
    return ('getattr(%r) where count(nested getattr(%r)>=%r)' % (b, a, v), f)

def st_nested_slice(n, v):
    def f(env):
        D = env.E.Dept
        return sorted(po.select(d.id for d in D if po.exists(p for p in d.staff if p.name[:n] == v)))
    return ('nested-name[:%r]==%r' % (n, v), f)

def st_pk(i):
    def f(env):
        P = env.E.Person
        p = P[i]
        return [p.name, p.age, p.dept.title if p.dept else None]
    return ('Person[%r]' % (i,), f)

def st_get(n):
    def f(env):
        P = env.E.Person
        p = P.get(name=n)
        return [p and p.id, P.exists(name=n, owner=0), P.get(age=None, name=n) is not None]
    return ('get(name=%r)' % (n,), f)

def st_lazy(i):
    def f(env):
        P = env.E.Person
        p = P[i]
        return [p.bio, sorted(t.id for t in p.tags), len(p.tags)]
    return ('lazy+coll:%r' % (i,), f)

def st_coll(did):
    def f(env):
        D = env.E.Dept
        d = D[did]
        return [sorted(p.id for p in d.staff if p.owner == 0), d.staff.count() > 0,
                sorted(po.select(p.name for p in d.staff if p.owner == 0))]
    return ('Dept[%r].staff' % (did,), f)

def st_prefetch(x):
    def f(env):
        P = env.E.Person
        objs = po.select(p for p in P if p.owner == 0 and p.id > x).prefetch(P.tags, P.dept, P.bio)[:]
        return sorted((p.id, p.bio, p.dept and p.dept.title, sorted(t.label for t in p.tags)) for p in objs)
    return ('prefetch:id>%r' % (x,), f)

def st_load(i):
    def f(env):
        P, T = env.E.Person, env.E.Tag
        t = T[1 + i % 3]
        ps = sorted(t.people, key=lambda p: p.id)
        for p in ps: p.load()
        return [(p.id, p.name) for p in ps if p.owner == 0]
    return ('Tag.people+load:%r' % (i,), f)

def st_own_create(k):
    def f(env):
        P, D = env.E.Person, env.E.Dept
        p = P(id=100 * env.tid + 10 + k, name='new%d_%d' % (env.tid, k), age=k, owner=env.tid, dept=D[10 + env.tid])
        po.flush()
        me = env.tid
        return [p.id, po.count(q for q in P if q.owner == me)]
    return ('own-create:%r' % (k,), f)

def st_own_update(k):
    def f(env):
        P = env.E.Person
        p = P[100 * env.tid + 1]
        p.age = (p.age or 0) + k
        p.name = p.name + 'x'
        po.commit()
        me = env.tid
        return [p.age, sorted(po.select((q.name, q.age) for q in P if q.owner == me))]
    return ('own-update:%r' % (k,), f)

def st_own_delete(k):
    def f(env):
        P = env.E.Person
        me = env.tid
        p = P.get(id=100 * me + 2)
        if p is not None: p.delete()
        n = po.delete(q for q in P if q.owner == me and q.id >= 100 * me + 10 + k)
        return [p is not None, n, po.count(q for q in P if q.owner == me)]
    return ('own-delete:%r' % (k,), f)

def st_own_insert(k):
    def f(env):
        me = env.tid
        env.db.insert('Person', id=100 * me + 50 + k, name='ins%d' % k, owner=me, bio='')
        return env.db.select("id from Person where owner = $me order by id")
    return ('own-insert:%r' % (k,), f)


# ---------------------------------------------------------------------------------------------------------
# cross-thread use (oracle 3)
# ---------------------------------------------------------------------------------------------------------

JUDGED_USES = ('seed_attr_load', 'lazy_attr_load', 'obj_load', 'coll_iter', 'coll_len', 'coll_contains',
               'coll_is_empty',      # Set.is_empty() on a not-loaded collection loads one item INTO the owner's session
               'assign_ref', 'create_with_ref', 'coll_add_foreign', 'foreign_coll_add_mine', 'kwargs_filter')
UNJUDGED_USES = ('loaded_attr_read', 'coll_count', 'foreign_attr_assign', 'genexpr_param')


FRESH_CAPABLE = ('seed_attr_load', 'lazy_attr_load', 'obj_load', 'coll_iter', 'coll_len', 'coll_is_empty', 'kwargs_filter',
                 'create_with_ref')


def use_fn(kind, env, sh, fresh=False):
    """One use of thread A's objects by thread B.  The `fresh` variants are the first thing B's db_session does
    (they work on a second set of A's objects so that the two variants do not see each other's traces)."""
    P, T, D = env.E.Person, env.E.Tag, env.E.Dept
    pA, seed = (sh['p2'], sh['seed2']) if fresh else (sh['p'], sh['seed'])
    if kind == 'seed_attr_load': return lambda: seed.title
    if kind == 'lazy_attr_load': return lambda: pA.bio
    if kind == 'obj_load': return lambda: (sh['p3'] if fresh else sh['p2']).load()
    if kind == 'coll_iter': return lambda: list(pA.tags)
    if kind == 'coll_len': return lambda: len(seed.staff)
    if kind == 'coll_contains': return lambda: T[1] in pA.tags
    if kind == 'assign_ref': return lambda: setattr(P[100 * env.tid + 1], 'dept', seed)
    if kind == 'create_with_ref': return lambda: P(id=100 * env.tid + 77, name='mix', owner=env.tid, dept=seed)
    if kind == 'coll_add_foreign': return lambda: T[2].people.add(pA)
    if kind == 'foreign_coll_add_mine': return lambda: seed.staff.add(P[100 * env.tid + 1])
    if kind == 'kwargs_filter': return lambda: P.select(dept=seed)[:]
    if kind == 'loaded_attr_read': return lambda: pA.name
    if kind == 'coll_count': return lambda: pA.tags.count()
    if kind == 'coll_is_empty': return lambda: pA.tags.is_empty()
    if kind == 'foreign_attr_assign': return lambda: setattr(sh['p3'], 'age', 99)
    if kind == 'genexpr_param': return lambda: po.select(x for x in P if x.dept == seed)[:]
    raise KeyError(kind)


def st_x_publish(ids):
    def f(env):
        P = env.E.Person
        sh = env.shared
        try:
            p, p2, p3 = P[ids[0]], P[ids[1]], P[ids[2]]
            seed = p.dept
            snap = [p.name, p.age, p2.name, p2.age, seed is not None and 'title' in {a.name for a in seed._vals_}]
            sh.update(p=p, p2=p2, p3=p3, seed=seed, seed2=p2.dept)
        finally:
            sh['published'] = True
        env.w.wait_for(lambda: sh.get('used') or sh.get('b_failed'), 'B-used')
        return [snap, [p.name, p.age, p2.name, p2.age, 'title' in {a.name for a in seed._vals_}],
                [seed.title, sorted(t.id for t in p.tags)]]
    return ('x-publish%r' % (ids,), f)


def st_rollback():
    def f(env):
        po.rollback()
    return ('rollback', f)


def st_x_use(kinds):
    def f(env):
        sh = env.shared
        res = []
        try:
            env.w.wait_for(lambda: sh.get('published'), 'A-published')
            if 'p' not in sh: return ['A failed']
            for k in kinds:
                kind, _, mode = k.partition(':')
                # every use runs in a db_session of its own: 'fresh' = the use is the very first thing that session
                # does, 'warm' = the session has already worked with the database
                with po.db_session:
                    try:
                        if mode != 'fresh': env.E.Person[100 * env.tid + 1]
                        v = use_fn(kind, env, sh, mode == 'fresh')(); res.append([k, 'ok', canon(v)])
                    except Exception as e: res.append([k, 'exc', type(e).__name__, isinstance(e, core.TransactionError)])
                    po.rollback()
        except BaseException:
            sh['b_failed'] = True
            raise
        finally:
            sh['used'] = True
        sh['uses'] = res
        return res
    return ('x-use', f)


# ---------------------------------------------------------------------------------------------------------
# workload shapes
# ---------------------------------------------------------------------------------------------------------

def _cycle(rng, values, n, t):
    k = len(values)
    return [values[(t + i) % k] for i in range(n)]


def _sessions(rng, steps):
    """Group a flat step list into sessions of 1-3 steps."""
    out = []; i = 0
    while i < len(steps):
        k = rng.choice((1, 1, 2, 3)); out.append(steps[i:i + k]); i += k
    return out


def sh_slice(rng, T):
    vals = rng.choice([[1, 2], [1, 2, 3], [2, None], [1, 'x', 2], [0, 2, 4]])
    reps = rng.randint(3, 5)
    kind = rng.choice(['stop', 'stop', 'both', 'index', 'str'])
    progs = []
    for t in range(T):
        seq = _cycle(rng, vals, reps, t)
        if kind == 'stop': steps = [st_slice(n) for n in seq]
        elif kind == 'both': steps = [st_slice2(n if isinstance(n, int) else 1, 3 + t) for n in seq]
        elif kind == 'index': steps = [st_index(n if isinstance(n, int) else 0) for n in seq]
        else: steps = [st_str_slice(n) for n in seq]
        progs.append(_sessions(rng, steps))
    return progs, {'vals': vals, 'reps': reps, 'kind': kind}


def sh_getattr(rng, T):
    vals = rng.choice([['name', 'age'], ['name', 'age', 'id'], ['age', 'nope', 'name'], ['score', 'owner']])
    reps = rng.randint(3, 5)
    filt = rng.random() < 0.4
    progs = []
    for t in range(T):
        seq = _cycle(rng, vals, reps, t)
        steps = [st_getattr_filter(a, 35 if a in ('age', 'id') else 'bob') if filt and a != 'nope' else st_getattr(a)
                 for a in seq]
        progs.append(_sessions(rng, steps))
    return progs, {'vals': vals, 'reps': reps, 'filter': filt}


def sh_types(rng, T):
    progs = []
    pool = [st_age_eq(35), st_age_eq(None), st_age_eq(62), st_name_eq('bob'), st_name_eq(None), st_name_eq('erin'),
            st_id_in((1, 2)), st_id_in((1, 2, 3)), st_id_in((4,)), st_id_in([5, 6]), st_dept_eq(1), st_dept_eq(None),
            st_dept_eq(2), st_age_eq('35'), st_age_eq(35.0)]
    n = rng.randint(5, 8)
    base = rng.sample(pool, n)
    for t in range(T):
        steps = base[t:] + base[:t]
        progs.append(_sessions(rng, steps))
    return progs, {'n': n, 'labels': [s[0] for s in base]}


def sh_strings(rng, T):
    xs = rng.sample([10, 20, 30, 40, 50], 3)
    progs = []
    for t in range(T):
        steps = []
        for i in range(3):
            x = xs[(t + i) % 3]
            steps += [rng.choice([st_str_select, st_str_exists])(x), st_str_lambda(x, x + 30)]
        steps.append(st_str_slice(1 + t % 2))
        steps.insert(rng.randint(0, 2), st_str_variant(t + 1)); steps.append(st_str_variant(t + 2))
        progs.append(_sessions(rng, steps))
    return progs, {'xs': xs}


def sh_rawsql(rng, T):
    xs = rng.sample([18, 20, 34, 35, 47, 60], 3)
    progs = []
    for t in range(T):
        steps = []
        for i in range(3):
            x = xs[(t + i) % 3]
            steps += rng.sample([st_raw_select(x), st_raw_expr(x), st_by_sql(x), st_raw_fragment(x), st_execute(x)], 3)
        steps.insert(rng.randint(0, 2), st_raw_variant(t + 1)); steps.append(st_raw_variant(t + 2))
        progs.append(_sessions(rng, steps))
    return progs, {'xs': xs}


def sh_firstuse(rng, T):
    progs = []
    for t in range(T):
        steps = [st_pk(1 + (t + i) % 8) for i in range(2)]
        steps += [st_get(NAMES[(t + 2) % 8]), st_lazy(1 + (2 * t) % 8), st_coll(1 + t % 2), st_prefetch(t),
                  st_load(t), st_own_create(1), st_own_update(2), st_own_delete(0)]
        rng.shuffle(steps)
        progs.append(_sessions(rng, steps))
    return progs, {}


def sh_lambdas(rng, T):
    xs = rng.sample([10, 20, 30, 40], 3)
    progs = []
    for t in range(T):
        steps = []
        for i in range(3):
            x = xs[(t + i) % 3]
            steps += [st_lambda(x, x + 25), st_where('abcdefgh'[(t + i) % 8]), st_lambda_slice(1 + (t + i) % 2, 'a' if (t + i) % 2 == 0 else 'bo')]
        progs.append(_sessions(rng, steps))
    return progs, {'xs': xs}


def sh_chains(rng, T):
    progs = []
    for t in range(T):
        steps = []
        for i in range(3):
            steps += [st_kwargs([35, None, 48][(t + i) % 3]), st_order((t + i) % 2 == 0, 2 + (t + i) % 3),
                      st_order_num([1, 2, -1][(t + i) % 3]), st_without_order(3 + (t + i) % 4)]
        progs.append(_sessions(rng, steps))
    return progs, {}


def sh_aggr(rng, T):
    xs = rng.sample([10, 20, 30, 40], 3)
    progs = []
    for t in range(T):
        steps = []
        for i in range(3):
            x = xs[(t + i) % 3]
            steps += [st_aggr(x), st_limit((t + i) % 3, 2 + (t + i) % 4), st_count_fn(x)]
        progs.append(_sessions(rng, steps))
    return progs, {'xs': xs}


def sh_hybrid(rng, T):
    progs = []
    for t in range(T):
        steps = []
        for i in range(3):
            steps += [st_hybrid([20, 35, 47][(t + i) % 3]), st_slice_getattr(1 + (t + i) % 2, ['age', 'name'][(t + i // 2) % 2])]
        progs.append(_sessions(rng, steps))
    return progs, {}


def sh_writes(rng, T):
    progs = []
    for t in range(T):
        steps = [st_own_create(1), st_slice(1 + t % 2), st_own_update(3), st_own_insert(1), st_getattr(['name', 'age'][t % 2]),
                 st_own_create(2), st_own_delete(1), st_slice(2 - t % 2), st_own_update(1)]
        progs.append(_sessions(rng, steps))
    return progs, {}


def sh_mix3(rng, T):
    progs = []
    for t in range(T):
        steps = []
        for i in range(4):
            j = t + i
            steps += [st_slice_getattr(1 + j % 3, ['age', 'name', 'id'][j % 3]), rng.choice([st_slice(1 + j % 2), st_getattr(['name', 'age'][j % 2]), st_str_slice(1 + j % 2)])]
        progs.append(_sessions(rng, steps))
    return progs, {}


def sh_nested(rng, T):
    """A parameter that is baked into the translation sits inside a NESTED generator, and every thread keeps its OWN
    constant value of it (so a translation that is not invalidated serves one thread the other thread's rows)."""
    names = ['age', 'id', 'owner']; rng.shuffle(names)
    vals = rng.sample([35, 2, 0, 21, 5, 48], 4)
    progs = []
    for t in range(T):
        a = names[t % 3]
        steps = []
        for i, v in enumerate(vals):
            steps.append(st_nested_getattr(a, v))
            if i % 2 == 0: steps.append(st_nested_getattr2(a, ['title', 'id'][(t + i // 2) % 2], v))
        steps.append(st_nested_slice(1 + t % 2, ['b', 'bo'][t % 2]))
        steps.append(st_getattr(['name', 'age', 'id'][t % 3]))
        steps.append(st_slice(1 + t))
        rng.shuffle(steps)
        progs.append(_sessions(rng, steps))
    return progs, {'names': names, 'vals': vals}


def sh_cross(rng, T):
    # judged uses first (each needs a load through the foreign object: nothing must have been cached in it by an
    # earlier unjudged use such as count()), then a random subset of the unjudged ones
    kinds = [k + ':warm' for k in JUDGED_USES] + [k + ':fresh' for k in FRESH_CAPABLE]; rng.shuffle(kinds)
    extra = [k + ':warm' for k in rng.sample(UNJUDGED_USES, rng.randint(0, len(UNJUDGED_USES)))]
    kinds += extra
    ids = rng.sample([1, 2, 4, 5, 7, 8], 3)      # persons with a dept
    a = [[st_slice(1)], [st_x_publish(ids), st_getattr('name'), st_rollback()], [st_slice(2)]]
    b = [[st_getattr('age')], [st_slice(2)], NoSession([st_x_use(kinds)]), [st_slice(1), st_getattr('name')]]
    progs = [a, b]
    for t in range(2, T):
        progs.append(_sessions(rng, [st_slice(1 + i % 2) for i in range(4)] + [st_getattr('age')]))
    return progs, {'kinds': kinds, 'ids': ids, 'cross': True}


SHAPES = [('slice', sh_slice), ('getattr', sh_getattr), ('types', sh_types), ('strings', sh_strings),
          ('rawsql', sh_rawsql), ('firstuse', sh_firstuse), ('lambdas', sh_lambdas), ('chains', sh_chains),
          ('aggr', sh_aggr), ('hybrid', sh_hybrid), ('writes', sh_writes), ('mix3', sh_mix3), ('nested', sh_nested),
          ('cross', sh_cross)]

FOCUS_GROUPS = [
    ('translator', ('_get_translator', '__init__', '_process_lambda', '_order_by', '_apply_kwargs')),
    ('get_translator', ('_get_translator',)),
    ('construct_sql', ('_construct_sql_and_arguments',)),
    ('frontend', ('create_extractors', 'decompile', 'string2ast', 'get_lambda_args', 'extract_vars')),
    ('rawsql', ('adapt_sql', 'parse_raw_sql')),
    ('stats', ('_update_local_stat', 'merge_local_stats')),
]


# ---------------------------------------------------------------------------------------------------------
# driver
# ---------------------------------------------------------------------------------------------------------

class Harness(object):
    def __init__(self, ctx):
        from vlib import sched, dbapi
        self.ctx, self.sched, self.dbapi = ctx, sched, dbapi
        _init()
        self.hub = sched.HUB
        self.rec = dbapi.Recorder()
        self.codes, guards = sched.shared_cache_code_objects()
        self.hub.install_lines(self.codes, guards)
        self.hub.wrap_sqlite_lock()
        self.hub.attach_recorder(self.rec)
        self.by_name = {}
        for c in self.codes: self.by_name.setdefault(c.co_name, set()).add(c)
        self.tmp = ctx.tmp()
        self.template = os.path.join(self.tmp, 'template.sqlite')
        self.factory = self.hub.busy_retry_factory(self.rec)
        E = make_db(self.template, self.factory, create=True)
        fill(E)
        self.ndb = 0

    def close(self):
        self.hub.uninstall_lines()
        self.hub.unwrap_sqlite_lock()

    def new_db(self):
        self.ndb += 1
        path = os.path.join(self.tmp, 'w%d.sqlite' % self.ndb)
        shutil.copyfile(self.template, path)
        E = make_db(path, self.factory)
        E.db.disconnect()
        E.path = path
        return E

    def reset_data(self, E):
        shutil.copyfile(self.template, E.path)
        del self.rec.events[:]

    def stats_snapshot(self, E):
        return {sql: st.db_count for sql, st in E.db.global_stats.items()}

    @staticmethod
    def stats_delta(before, after):
        d = {}
        for k, v in after.items():
            dv = v - before.get(k, 0)
            if dv: d[repr(k)] = dv
        return d

    def run(self, E, progs, chooser, levels, focus=None, only=None, shared=None):
        shared = {} if shared is None else shared
        names = 'ABC'
        programs = [(names[i], make_runner(p, E, i + 1, shared, self.sched)) for i, p in enumerate(progs)
                    if only is None or i == only]
        before = self.stats_snapshot(E)
        s = self.hub.run(programs, chooser, levels=levels, watchdog=60.0, focus=focus)
        s.stats = self.stats_delta(before, self.stats_snapshot(E))
        s.shared = shared
        return s


def focus_choices(h, hit_names):
    out = [None]
    for gname, fnames in FOCUS_GROUPS:
        if any(n in hit_names for n in fnames):
            codes = set()
            for n in fnames: codes |= h.by_name.get(n, set())
            out.append((gname, codes))
    return out


def solo_baseline(h, E, progs, cross):
    """Each thread alone: cold caches, then warm caches.  Returns per-thread dict or None when not available."""
    ctx = h.ctx
    base = []
    for i, p in enumerate(progs):
        if cross and i < 2:
            base.append(None); continue
        outs = []; stats = []; events = 0; hit = set()
        for mode in ('cold', 'warm'):
            h.reset_data(E)
            if mode == 'cold': clear_caches(E)
            h.hub.hits.clear()
            s = h.run(E, progs, h.sched.Chooser(), ('line', 'op', 'stmt'), only=i)
            if s.status != 'ok' or s.workers[0].exc is not None or s.workers[0].result is None:
                ctx.count('solo.failed'); return None
            outs.append(s.workers[0].result); stats.append(s.stats); events = max(events, s.n_events)
            hit |= set(h.hub.hits)
        judged = []
        for a, b in zip(outs[0], outs[1]):
            ok = a[:3] == b[:3]
            judged.append(ok)
            if not ok: ctx.count('solo.unstable_steps')
        base.append({'out': outs[0], 'judged': judged, 'stats': stats[0] if stats[0] == stats[1] else None,
                     'events': events, 'hit': hit})
        ctx.count('solo.runs', 2)
    return base


def judge(h, E, shape, params, progs, base, s, desc):
    """Apply the oracles to one finished concurrent schedule."""
    ctx = h.ctx
    cross = bool(params.get('cross'))
    wit0 = dict(desc, shape=shape, params=params, choices=''.join(s.choices), status=s.status)
    if s.status != 'ok' or getattr(s, 'leaked', None):
        ctx.count('schedule.' + s.status)
        # neither a deadlock (all workers blocked) nor a watchdog is a verdict about this property
        ctx.inconclusive_if(True, '%s in schedule %r: %r' % (s.status, desc, s.status_detail))
        return False
    expected_stats = {}
    stats_ok = True
    differs = 0
    for i, w in enumerate(s.workers):
        if w.exc is not None:
            ctx.inconclusive_if(True, 'harness: worker %s crashed with %r in %r' % (w.name, w.exc, desc)); continue
        b = base[i]
        if b is None: stats_ok = False; continue
        if b['stats'] is None: stats_ok = False
        else:
            for k, v in b['stats'].items(): expected_stats[k] = expected_stats.get(k, 0) + v
        got = w.result
        if len(got) != len(b['out']):
            ctx.violation(dict(wit0, thread=w.name, solo=b['out'], got=got), 'step-count-differs'); differs += 1; continue
        for k, (g, e, jd) in enumerate(zip(got, b['out'], b['judged'])):
            if not jd: ctx.count('steps.unjudged'); continue
            ctx.count('steps.compared')
            if g[:3] == e[:3]:
                ctx.count('outcome.agree_' + g[1]); continue
            wit = dict(wit0, thread=w.name, step=k, label=g[0], solo=e[:3], got=g[:3], tb=(g[3] or {}).get('tb') if len(g) > 3 else None)
            if g[1] == 'exc' and len(g) > 3 and g[3].get('del_keyerror'):
                ctx.count('outcome.known_del_keyerror'); differs += 1
                ctx.finding(F_DEL, wit)
            elif g[1] == 'exc' and g[2] == 'TranslationError' and ' is not found in ' in (wit.get('tb') or '') and '(inside ' in (wit.get('tb') or ''):
                # a hybrid method / property translated, under another thread's concurrent translation, with a body that
                # is not its own (the missing name is a parameter of ANOTHER hybrid method of the entity)
                ctx.count('outcome.known_hybrid_translation_race'); differs += 1
                ctx.finding(F_HYB, wit)
            else:
                ctx.count('outcome.differs'); differs += 1
                ctx.violation(wit, 'result-differs-from-solo' if g[1] == 'ok' else 'spurious-or-different-error')
    if stats_ok and not cross:
        ctx.count('stats.compared')
        if s.stats != expected_stats:
            # a step that failed differently also changes the statement counts: only report when all steps agreed
            if not differs:
                ctx.violation(dict(wit0, expected=expected_stats, got=s.stats), 'global-stats-differ')
            else: ctx.count('stats.skipped_after_difference')
    if cross:
        judge_cross(ctx, wit0, s)
    return True


def judge_cross(ctx, wit0, s):
    a, b = s.workers[0], s.workers[1]
    uses = s.shared.get('uses')
    if uses is None:
        ctx.count('xthread.no_uses'); return
    for u in uses:
        kind, _, mode = u[0].partition(':')
        oc = u[1]
        if kind in JUDGED_USES:
            ctx.count('xthread.judged'); ctx.count('xthread.judged.' + (mode or 'warm'))
            if oc == 'exc':
                ctx.count('xthread.raised.' + u[2])
            elif kind == 'lazy_attr_load':
                ctx.count('xthread.known_lazy_ok')
                ctx.finding(F_LAZY, dict(wit0, use=u))
            elif kind == 'coll_is_empty':
                ctx.count('xthread.known_is_empty_ok')
                ctx.finding(F_ISEMPTY, dict(wit0, use=u))
            else:
                ctx.violation(dict(wit0, use=u), 'cross-thread-use-did-not-raise')
        else:
            ctx.count('xthread.unjudged.%s.%s' % (kind, oc if oc == 'ok' else u[2]))
    # A's view of its own objects after B's attempts: recorded, not judged (a refused cross-thread call that leaves
    # traces in the owner's session is C13 territory, and the owner's later error is caused by B's illegal use)
    for st in (a.result or ()):
        if st[0].startswith('x-publish') and st[1] == 'ok':
            snap1, snap2, tail = st[2]
            ctx.count('xthread.owner_view_same' if snap1[:4] == snap2[:4] else 'xthread.owner_view_changed')
        elif st[0].startswith('x-publish'):
            ctx.count('xthread.owner_failed_after.' + st[2])


def pick_chooser(h, rng, horizon):
    sched = h.sched
    r = rng.random()
    if r < 0.2: return sched.RandomChooser(rng, 0.5), 'rand.5'
    if r < 0.45: return sched.RandomChooser(rng, 0.8), 'rand.8'
    if r < 0.7: return sched.RandomChooser(rng, 0.93), 'rand.93'
    k = rng.randint(1, 6)
    return sched.PreemptChooser(rng, horizon, k), 'preempt%d' % k


def run_instance(h, shape, fn, key, nsched):
    ctx = h.ctx
    rng = ctx.subrng(*key)
    T = 3 if (shape == 'mix3' or rng.random() < 0.25) else 2
    progs, params = fn(rng, T)
    params = dict(params, T=T)
    cross = bool(params.get('cross'))
    E = h.new_db()
    base = solo_baseline(h, E, progs, cross)
    if base is None:
        ctx.count('instance.no_baseline'); return
    ctx.count('instances')
    hit = set()
    for b in base:
        if b: hit |= b['hit']
    horizon = sum(b['events'] for b in base if b) or 600
    if cross: horizon *= 2
    fchoices = focus_choices(h, hit)
    for j in range(nsched):
        mode = rng.choice(('cold', 'warm', 'warm', 'fresh'))
        if mode == 'fresh':
            E = h.new_db()          # first use of brand-new entity classes and Database caches
        else:
            h.reset_data(E)
            if mode == 'cold': clear_caches(E)
        f = rng.choice(fchoices) if rng.random() < 0.7 else None
        levels = ['line', 'op', 'lock', 'wait']
        if rng.random() < 0.35: levels.append('stmt')
        hz = horizon if f is None else max(40, horizon // 6)
        chooser, cname = pick_chooser(h, rng, hz)
        desc = {'key': list(key), 'seed': ctx.seed, 'sched': j, 'mode': mode, 'chooser': cname, 'focus': f[0] if f else None,
                'levels': levels}
        s = h.run(E, progs, chooser, levels, focus=f[1] if f else None)
        ctx.count('schedules')
        ctx.count('yield_events', s.n_events)
        ctx.count('line_yields', s.kind_counts.get('line', 0))
        ctx.count('stmt_yields', s.kind_counts.get('stmt', 0))
        ctx.count('lock_waits', sum(w.lock_waits for w in s.workers))
        ctx.count('busy_waits', sum(w.busy_waits for w in s.workers))
        ctx.count('switches', s.n_switches)
        ctx.count('mode.' + mode)
        nontrivial = s.n_switches >= 2
        h.sigs.add(s.signature)
        ctx.case([shape, params, s.signature], nontrivial=nontrivial,
                 sample={'shape': shape, 'params': params, 'desc': desc, 'events': s.n_events, 'switches': s.n_switches,
                         'trace_head': s.trace[:12]})
        if nontrivial: ctx.count('schedules.nontrivial')
        judge(h, E, shape, params, progs, base, s, desc)


def run(ctx):
    h = Harness(ctx)
    h.sigs = set()
    try:
        if ctx.tier == 'quick':
            inst_per_shape, nsched = 2, 20
        else:
            inst_per_shape, nsched = 4, 25
        for shape, fn in SHAPES:
            for inst in range(inst_per_shape):
                run_instance(h, shape, fn, (shape, ctx.tier, ctx.shard, inst), nsched)
    finally:
        h.close()
    ctx.count('distinct_schedules', len(h.sigs))
    ctx.extra['line_events_total'] = h.hub.line_events
    ctx.floor('schedules.nontrivial', 200 if ctx.tier == 'quick' else 800)
    ctx.floor('steps.compared', 2000)
    ctx.floor('line_yields', 20000)
    ctx.floor('xthread.judged', 200)
    ctx.floor('stats.compared', 100)


def replay(ctx, witness):
    """Re-run the witness' workload instance with the recorded choices (cold caches and fresh Database)."""
    h = Harness(ctx)
    h.sigs = set()
    try:
        key = tuple(witness['key'])
        shape = key[0]
        fn = dict(SHAPES)[shape]
        import random
        rng = random.Random('%s/%s/%s' % (ctx.pid, witness.get('seed', ctx.seed), '/'.join(map(str, key))))
        T = 3 if (shape == 'mix3' or rng.random() < 0.25) else 2
        progs, params = fn(rng, T)
        params = dict(params, T=T)
        E = h.new_db()
        base = solo_baseline(h, E, progs, bool(params.get('cross')))
        focus = None
        for gname, fnames in FOCUS_GROUPS:
            if gname == witness.get('focus'):
                focus = set()
                for n in fnames: focus |= h.by_name.get(n, set())
        for mode in ('cold', 'fresh'):
            if mode == 'fresh': E = h.new_db()
            else: h.reset_data(E); clear_caches(E)
            s = h.run(E, progs, h.sched.ReplayChooser(witness['choices']), witness['levels'], focus=focus)
            judge(h, E, shape, params, progs, base, s, {'key': list(key), 'mode': mode, 'replay': True,
                                                       'levels': witness['levels'], 'focus': witness.get('focus')})
    finally:
        h.close()

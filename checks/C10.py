META = {
    'level': 'exploration',
    'engine': 'E2+E3',
    'technique': 'read observer + cache-vs-model walker against the reference working state',
    'level_text': 'Two workloads: random long histories and a small-scope exhaustive mode (all operation sequences up to length 3 / 4 over a focused alphabet per relationship and per key, each in a fresh session on a committed population). Every in-session read (attribute, collection iter/count/len/in/is_empty/copy/select, Entity[pk], get, exists, select with kwargs and lambda, count, to_dict) vs the reference working state, plus a cache-vs-model walker after every operation. Held on the generated histories only: fixed templates covering every relationship kind alternate with random 2-4 entity diagrams; violating histories are shrunk by re-running the real code.',
    'level_note': 'Trusted: the reference model in vlib/hmodel.py (documented assignment / collection / cascade semantics, conflict timing free), SQLite as the only backend, single-threaded sessions. Loud unexpected errors are counted, not judged. One-to-one self links are out of scope.',
    'rule': 'one case = one generated history (diagram + operation list, up to N operations over several sessions); distinct = distinct (diagram, operation list); non-trivial = at least two applied modifications and at least one event judged by the deciding monitor',
    'assumptions': ['SQLite only', 'reference model semantics as documented in DESIGN.md 2.2', 'histories are single-threaded'],
    'design_ref': 'DESIGN.md 2.2, 3 C10',
}
SHARDS = {'quick': 4, 'thorough': 16}
SHARD_TIMEOUT = {'quick': 300, 'thorough': 1500}

CFG = {
    'monitors': 'read,cachemodel'.split(','),
    'deciding_counters': ['read.judged'],
    'n': {'quick': 500, 'thorough': 1000},
    'ops': {'quick': 30, 'thorough': 60},
}


SMALL = {
    'templates': ['m2m', 'o2m_opt', 'o2m_req', 'self', 'composite', 'o2o_opt', 'auto', 'pkref'],
    'budget': {'quick': 24000, 'thorough': 160000},
    'monitors': CFG['monitors'],
}


def run(ctx):
    from vlib import hcheck, hsmall
    hcheck.run_histories(ctx, CFG)
    hsmall.run_small_scope(ctx, dict(SMALL, stop_on_taint=CFG.get('stop_on_taint', True)))
    ctx.floor('read.judged', 500)


def replay(ctx, witness):
    from vlib import hcheck
    hcheck.replay(ctx, witness, CFG)

"""C01 -- declarative queries return what Python evaluation of the same expression returns.

Monitor: engine E1 (vlib/qdiff.py).  Generated query programs run through the REAL pony pipeline (decompiler /
string parser -> SQLTranslator -> SQLBuilder -> sqlite) in every front-end form; the rows are judged against a
reference interpreter evaluating the SAME source text over plain-python mirror objects.  A disagreement is re-judged
under the deviation rules (known findings); anything the rules do not reproduce exactly is a VIOLATION.
"""
META = {
    'level': 'exploration',
    'engine': 'E1',
    'technique': 'differential oracle: reference interpreter over mirror objects vs rows of the real query pipeline; '
                 'deviation-rule re-judgement of disagreements; greedy witness shrinking',
    'level_text': 'Runtime differential monitoring of the real decompile->translate->SQL->SQLite pipeline on a '
                  'bounded-exhaustive slice (all expressions with <= 2 operators over a reduced leaf set) plus thousands of '
                  'random programs of depth <= 4/5 from a typed grammar, on hostile data sets, in all three front-end forms. '
                  'The grammar is unbounded, so exploration with an exact-or-bracketed oracle is the reachable level.',
    'level_note': 'Trusted base: the ~900-line reference interpreter (python operators, SQL three-valued logic for '
                  'comparisons with None, None falsy in truth tests, aggregates ignoring None) and sqlite3 itself. '
                  'Ambiguous readings (truth tests / LIKE-family predicates on a missing value under `not`) are bracketed; '
                  'rows on which python itself raises are free and surplus rows are then no_reference, never a violation. '
                  'Only the SQLite dialect executes here.',
    'rule': 'case = (query source text, parameter values, front-end form, trailing distinct/order step, data set); '
            'distinct = fingerprint of that tuple; non-trivial = the reference exists (outcome agree/known/disagree); '
            'floor counter agree.nonempty_nonfull = agreements whose result is neither empty nor all source rows',
    'assumptions': [
        'SQLite only; other dialects are C02',
        'one fixed schema S1 (Dept/Person/Passport/Tag/Item<-Gadget,Book, Course with composite key (name, semester), Grade with key '
        '(person reference, subject)) with required/optional scalars of six types, '
        'many-to-one (required, optional, self), one-to-one, many-to-many, one inheritance tree, hybrid methods/properties',
        'conditional expressions are not emitted in generator form (decompiler shape K1 of property C03) and constant '
        'sub-expressions with compound receivers are not generated (ast2src parenthesis loss of property C04)',
        'float results compare with 1e-9 relative tolerance, bool == int, Decimal numerically; group_concat as a multiset',
        'rows compare as sets unless the bag is unambiguous (entity results, distinct(), without_distinct())',
    ],
    'shims': [],
    'exhaustive_tiers': [],
}
SHARDS = {'quick': 1, 'thorough': 16}
SHARD_TIMEOUT = {'quick': 300, 'thorough': 1500}

SIZES = {
    # tier: (random programs per shard, data sets, max depth, programs per data set in the exhaustive part)
    'quick': dict(random=3000, datasets=10, depth=4),
    'thorough': dict(random=4000, datasets=20, depth=5),
}


def _rules(ctx):
    """Deviation / shape rules of findings that are still OPEN: a fixed finding's rule must not explain anything."""
    from vlib import qdiff
    from collections import OrderedDict
    dev = OrderedDict((k, v) for k, v in qdiff.DEVIATIONS.items() if ctx.is_open(v))
    shp = OrderedDict((k, v) for k, v in qdiff.SHAPE_RULES.items() if ctx.is_open(v))
    return dev, shp


def vary_params(qdiff, p, rng):
    """The same program (same source text -> same code object / query string) with other parameter values: other
    members of the type's domain, sign changes, zero, other list lengths, and None for slice bounds."""
    import re
    from decimal import Decimal
    from datetime import date, timedelta
    new = {}
    for k, v in p.params.items():
        in_slice = re.search(r'\[[^\]\[]*\b%s\b[^\]\[]*:|\[[^\]\[]*:[^\]\[]*\b%s\b' % (k, k), p.src) is not None
        if isinstance(v, bool): nv = not v
        elif isinstance(v, int) or (v is None and in_slice):
            pool = [0, 1, 2, 3, -1, -2, 5] if in_slice or re.search(r'\[%s\]' % k, p.src) else qdiff.DOMAINS['int'] + [-3, 4]
            nv = rng.choice([x for x in pool if x != v])
            if in_slice and rng.random() < 0.25: nv = None
        elif isinstance(v, float): nv = rng.choice([x for x in qdiff.DOMAINS['float'] if x != v])
        elif isinstance(v, str): nv = rng.choice([x for x in qdiff.DOMAINS['str'] if x != v])
        elif isinstance(v, Decimal): nv = rng.choice([x for x in qdiff.DOMAINS['dec'] if x != v])
        elif isinstance(v, date): nv = rng.choice([x for x in qdiff.DOMAINS['date'] if x != v])
        elif isinstance(v, timedelta): nv = timedelta(days=rng.choice([x for x in (0, 1, 30, 365, -1, 7) if x != v.days]))
        elif isinstance(v, (list, tuple)):
            typ = 'str' if any(isinstance(i, str) for i in v) else 'int'
            items = [rng.choice(qdiff.DOMAINS[typ]) for _ in range(rng.choice([0, 1, 2, 3]))]
            nv = type(v)(items)
        else: nv = v
        new[k] = nv
    return p.clone(params=new)


def _book(ctx, env, v, prod_used, prod_agree, shrink_budget=60):
    from vlib import qdiff
    p = v.program
    out = v.outcome
    ctx.case(fingerprint=[p.key(), env.data_id], nontrivial=out in ('agree', 'known', 'disagree'),
             sample={'text': p.src, 'form': p.form, 'params': qdiff.enc(p.params), 'chain': p.chain, 'outcome': out})
    ctx.count('outcome.' + out)
    ctx.count('form.%s.%s' % (p.form, out))
    for pr in set(p.prods):
        prod_used[pr] = prod_used.get(pr, 0) + 1
        if out == 'agree': prod_agree[pr] = prod_agree.get(pr, 0) + 1
    if out == 'agree':
        if v.lenient: ctx.count('agree.lenient_bracketed')
        elif v.nontrivial: ctx.count('agree.nonempty_nonfull')
        elif getattr(v, 'aggregated', False): ctx.count('agree.aggregated')
        else: ctx.count('agree.empty_or_full')
        if v.ref is not None and v.ref.order_check is not None: ctx.count('agree.order_checked')
        if v.ref is not None and v.ref.mode == 'bag' and not v.ref.aggregated: ctx.count('agree.bag_compared')
    elif out in ('pony_raised', 'db_error'):
        ctx.count('raised.%s' % v.result.exc)
    elif out == 'known':
        for fid in v.findings:
            ctx.count('finding.' + fid + ('.by_shape' if getattr(v, 'by_shape', False) else ''))
            ctx.finding(fid, v.witness(env))
    elif out == 'disagree':
        data0 = env.data
        def still_bad(p2, d2):
            env.load(d2, env.data_id)
            return qdiff.judge(env, p2, dev_rules=_rules(ctx)[0], shape_rules=_rules(ctx)[1]).outcome == 'disagree'
        try:
            p2, d2 = qdiff.shrink(env, p, data0, still_bad, budget=shrink_budget)
            env.load(d2, env.data_id)
            v2 = qdiff.judge(env, p2, dev_rules=_rules(ctx)[0], shape_rules=_rules(ctx)[1])
            if v2.outcome != 'disagree': v2 = None
        except Exception:
            v2, d2 = None, data0
        if v2 is None:
            env.load(data0, env.data_id); w = v.witness(env)
        else:
            w = v2.witness(env); w['original'] = {'program': p.to_json(), 'detail': v.detail}
        env.load(data0, env.data_id)
        ctx.violation(w, mechanism='unclassified-disagreement')
    elif out == 'unsupported':
        ctx.count('unsupported.' + (v.detail or '')[:40])
    elif out == 'no_reference':
        ctx.count('no_reference.' + (v.detail or '')[:40])


def run(ctx):
    from vlib import qdiff
    sz = SIZES[ctx.tier]
    env = qdiff.get_env('S1')
    schema = env.schema
    prod_used, prod_agree = {}, {}
    rng = ctx.rng
    dev, shp = _rules(ctx)
    J = lambda prog: qdiff.judge(env, prog, dev_rules=dev, shape_rules=shp)
    ctx.extra['open_rules'] = sorted(dev.values()) + sorted(shp.values())

    # ---- part 1: bounded-exhaustive enumeration (<= 2 operators, reduced leaf set) on two fixed-seed data sets ------
    gen = qdiff.ProgramGen(schema, rng, max_depth=sz['depth'])
    drng = ctx.subrng('exhaustive-data')
    data = qdiff.gen_data(schema, drng, flavor='mixed')
    env.load(data, 'X0')
    if ctx.tier == 'quick':
        programs = gen.enumerate_small(per_type=1, max_ops=2, ops=gen.REDUCED_OPS)
    else:
        programs = gen.enumerate_small(per_type=2, max_ops=2)
    n_enum = n_lint = 0
    for i, p in enumerate(programs):
        if i % ctx.nshards != ctx.shard: continue
        if qdiff.lint_program(p.src) is not None:
            n_lint += 1; continue
        n_enum += 1
        forms = qdiff.forms_of(p)
        n_ops = len(p.prods) - 1
        if ctx.tier == 'quick' and n_ops >= 2: forms = [forms[(i + ctx.seed) % len(forms)]]   # rotate the form
        elif n_ops >= 2 and len(forms) > 2: del forms[(i + ctx.seed) % len(forms)]              # thorough: two of three
        for f in forms:
            _book(ctx, env, J(f), prod_used, prod_agree)
    # the same enumeration (one operator) over an entity with a COMPOSITE primary key: whole key, part of the key, no key
    for i, p in enumerate(gen.enumerate_small(ename='Course', var='c', per_type=1 if ctx.tier == 'quick' else 2, max_ops=1)):
        if i % ctx.nshards != ctx.shard or qdiff.lint_program(p.src) is not None: continue
        n_enum += 1
        forms = qdiff.forms_of(p)
        if ctx.tier == 'quick': forms = [forms[(i + ctx.seed) % len(forms)]]
        for f in forms: _book(ctx, env, J(f), prod_used, prod_agree)
    ctx.count('exhaustive.programs', n_enum)
    ctx.count('exhaustive.skipped_lint', n_lint)

    # ---- part 2: random programs of depth <= D over several data sets -------------------------------------------
    per_ds = max(1, sz['random'] // sz['datasets'])
    for ds in range(sz['datasets']):
        data = qdiff.gen_data(schema, rng)
        did = 'R%d.%d.%d' % (ctx.seed, ctx.shard, ds)
        env.load(data, did)
        ctx.count('datasets')
        for k in range(per_ds):
            p = gen.program()
            forms = qdiff.forms_of(p)
            for f in forms: _book(ctx, env, J(f), prod_used, prod_agree)
            if p.params:
                # re-execute the SAME code objects / query strings with other parameter values (translator, SQL and
                # result caches are warm now): every execution must equal python evaluation, not only the first one
                for rep in range(2 if len(p.params) > 1 or k % 3 == 0 else 1):
                    p2 = vary_params(qdiff, p, rng)
                    for f in forms:
                        f2 = f.clone(params=p2.params, prods=[])
                        v = J(f2)
                        if v.outcome == 'disagree' and v.result is not None:
                            # deviation rule of C01-SLICE-PARAM-STALE-...: pony answered with the slice/index bounds of the FIRST
                            # execution; KNOWN only if the reference with those stale bounds reproduces pony's rows exactly
                            import re
                            stale = {k: p.params[k] for k in f2.params if re.search(r'\[[^\]\[]*\b%s\b[^\]\[]*\]' % k, f2.src)
                                     and p.params[k] != f2.params[k]}
                            if stale and ('select(' in f2.src or ' in (' in f2.src):
                                v3 = qdiff.judge(env, f2.clone(params=dict(f2.params, **stale)), dev_rules=dev, shape_rules=shp, result=v.result)
                                if v3.outcome in ('agree', 'known'):
                                    v.outcome, v.findings = 'known', ['C01-SLICE-PARAM-STALE-IN-OPTIMIZED-SUBQUERY-SOURCE']
                        ctx.count('reexecution.' + v.outcome)
                        _book(ctx, env, v, prod_used, prod_agree)
    # ---- part 3: LIKE battery -- every hostile pattern x predicate x (constant | parameter | attribute) --------------
    like_strings = ['a%', 'ab', 'a_', 'a!', '!%', '%', '_', 'abc', 'a%b', 'a_b', 'xa%', '!', 'a!%', 'A%', '%%', '__', 'b']
    data = qdiff.dec(qdiff.gen_data(schema, ctx.subrng('like-data'), flavor='dense'))
    while len(data['Person']) < 7: data['Person'].append(dict(data['Person'][0], id=len(data['Person']) + 1, tags=[], mentor=None))
    lrng = ctx.subrng('like-fill', ctx.shard)
    pool = list(like_strings); lrng.shuffle(pool)
    for i, row in enumerate(data['Person']):
        row['name'] = pool[i % len(pool)]; row['nick'] = pool[(i * 3 + 1) % len(pool)] if i % 4 else None
    data = qdiff.json.loads(qdiff.json.dumps(qdiff.enc(data)))
    env.load(data, 'LIKE')
    n_like = 0
    patterns = ['%', '_', 'a%', 'a_', '!', '!%', '!_', 'a!', '%a', '_b', 'ab', 'a', '%%', 'a%b']
    for k, pat in enumerate(patterns):
        if k % ctx.nshards != ctx.shard % len(patterns) and ctx.nshards > 1 and (k % ctx.nshards) != ctx.shard: continue
        for tmpl in ('p.name.startswith({0})', 'p.name.endswith({0})', '{0} in p.name', '{0} not in p.name', 'not p.name.startswith({0})',
                     'p.nick.startswith({0})', '{0} in p.nick', 'p.name.startswith(p.nick)', 'p.nick in p.name', 'p.name.endswith(p.nick)'):
            for as_param in (False, True):
                if '{0}' not in tmpl and (as_param or k): continue
                cond = tmpl.format('a0' if as_param else qdiff.lit(pat))
                p = qdiff.Program('p for p in Person if ' + cond, {'a0': pat} if as_param else {}, 'gen', [],
                                  {'ent': 'Person', 'var': 'p', 'cond': cond}, ['like.' + tmpl.split('(')[0].replace('{0}', 'X').replace(' ', '_'), 'shape.filter'])
                for f in qdiff.forms_of(p):
                    n_like += 1
                    _book(ctx, env, J(f), prod_used, prod_agree)
    ctx.count('like_battery.cases', n_like)

    # ---- part 4: membership battery -- x [not] in <subquery / collection / list> for every nullable attribute and optional
    # reference of the schema, on data with missing values; each program is run twice with different parameters
    data = qdiff.gen_data(schema, ctx.subrng('member-data', ctx.shard), flavor='sparse')
    env.load(data, 'MEMBER')
    n_mem = 0
    pairs = []          # (element expression over y, entity of y, left expression over x, entity of x)
    for e in schema.ents.values():
        for a in e.own_attrs:
            if a.is_ref and a.kind == 'opt' and a.reverse.is_set is not None and not (a.reverse.is_ref and a.reverse.kind == 'req'):
                pairs.append(('y.%s' % a.name, e.name, 'x', a.typ))                       # entity vs optional reference
                for b in schema.ents[a.typ].own_attrs:
                    if b.is_ref and b.typ == a.typ and b.kind == 'opt': pairs.append(('y.%s' % a.name, e.name, 'x.%s' % b.name, a.typ))
            if a.is_scalar and a.nullable and a.typ in ('int', 'str'):
                for e2 in schema.ents.values():
                    for b in e2.own_attrs:
                        if b.is_scalar and b.typ == a.typ and b.kind != 'pk' and (e2.name, b.name) != (e.name, a.name) and len(pairs) % 3 == 0:
                            pairs.append(('y.%s' % a.name, e.name, 'x.%s' % b.name, e2.name))
    mrng = ctx.subrng('member', ctx.shard)
    for i, (elt, ye, left, xe) in enumerate(pairs):
        for neg in ('not in', 'in'):
            for wrap in ('select(%s)', '(%s)'):
                for extra in ('', ' if y.id != a0' if 'id' in schema.ents[ye].attrs else ''):
                    if extra == '' and wrap == '(%s)' and neg == 'in': continue
                    cond = '%s %s %s' % (left, neg, wrap % ('%s for y in %s%s' % (elt, ye, extra)))
                    prm = {'a0': 1} if extra else {}
                    p = qdiff.Program('x for x in %s if %s' % (xe, cond), prm, 'gen', [], {'ent': xe, 'var': 'x', 'cond': cond},
                                      ['member.%s.%s' % ('ref' if left == 'x' or '.' in left and not schema.ents[xe].attrs[left.split('.')[1]].is_scalar else 'scalar', neg.replace(' ', '')), 'shape.filter'])
                    for f in qdiff.forms_of(p):
                        n_mem += 1
                        _book(ctx, env, J(f), prod_used, prod_agree)
                        if prm:
                            n_mem += 1
                            _book(ctx, env, J(f.clone(params={'a0': mrng.choice([2, 3, 0, -1])}, prods=[])), prod_used, prod_agree)
    ctx.count('member_battery.cases', n_mem)

    ctx.extra['prod_used'] = prod_used
    ctx.extra['prod_agree'] = prod_agree
    ctx.extra['productions_total'] = len(prod_used)
    ctx.extra['productions_never_agreed'] = sorted(k for k in prod_used if not prod_agree.get(k))[:50]
    ctx.extra['executed_on'] = ['sqlite']
    ctx.floor('agree.nonempty_nonfull', 1000)
    ctx.floor('outcome.agree', 3000)
    ctx.floor('reexecution.agree', 300)
    ctx.floor('member_battery.cases', 100)


def replay(ctx, witness):
    from vlib import qdiff
    env = qdiff.get_env('S1')
    env.load(witness['data'], 'replay')
    p = qdiff.Program.from_json(witness['program'])
    dev, shp = _rules(ctx)
    v = qdiff.judge(env, p, dev_rules=dev, shape_rules=shp)
    print('replay outcome:', v.outcome, v.findings, v.detail)
    if v.outcome == 'disagree': ctx.violation(v.witness(env), mechanism='unclassified-disagreement')
    elif v.outcome == 'known':
        for fid in v.findings: ctx.finding(fid, v.witness(env))

"""C26 -- generated schemas are well formed and match the entity model.

A seeded diagram generator produces declaration SPECS (plain data: 2-4 entities, every attribute kind and
option, relationships of every shape, inheritance, composite keys/indexes, explicit names, NAMING STRESS).
Each spec is instantiated with fresh entity classes on every dialect:

  sqlite    db.generate_mapping(create_tables=True) on a fresh file; the catalog (PRAGMA table_info /
            index_list / index_info / foreign_key_list, sqlite_master) is compared with an expectation
            derived from the SPEC by a small independent model of pony's documented mapping rules; then
            db.check_tables() must pass and a CRUD smoke must work.
  postgres / mysql / oracle
            record-mode stub driver captures the DDL; a parser for the DDL shapes dbschema.py emits
            rebuilds the same structure, which is compared with the expectation; additionally every name
            must be <= provider.max_name_len and distinct inside its namespace (case-insensitively where the
            dialect compares names that way).

A rejection by pony while declaring or in generate_mapping (ERDiagramError, MappingError, DBSchemaError,
TypeError, ...) is accepted and counted.  A backend failure while creating tables on SQLite, or duplicate /
over-long names in generated DDL, is a violation: the property says creation succeeds for what pony accepts.
"""

META = {
    'level': 'exploration',
    'engine': 'E2 templates + E5',
    'technique': 'generated entity diagrams; SQLite catalog introspection resp. DDL parsing of record-mode output '
                 'compared with a spec-derived expectation; name length/distinctness monitors',
    'level_text': 'Thousands of seeded diagrams (all attribute kinds/options, relationship shapes, inheritance, '
                  'naming stress at every dialect limit) are pushed through the real mapping generator and schema '
                  'emitter of each dialect; the created SQLite schema is read back from the catalog, the other '
                  'dialects\' DDL is parsed, and both are compared with an expectation computed from the spec alone.',
    'level_note': 'Trusted base: sqlite3 catalog pragmas; a ~150-line model of the documented mapping rules (default '
                  'names, nullability, keys, indexes, foreign keys, ON DELETE); a ~100-line parser for the six DDL '
                  'shapes dbschema.py emits; per-dialect namespace rules for name clashes.',
    'rule': 'case = (diagram spec, dialect); spec = entities x attribute kinds/options x relationship shapes x naming '
            'stress chosen by a seeded generator; non-trivial when pony accepted the diagram and at least one table '
            'was compared; fingerprint = spec + dialect',
    'assumptions': [
        'Only SQLite creates tables for real; PostgreSQL/MySQL/Oracle DDL is captured from a record-mode stub driver and '
        'parsed, so server-side acceptance is approximated by: structure equals the expectation, names within '
        'provider.max_name_len, names distinct per namespace. Real catalog introspection on those servers is out of reach.',
        'Name clash rules: PostgreSQL tables/indexes share one namespace per schema, constraints per table (quoted names are '
        'case-sensitive); MySQL column, index and constraint names are case-insensitive; Oracle tables/sequences share a '
        'namespace, indexes, constraints and triggers have their own; SQLite compares all names case-insensitively.',
        'Column TYPES are not modelled (only explicit sql_type / sql_default are looked for verbatim).',
        'Rejections by pony are accepted whatever their wording; the monitor does not judge whether a rejected diagram '
        'could have been mapped.',
    ],
    'shims': ['psycopg2', 'MySQLdb', 'cx_Oracle'],
    'exhaustive_tiers': [],
}
SHARDS = {'quick': 1, 'thorough': 12}
SHARD_TIMEOUT = {'quick': 300, 'thorough': 1200}

import os, re, sqlite3, json, itertools
from datetime import date, datetime, time as dtime, timedelta
from decimal import Decimal
from uuid import UUID

DIALECTS = ['sqlite', 'postgres', 'mysql', 'oracle']
SCHEMA_OF = {'sqlite': 'main', 'postgres': 'xschema', 'mysql': 'xschema', 'oracle': 'XSCHEMA'}
MAXLEN = {'sqlite': 1024, 'postgres': 63, 'mysql': 64, 'oracle': 30}


def norm(dialect, name):
    name = name[:MAXLEN[dialect]]
    if dialect in ('postgres', 'mysql'): return name.lower()
    if dialect == 'oracle': return name.upper()
    return name


# =================================================================================================
# spec generator
# =================================================================================================
SCALAR_KINDS = {
    # kind: (type key, positional args, keyword options, can be key, sample values)
    'int': ('int', (), {}, True), 'int8': ('int', (), {'size': 8}, True), 'int16u': ('int', (), {'size': 16, 'unsigned': True}, True),
    'int24': ('int', (), {'size': 24}, True), 'int64': ('int', (), {'size': 64}, True),
    'str': ('str', (), {}, True), 'str40': ('str', (40,), {}, True), 'strmax': ('str', (), {'max_len': 120}, True),
    'longstr': ('LongStr', (), {}, False), 'float': ('float', (), {}, False), 'decimal': ('Decimal', (), {}, True),
    'decimal_ps': ('Decimal', (10, 3), {}, True), 'bool': ('bool', (), {}, False), 'date': ('date', (), {}, True),
    'datetime': ('datetime', (), {}, True), 'datetime3': ('datetime', (3,), {}, False), 'time': ('time', (), {}, False),
    'timedelta': ('timedelta', (), {}, False), 'uuid': ('UUID', (), {}, True), 'bytes': ('bytes', (), {}, False),
    'json': ('Json', (), {}, False), 'intarray': ('IntArray', (), {}, False), 'strarray': ('StrArray', (), {}, False),
}
STRINGY = {'str', 'LongStr'}
EMPTYVAL = {'str', 'LongStr', 'Json', 'IntArray', 'StrArray'}
ARRAYS = {'IntArray', 'StrArray'}
SAMPLE = {'int': lambda i: 3 + i, 'str': lambda i: 's%d' % i, 'LongStr': lambda i: 'long%d' % i, 'float': lambda i: 1.5 + i,
          'Decimal': lambda i: Decimal('1.25') + i, 'bool': lambda i: True, 'date': lambda i: date(2020, 1, 1 + i),
          'datetime': lambda i: datetime(2020, 1, 1 + i, 1, 2, 3), 'time': lambda i: dtime(1, 2, 3), 'timedelta': lambda i: timedelta(hours=1 + i),
          'UUID': lambda i: UUID(int=i + 1), 'bytes': lambda i: b'b%d' % i, 'Json': lambda i: {'k': i}, 'IntArray': lambda i: [i], 'StrArray': lambda i: ['a']}

ENT_NAMES = ['Alpha', 'Beta', 'Gamma', 'Delta', 'Order', 'Group', 'Item', 'Zed']
ATTR_NAMES = ['aa', 'bb', 'cc', 'dd', 'ee', 'ff', 'gg', 'hh', 'name', 'value', 'kind', 'select', 'from_', 'index', 'user',
              'ii', 'jj', 'kk', 'mm', 'nn', 'table', 'key', 'where', 'Cc', 'zz']
HOSTILE = ['two words', 'quo"te', 'sel`ect', "it's", 'group', 'order', 'Mixed Case', 'dot.ted']


def long_name(rng, limit, prefix):
    """names around a dialect limit; pairs that differ only beyond the truncation point"""
    delta = rng.choice([-1, 0, 1, 5])
    base = (prefix + 'x' * 200)[:limit + delta]
    return base


def gen_spec(rng, stress):
    n_ent = rng.randint(2, 4)
    names = rng.sample(ENT_NAMES, n_ent)
    limit = rng.choice([30, 63, 64])
    if stress == 'long_entities':
        names = [long_name(rng, limit, n) for n in names]
    elif stress == 'beyond_cut':
        stem = (names[0] + 'y' * 200)[:limit]
        names[0], names[1] = stem + 'a', stem + 'b'
    elif stress == 'case_only':
        names[1] = names[0].upper() if names[0].upper() != names[0] else names[0] + 'X'
    ents = []
    counter = itertools.count()
    for ei, ename in enumerate(names):
        e = {'name': ename, 'base': None, 'table': None, 'attrs': [], 'composite_pk': None, 'composite_keys': [],
             'composite_indexes': [], 'rels': []}
        # inheritance: later entities may derive from an earlier root
        if ei >= 1 and rng.random() < 0.25 and stress not in ('case_only', 'beyond_cut'):
            roots = [x for x in ents if x['base'] is None]
            e['base'] = rng.choice(roots)['name']
        if e['base'] is None:
            r = rng.random()
            if r < 0.15: e['table'] = rng.choice(['tbl_' + ename.lower()[:20], rng.choice(HOSTILE) + str(ei), ename.upper()[:25] + '_T'])
            elif r < 0.22: e['table'] = ('SCHEMA', 't_' + ename.lower()[:20])
        used = set()
        if e['base']:
            def root_of(x):
                while x['base']: x = [y for y in ents if y['name'] == x['base']][0]
                return x
            r0 = root_of(e)
            for x in ents:
                if root_of(x) is r0: used.update(a['name'] for a in x['attrs'])
        def fresh_attr():
            pool = [a for a in ATTR_NAMES if a not in used and a != 'id']
            a = rng.choice(pool) if pool else 'xa%d' % next(counter); used.add(a); return a
        if stress == 'long_attrs':
            la = [long_name(rng, limit, 'att%d_%d' % (ei, k)) for k in range(3)]
            if rng.random() < 0.5:
                stem = ('col%d' % ei + 'z' * 200)[:limit]
                la += [stem + 'a', stem + 'b']
        else: la = []
        # primary key
        pk_mode = 'inherit' if e['base'] else rng.choice(['auto', 'auto', 'single', 'composite', 'single_str'])
        nattrs = rng.randint(2, 6)
        kinds = [k for k in SCALAR_KINDS if k not in ('intarray', 'strarray')] * 12 + ['intarray', 'strarray']
        for ai in range(nattrs):
            aname = la.pop() if la else fresh_attr()
            if stress == 'case_only' and ai == 1 and e['attrs']:
                prev = e['attrs'][0]['name']
                aname = prev.upper() if prev.upper() != prev else prev + 'X'
            kind = rng.choice(kinds)
            tkey, args, kw, keyable = SCALAR_KINDS[kind]
            a = {'name': aname, 'cls': rng.choice(['Required', 'Optional', 'Optional']), 'kind': kind, 'type': tkey, 'args': list(args),
                 'opts': dict(kw)}
            if tkey == 'bool' and a['cls'] == 'Required' and rng.random() < 0.5: a['cls'] = 'Optional'
            r = rng.random()
            if keyable and r < 0.15: a['opts']['unique'] = True
            elif r < 0.30 and tkey not in ('Json', 'LongStr', 'bytes'): a['opts']['index'] = rng.choice([True, 'ix_%s_%d' % (aname[:10], next(counter))])
            if rng.random() < 0.15: a['opts']['column'] = rng.choice([aname[:20] + '_col', rng.choice(HOSTILE) + str(ai), aname.upper()[:20] + 'C'])
            if a['cls'] == 'Optional' and rng.random() < 0.3: a['opts']['nullable'] = True
            if tkey in ('int', 'str') and rng.random() < 0.12: a['opts']['sql_default'] = "'dflt'" if tkey == 'str' else '42'
            if tkey in ('int', 'str') and rng.random() < 0.10: a['opts']['default'] = 'dv' if tkey == 'str' else 5
            if tkey == 'str' and rng.random() < 0.08: a['opts']['sql_type'] = 'CHAR(17)'
            if rng.random() < 0.05: a['opts']['lazy'] = True
            if rng.random() < 0.05 and not a['opts'].get('unique'): a['opts']['volatile'] = True
            e['attrs'].append(a)
        keyable_attrs = [a for a in e['attrs'] if SCALAR_KINDS[a['kind']][3] and a['type'] not in ('Decimal', 'datetime')]
        if pk_mode in ('single', 'single_str'):
            want = 'str' if pk_mode == 'single_str' else 'int'
            cands = [a for a in keyable_attrs if a['type'] == want]
            if cands:
                a = rng.choice(cands); a['cls'] = 'PrimaryKey'
                for k in ('unique', 'index', 'nullable', 'volatile', 'lazy', 'default', 'sql_default'): a['opts'].pop(k, None)
                if want == 'int' and rng.random() < 0.5: a['opts']['auto'] = True
        elif pk_mode == 'composite' and len(keyable_attrs) >= 2:
            chosen = rng.sample(keyable_attrs, 2)
            for a in chosen:
                a['cls'] = 'Required'
                for k in ('unique', 'nullable', 'volatile', 'lazy'): a['opts'].pop(k, None)
            chosen.sort(key=lambda a: e['attrs'].index(a))
            e['composite_pk'] = [a['name'] for a in chosen]
        rest = [a for a in e['attrs'] if a['cls'] != 'PrimaryKey' and a['name'] not in (e['composite_pk'] or []) and
                SCALAR_KINDS[a['kind']][3] and not a['opts'].get('volatile')]
        if len(rest) >= 2 and rng.random() < 0.3:
            ck = rng.sample(rest, 2); ck.sort(key=lambda a: e['attrs'].index(a))
            e['composite_keys'].append([a['name'] for a in ck])
        rest2 = [a for a in e['attrs'] if a['type'] not in ('Json', 'LongStr', 'bytes', 'float', 'IntArray', 'StrArray') and a['cls'] != 'PrimaryKey']
        if len(rest2) >= 2 and rng.random() < 0.3:
            ci = rng.sample(rest2, 2); ci.sort(key=lambda a: e['attrs'].index(a))
            if [a['name'] for a in ci] not in e['composite_keys'] and [a['name'] for a in ci] != (e['composite_pk'] or []):
                e['composite_indexes'].append([a['name'] for a in ci])
        ents.append(e)
    # relationships (declared on the entity that comes later so that Required sides point backwards)
    rel_id = itertools.count()
    for ei in range(1, len(ents)):
        for _ in range(rng.randint(0, 2)):
            src, dst = ents[ei], ents[rng.randrange(0, ei)]
            shape = rng.choice(['many_to_one_req', 'many_to_one_opt', 'one_to_one_req', 'one_to_one_opt', 'many_to_many', 'many_to_one_opt'])
            k = next(rel_id)
            a, b = 'r%d_%s' % (k, dst['name'][:6].lower()), 'b%d_%s' % (k, src['name'][:6].lower())
            if stress == 'long_attrs' and rng.random() < 0.5: a = long_name(rng, rng.choice([30, 63, 64]), a)
            rel = {'shape': shape, 'src': src['name'], 'dst': dst['name'], 'a': a, 'b': b, 'a_opts': {}, 'b_opts': {}}
            def root_ent(x):
                while x['base']: x = [y for y in ents if y['name'] == x['base']][0]
                return x
            single_dst, single_src = not root_ent(dst)['composite_pk'], not root_ent(src)['composite_pk']
            if shape.startswith('many_to_one'):
                if rng.random() < 0.2:
                    if single_dst: rel['a_opts']['column'] = 'fk_' + a[:12]
                    else: rel['a_opts']['columns'] = ['fk1_' + a[:12], 'fk2_' + a[:12]]
                if rng.random() < 0.15: rel['a_opts']['fk_name'] = 'fkname_%d' % k
                if rng.random() < 0.15: rel['a_opts']['index'] = rng.choice([False, 'fkix_%d' % k])
                if rng.random() < 0.2: rel['b_opts']['cascade_delete'] = rng.choice([True, False])
                if rng.random() < 0.1 and rel['a_opts'].get('index') is not False: rel['a_opts']['unique'] = True
            elif shape.startswith('one_to_one'):
                if rng.random() < 0.15: rel['b_opts']['cascade_delete'] = True
                if rng.random() < 0.2 and shape == 'one_to_one_opt' and single_dst: rel['a_opts']['column'] = 'oo_' + a[:12]
            else:
                r = rng.random()
                if r < 0.25: rel['a_opts']['table'] = rng.choice(['link_%d' % k, 'Link Table %d' % k])
                elif r < 0.35: rel['a_opts']['table'] = ['SCHEMA', 'm2m_%d' % k]
                if rng.random() < 0.2 and single_dst: rel['a_opts']['column'] = 'to_dst_%d' % k
                if rng.random() < 0.2 and single_src: rel['b_opts']['column'] = 'to_src_%d' % k
            src['rels'].append(rel)
    if rng.random() < 0.15:     # symmetric / self relationships
        e = rng.choice(ents)
        k = next(rel_id)
        kind = rng.choice(['self_sym', 'self_tree'])
        e['rels'].append({'shape': kind, 'src': e['name'], 'dst': e['name'], 'a': 'self%d' % k, 'b': 'back%d' % k, 'a_opts': {}, 'b_opts': {}})
    return {'stress': stress, 'entities': ents}


# =================================================================================================
# instantiate a spec on a Database
# =================================================================================================
def localize(spec, dialect):
    """replace the schema placeholder of qualified table names by a schema that is valid for the dialect"""
    return json.loads(json.dumps(spec).replace('"SCHEMA"', json.dumps(SCHEMA_OF[dialect])))


def build(db, spec):
    from pony.orm import core, Required, Optional, PrimaryKey, Set, LongStr, Json, IntArray, StrArray
    T = {'int': int, 'str': str, 'LongStr': LongStr, 'float': float, 'Decimal': Decimal, 'bool': bool, 'date': date,
         'datetime': datetime, 'time': dtime, 'timedelta': timedelta, 'UUID': UUID, 'bytes': bytes, 'Json': Json,
         'IntArray': IntArray, 'StrArray': StrArray}
    CLS = {'Required': Required, 'Optional': Optional, 'PrimaryKey': PrimaryKey, 'Set': Set}
    # relationship attributes per entity, in a stable order after the scalars
    extra = {e['name']: [] for e in spec['entities']}
    for e in spec['entities']:
        for rel in e['rels']:
            sh = rel['shape']
            if sh == 'many_to_one_req': A, B = ('Required', rel['a_opts']), ('Set', rel['b_opts'])
            elif sh == 'many_to_one_opt': A, B = ('Optional', rel['a_opts']), ('Set', rel['b_opts'])
            elif sh == 'one_to_one_req': A, B = ('Required', rel['a_opts']), ('Optional', rel['b_opts'])
            elif sh == 'one_to_one_opt': A, B = ('Optional', rel['a_opts']), ('Optional', rel['b_opts'])
            elif sh == 'many_to_many': A, B = ('Set', rel['a_opts']), ('Set', rel['b_opts'])
            elif sh == 'self_sym':
                extra[rel['src']].append((rel['a'], 'Set', rel['dst'], dict(rel['a_opts'], reverse=rel['a']))); continue
            elif sh == 'self_tree': A, B = ('Optional', rel['a_opts']), ('Set', rel['b_opts'])
            extra[rel['src']].append((rel['a'], A[0], rel['dst'], dict(A[1], reverse=rel['b'])))
            extra[rel['dst']].append((rel['b'], B[0], rel['src'], dict(B[1], reverse=rel['a'])))
    classes = {}
    for e in spec['entities']:
        ns, objs = {}, {}
        for a in e['attrs']:
            opts = dict(a['opts'])
            objs[a['name']] = ns[a['name']] = CLS[a['cls']](T[a['type']], *a['args'], **opts)
        for (aname, cls, target, opts) in extra[e['name']]:
            o = dict(opts)
            if isinstance(o.get('table'), list): o['table'] = tuple(o['table'])
            ns[aname] = CLS[cls](target, **o)
        idx = []
        if e['composite_pk']: idx.append(core.Index(*[objs[n] for n in e['composite_pk']], is_pk=True))
        for ck in e['composite_keys']: idx.append(core.Index(*[objs[n] for n in ck], is_pk=False, is_unique=True))
        for ci in e['composite_indexes']: idx.append(core.Index(*[objs[n] for n in ci], is_pk=False, is_unique=False))
        if idx: ns['_indexes_'] = idx
        if e['table'] is not None: ns['_table_'] = tuple(e['table']) if isinstance(e['table'], (list, tuple)) else e['table']
        base = classes[e['base']] if e['base'] else db.Entity
        classes[e['name']] = type(e['name'], (base,), ns)
    return classes


# =================================================================================================
# expectation: a small independent model of the documented mapping rules
# =================================================================================================
class Unmodelled(Exception):
    pass


def expectation(spec, dialect):
    N = lambda s: norm(dialect, s)
    ents = {e['name']: e for e in spec['entities']}
    def root(e):
        while e['base']: e = ents[e['base']]
        return e
    def table_of(e):
        r = root(e)
        t = r['table']
        if t is None: return N(r['name'])
        return tuple(t) if isinstance(t, (list, tuple)) else t
    has_sub = {e['name']: any(x['base'] == e['name'] for x in spec['entities']) for e in spec['entities']}
    # scalar columns and pk columns -------------------------------------------------------------
    def scalar_col(a): return a['opts'].get('column') or N(a['name'])
    def pk_attrs(e):
        r = root(e)
        if r['composite_pk']: return [a for n in r['composite_pk'] for a in r['attrs'] if a['name'] == n]
        single = [a for a in r['attrs'] if a['cls'] == 'PrimaryKey']
        return single          # empty => implicit id
    def pk_cols(e):
        pa = pk_attrs(e)
        return [scalar_col(a) for a in pa] if pa else [N('id')]
    tables = {}
    def tbl(name):
        return tables.setdefault(name, {'columns': {}, 'pk': [], 'uniques': set(), 'indexes': set(), 'fks': set(), 'sql_types': {},
                                        'sql_defaults': {}, 'explicit_index_names': set(), 'explicit_fk_names': set()})
    def add_col(t, name, notnull):
        if name in t['columns']: raise Unmodelled('model: duplicate column %r' % name)
        t['columns'][name] = notnull
    # entity tables ---------------------------------------------------------------------------------
    for e in spec['entities']:
        t = tbl(table_of(e))
        sub = e['base'] is not None
        if not sub:
            if not pk_attrs(e): add_col(t, N('id'), True)
            t['pk'] = pk_cols(e)
            if has_sub[e['name']] or any(root(x) is e and x is not e for x in spec['entities']):
                add_col(t, 'classtype', True)
        in_index = set()
        for grp in e['composite_keys'] + e['composite_indexes'] + ([e['composite_pk']] if e['composite_pk'] else []):
            in_index.update(grp)
        for a in e['attrs']:
            c = scalar_col(a)
            if a['cls'] in ('PrimaryKey',) or a['name'] in (e['composite_pk'] or []): nn = True
            elif sub: nn = False
            elif a['cls'] == 'Required': nn = True
            else:
                if a['opts'].get('nullable'): nn = False
                elif a['opts'].get('unique') or a['name'] in in_index: nn = False
                elif a['type'] in EMPTYVAL: nn = dialect != 'oracle'
                else: nn = False
            add_col(t, c, nn)
            if a['opts'].get('sql_type'): t['sql_types'][c] = a['opts']['sql_type']
            if a['opts'].get('sql_default'): t['sql_defaults'][c] = a['opts']['sql_default']
    # relationships ------------------------------------------------------------------------------------
    rel_cols = {}      # (entity, attr) -> columns
    for e in spec['entities']:
        for rel in e['rels']:
            src, dst = ents[rel['src']], ents[rel['dst']]
            sh = rel['shape']
            def fk_cols(attr_name, opts, target):
                tp = pk_cols(target)
                if opts.get('column'): cols = [opts['column']]
                elif opts.get('columns'): cols = list(opts['columns'])
                elif len(tp) == 1: cols = [N(attr_name)]
                else: cols = [N(attr_name + '_' + c) for c in tp]
                if len(cols) != len(tp): raise Unmodelled('explicit column count')
                return cols
            def add_fk(owner, attr_name, opts, target, required, rev_cascade, unique=False):
                t = tbl(table_of(owner))
                cols = fk_cols(attr_name, opts, target)
                sub = owner['base'] is not None
                nullable = (not required) or sub
                for c in cols: add_col(t, c, not nullable)
                if rev_cascade: od = 'CASCADE'
                elif not required and True: od = 'SET NULL'
                else: od = None
                t['fks'].add((tuple(cols), table_of(target), tuple(pk_cols(target)), od))
                if opts.get('fk_name'): t['explicit_fk_names'].add(opts['fk_name'])
                if unique: t['uniques'].add(tuple(cols))
                ix = opts.get('index')
                if ix is not False:
                    t.setdefault('fk_index_candidates', []).append(tuple(cols))
                    if isinstance(ix, str): t['explicit_index_names'].add(ix)
                rel_cols[(owner['name'], attr_name)] = cols
            if sh in ('many_to_one_req', 'many_to_one_opt', 'self_tree'):
                req = sh == 'many_to_one_req'
                cd = rel['b_opts'].get('cascade_delete')
                rev_cascade = cd if cd is not None else req
                if cd is True and False: pass
                add_fk(src, rel['a'], rel['a_opts'], dst, req, rev_cascade, unique=bool(rel['a_opts'].get('unique')))
            elif sh == 'one_to_one_req':
                add_fk(src, rel['a'], rel['a_opts'], dst, True, bool(rel['b_opts'].get('cascade_delete')), unique=False)
                tbl(table_of(src))['one_to_one_fk'] = True
            elif sh == 'one_to_one_opt':
                # which side holds the column: explicit column wins, else the entity whose name sorts first
                if rel['a_opts'].get('column'): owner, oname, oopts, target, other_opts = src, rel['a'], rel['a_opts'], dst, rel['b_opts']
                elif src['name'] > dst['name']: owner, oname, oopts, target, other_opts = dst, rel['b'], rel['b_opts'], src, rel['a_opts']
                else: owner, oname, oopts, target, other_opts = src, rel['a'], rel['a_opts'], dst, rel['b_opts']
                add_fk(owner, oname, oopts, target, False, bool(other_opts.get('cascade_delete')), unique=False)
            elif sh in ('many_to_many', 'self_sym'):
                if sh == 'self_sym':
                    tname = rel['a_opts'].get('table') or N(src['name'] + '_' + rel['a'])
                    c1 = [N(src['name'].lower())] if len(pk_cols(src)) == 1 else [N(src['name'].lower() + '_' + c) for c in pk_cols(src)]
                    c2 = [c + '_2' for c in c1]
                    ends = [(src, c1), (src, c2)]
                else:
                    first, second = (src, dst) if src['name'] <= dst['name'] else (dst, src)
                    explicit = rel['a_opts'].get('table') or rel['b_opts'].get('table')
                    tname = explicit or N(first['name'] + '_' + second['name'])
                    def link_cols(ent, opts_of_other_side):
                        # the column that references `ent` is named by the OTHER side's `column` option
                        if opts_of_other_side.get('column'): return [opts_of_other_side['column']]
                        p = pk_cols(ent)
                        return [N(ent['name'].lower())] if len(p) == 1 else [N(ent['name'].lower() + '_' + c) for c in p]
                    cs = link_cols(src, rel['b_opts']); cd_ = link_cols(dst, rel['a_opts'])
                    if len(cs) != len(pk_cols(src)) or len(cd_) != len(pk_cols(dst)): raise Unmodelled('m2m explicit column count')
                    ends = [(first, cs if first is src else cd_), (second, cd_ if first is src else cs)]
                if isinstance(tname, list): tname = tuple(tname)
                if tname in tables:
                    # pony appends _2, _3, .. to a DEFAULT link-table name that is already taken
                    if sh == 'self_sym' and rel['a_opts'].get('table') or sh != 'self_sym' and explicit or not isinstance(tname, str):
                        raise Unmodelled('explicit m2m table name already used')
                    if rel['a_opts'].get('column') or rel['b_opts'].get('column'): raise Unmodelled('suffixed m2m table with explicit columns')
                    k = 2
                    while '%s_%d' % (tname, k) in tables: k += 1
                    tname = '%s_%d' % (tname, k)
                t = tbl(tname)
                t['m2m'] = True
                for ent, cols in ends:
                    for c in cols: add_col(t, c, True)
                t['pk'] = [c for _, cols in ends for c in cols]
                for ent, cols in ends:
                    t['fks'].add((tuple(cols), table_of(ent), tuple(pk_cols(ent)), 'CASCADE'))
                    t.setdefault('fk_index_candidates', []).append(tuple(cols))
    # indexes ------------------------------------------------------------------------------------------
    for e in spec['entities']:
        t = tbl(table_of(e))
        by = {a['name']: a for a in e['attrs']}
        for a in e['attrs']:
            if a['opts'].get('unique') and a['cls'] != 'PrimaryKey': t['uniques'].add((scalar_col(a),))
        for ck in e['composite_keys']: t['uniques'].add(tuple(scalar_col(by[n]) for n in ck))
        for ci in e['composite_indexes']: t['indexes'].add(tuple(scalar_col(by[n]) for n in ci))
        for a in e['attrs']:
            ix = a['opts'].get('index')
            if ix and not a['opts'].get('unique') and a['cls'] != 'PrimaryKey':
                t['indexes'].add((scalar_col(a),))
                if isinstance(ix, str): t['explicit_index_names'].add(ix)
            elif ix and (a['opts'].get('unique')) and isinstance(ix, str):
                t['explicit_index_names'].add(ix)
    for tname, t in tables.items():
        existing = [tuple(t['pk'])] + list(t['uniques']) + list(t['indexes'])
        for cols in t.get('fk_index_candidates', []):
            if any(x[:len(cols)] == cols for x in existing): continue
            t['indexes'].add(cols); existing.append(cols)
    return tables


# =================================================================================================
# observation: SQLite catalog
# =================================================================================================
def q(n): return '"%s"' % n.replace('"', '""')


def sqlite_catalog(filename):
    con = sqlite3.connect(filename)
    try:
        out = {}
        names = [r[0] for r in con.execute("select name from sqlite_master where type='table' and name not like 'sqlite_%'")]
        for tname in names:
            cols, pk = {}, {}
            types, dflts = {}, {}
            for cid, name, typ, notnull, dflt, pkpos in con.execute('pragma table_info(%s)' % q(tname)):
                cols[name] = bool(notnull) or pkpos > 0
                types[name] = typ; dflts[name] = dflt
                if pkpos: pk[pkpos] = name
            uniques, indexes, idx_names = set(), set(), []
            for row in con.execute('pragma index_list(%s)' % q(tname)):
                iname, unique, origin = row[1], row[2], row[3]
                icols = tuple(r[2] for r in con.execute('pragma index_info(%s)' % q(iname)))
                idx_names.append(iname)
                if origin == 'pk': continue
                (uniques if unique else indexes).add(icols)
            fks = {}
            for fid, seq, reft, frm, to, on_upd, on_del, match in con.execute('pragma foreign_key_list(%s)' % q(tname)):
                f = fks.setdefault(fid, {'t': reft, 'from': [], 'to': [], 'od': on_del})
                f['from'].append(frm); f['to'].append(to)
            out[tname] = {'columns': cols, 'pk': [pk[k] for k in sorted(pk)], 'uniques': uniques, 'indexes': indexes,
                          'fks': {(tuple(f['from']), f['t'], tuple(f['to']), None if f['od'] == 'NO ACTION' else f['od']) for f in fks.values()},
                          'types': types, 'defaults': dflts, 'index_names': idx_names}
        return out
    finally:
        con.close()


# =================================================================================================
# observation: DDL parser (the shapes dbschema.py / oracle.py emit)
# =================================================================================================
class DDLError(Exception):
    pass


def parse_name(toks, i):
    parts = []
    while i < len(toks) and toks[i][0] == 'ident':
        parts.append(toks[i][2]); i += 1
        if i < len(toks) and toks[i][1] == '.': i += 1
        else: break
    if not parts: raise DDLError('name expected at token %d' % i)
    return (parts[0] if len(parts) == 1 else tuple(parts)), i


def parse_collist(toks, i):
    if toks[i][1] != '(': raise DDLError('( expected')
    cols, i = [], i + 1
    while toks[i][1] != ')':
        if toks[i][0] == 'ident': cols.append(toks[i][2])
        elif toks[i][1] != ',': raise DDLError('unexpected token in column list: %r' % (toks[i][1],))
        i += 1
    return cols, i + 1


def split_items(toks):
    items, cur, depth = [], [], 0
    for t in toks:
        if t[1] == '(': depth += 1
        elif t[1] == ')': depth -= 1
        if t[1] == ',' and depth == 0: items.append(cur); cur = []
        else: cur.append(t)
    if cur: items.append(cur)
    return items


def parse_ddl(shimlib, dialect, statements):
    """-> (tables, objects) ; objects = list of (kind, name, table) for name checks."""
    tables, objects = {}, []
    def W(t): return t[2] if t[0] == 'word' else None
    for sql in statements:
        toks = shimlib.lex(sql, dialect, 'qmark')
        words = [W(t) for t in toks]
        if words[:2] == ['CREATE', 'TABLE']:
            name, i = parse_name(toks, 2)
            if toks[i][1] != '(': raise DDLError('CREATE TABLE: ( expected')
            depth, j = 0, i
            while True:
                if toks[j][1] == '(': depth += 1
                elif toks[j][1] == ')':
                    depth -= 1
                    if depth == 0: break
                j += 1
            body, tail = toks[i + 1:j], toks[j + 1:]
            if name in tables: raise DDLError('table %r created twice' % (name,))
            t = tables[name] = {'columns': {}, 'pk': [], 'uniques': set(), 'indexes': set(), 'fks': set(), 'types': {}, 'defaults': {},
                                'order': [], 'tail': ' '.join(x[1] for x in tail)}
            objects.append(('table', name, name))
            for item in split_items(body):
                iw = [W(x) for x in item]
                if item[0][0] == 'ident':
                    cname = item[0][2]
                    if cname in t['columns']: raise DDLError('column %r twice in %r' % (cname, name))
                    objects.append(('column', cname, name))
                    stop = len(item)
                    for k in range(1, len(item)):
                        if iw[k] in ('PRIMARY', 'UNIQUE', 'NOT', 'DEFAULT', 'REFERENCES', 'AUTO_INCREMENT', 'AUTOINCREMENT'): stop = k; break
                    typ = ' '.join(x[1] for x in item[1:stop])
                    rest = iw[stop:]
                    text_rest = ' '.join(x[1] for x in item[stop:])
                    is_pk = 'PRIMARY' in rest or typ.upper().endswith('PRIMARY KEY')
                    if 'PRIMARY KEY' in typ.upper(): is_pk = True
                    notnull = is_pk or bool(re.search(r'\bNOT NULL\b', text_rest, re.I))
                    t['columns'][cname] = notnull; t['types'][cname] = typ; t['order'].append(cname)
                    if is_pk: t['pk'] = [cname]
                    if 'UNIQUE' in rest and not is_pk: t['uniques'].add((cname,))
                    m = re.search(r'\bDEFAULT\s+(.*?)(?:\s+(?:UNIQUE|NOT NULL|PRIMARY KEY|REFERENCES)\b|$)', text_rest, re.I)
                    if m: t['defaults'][cname] = m.group(1)
                    if 'REFERENCES' in rest:
                        k = stop + rest.index('REFERENCES')
                        rname, k2 = parse_name(item, k + 1)
                        rcols, k3 = parse_collist(item, k2)
                        od = None
                        tailw = [W(x) for x in item[k3:]]
                        if tailw[:2] == ['ON', 'DELETE']: od = ' '.join(w for w in tailw[2:] if w)
                        t['fks'].add(((cname,), rname, tuple(rcols), od))
                else:
                    k, cons_name = 0, None
                    if iw[0] == 'CONSTRAINT':
                        cons_name, k = parse_name(item, 1)
                    if iw[k:k + 2] == ['PRIMARY', 'KEY']:
                        cols, _ = parse_collist(item, k + 2)
                        t['pk'] = cols
                        for c in cols: t['columns'][c] = True if c in t['columns'] else t['columns'].get(c)
                        if cons_name: objects.append(('constraint', cons_name, name))
                    elif iw[k] == 'UNIQUE':
                        cols, _ = parse_collist(item, k + 1)
                        t['uniques'].add(tuple(cols))
                        if cons_name: objects.append(('unique', cons_name, name))
                    elif iw[k:k + 2] == ['FOREIGN', 'KEY']:
                        cols, k2 = parse_collist(item, k + 2)
                        if W(item[k2]) != 'REFERENCES': raise DDLError('REFERENCES expected')
                        rname, k3 = parse_name(item, k2 + 1)
                        rcols, k4 = parse_collist(item, k3)
                        tailw = [W(x) for x in item[k4:]]
                        od = ' '.join(w for w in tailw[2:] if w) if tailw[:2] == ['ON', 'DELETE'] else None
                        t['fks'].add((tuple(cols), rname, tuple(rcols), od))
                        if cons_name: objects.append(('fk', cons_name, name))
                    else: raise DDLError('unrecognised table item: %s' % ' '.join(x[1] for x in item)[:80])
            for c in t['pk']:
                if c not in t['columns']: raise DDLError('pk column %r not declared' % c)
                t['columns'][c] = True
        elif words[0] == 'CREATE' and 'INDEX' in words[:3]:
            unique = words[1] == 'UNIQUE'
            i = words.index('INDEX') + 1
            iname, i = parse_name(toks, i)
            if W(toks[i]) != 'ON': raise DDLError('ON expected')
            tname, i = parse_name(toks, i + 1)
            if W(toks[i]) == 'USING': i += 2
            cols, _ = parse_collist(toks, i)
            if tname not in tables: raise DDLError('index on unknown table %r' % (tname,))
            (tables[tname]['uniques'] if unique else tables[tname]['indexes']).add(tuple(cols))
            objects.append(('index', iname, tname))
        elif words[:2] == ['ALTER', 'TABLE']:
            tname, i = parse_name(toks, 2)
            if W(toks[i]) != 'ADD': raise DDLError('ADD expected')
            i += 1
            cons_name = None
            if W(toks[i]) == 'CONSTRAINT': cons_name, i = parse_name(toks, i + 1)
            if [W(toks[i]), W(toks[i + 1])] != ['FOREIGN', 'KEY']: raise DDLError('FOREIGN KEY expected')
            cols, i = parse_collist(toks, i + 2)
            if W(toks[i]) != 'REFERENCES': raise DDLError('REFERENCES expected')
            rname, i = parse_name(toks, i + 1)
            rcols, i = parse_collist(toks, i)
            tailw = [W(x) for x in toks[i:]]
            od = ' '.join(w for w in tailw[2:] if w) if tailw[:2] == ['ON', 'DELETE'] else None
            if tname not in tables: raise DDLError('FK on unknown table %r' % (tname,))
            if rname not in tables: raise DDLError('FK references table %r that is not created (yet)' % (rname,))
            tables[tname]['fks'].add((tuple(cols), rname, tuple(rcols), od))
            objects.append(('fk', cons_name, tname))
        elif words[:2] == ['CREATE', 'SEQUENCE']:
            sname, i = parse_name(toks, 2)
            objects.append(('sequence', sname, None))
        elif words[:2] == ['CREATE', 'TRIGGER']:
            trname, i = parse_name(toks, 2)
            objects.append(('trigger', trname, None))
        else:
            raise DDLError('unrecognised DDL statement: %s' % sql[:80])
    return tables, objects


def name_problems(dialect, objects, default_schema):
    """length and distinctness per namespace"""
    problems = []
    limit = MAXLEN[dialect]
    def base(n): return n if isinstance(n, str) else n[-1]
    def schema(n): return default_schema if isinstance(n, str) else n[0]
    for kind, name, table in objects:
        if name is None: continue
        for part in ([name] if isinstance(name, str) else name):
            if len(part) > limit: problems.append(('too_long', kind, name, len(part)))
    ns = {}
    def put(space, key, what):
        ns.setdefault(space, {}).setdefault(key, []).append(what)
    ci = (lambda s: s.lower())
    for kind, name, table in objects:
        if name is None: continue
        b, s = base(name), schema(name)
        if dialect == 'mysql':
            if kind == 'table': put(('tables', ci(s)), ci(b), name)
            elif kind == 'column': put(('columns', table), ci(b), name)
            elif kind in ('index', 'unique'): put(('indexes', table), ci(b), name)
            elif kind == 'fk': put(('fks', ci(schema(table))), ci(b), name)
            elif kind == 'constraint': put(('indexes', table), ci(b), name)
        elif dialect == 'postgres':
            if kind in ('table', 'index', 'unique', 'constraint'):
                # UNIQUE / PRIMARY KEY constraints create an index of the same name in the table's schema
                put(('relations', s if kind == 'table' else schema(table)), b, name)
            if kind == 'column': put(('columns', table), b, name)
            if kind in ('fk', 'unique', 'constraint'): put(('constraints', table), b, name)
        elif dialect == 'oracle':
            if kind in ('table', 'sequence'): put(('objects', s), b, name)
            elif kind == 'index': put(('indexes', schema(table)), b, name)
            elif kind in ('fk', 'unique', 'constraint'): put(('constraints', schema(table)), b, name)
            elif kind == 'trigger': put(('triggers', s), b, name)
            elif kind == 'column': put(('columns', table), b, name)
            if kind in ('unique', 'constraint'): put(('indexes', schema(table)), b, name)
        else:
            put((kind if kind != 'column' else ('columns', table)), ci(b), name)
    for space, d in ns.items():
        for key, whats in d.items():
            if len(whats) > 1: problems.append(('duplicate', space, key, whats))
    return problems


# =================================================================================================
# comparison
# =================================================================================================
def compare(expected, observed, dialect):
    """-> list of difference strings"""
    diffs = []
    def key(n): return n if isinstance(n, str) else tuple(n)
    exp = {key(k): v for k, v in expected.items()}
    obs = {key(k): v for k, v in observed.items()}
    if dialect == 'sqlite':
        exp = {(k if isinstance(k, str) else k[-1]): v for k, v in exp.items()}
    if set(exp) != set(obs):
        diffs.append('tables: expected %s, observed %s' % (sorted(map(str, exp)), sorted(map(str, obs))))
        return diffs
    def reft(n): return (n if isinstance(n, str) else (n[-1] if dialect == 'sqlite' else tuple(n)))
    for tn in exp:
        e, o = exp[tn], obs[tn]
        if set(e['columns']) != set(o['columns']):
            diffs.append('%s: columns expected %s observed %s' % (tn, sorted(e['columns']), sorted(o['columns']))); continue
        for c in e['columns']:
            if bool(e['columns'][c]) != bool(o['columns'][c]):
                diffs.append('%s.%s: NOT NULL expected %s observed %s' % (tn, c, e['columns'][c], o['columns'][c]))
        if list(e['pk']) != list(o['pk']): diffs.append('%s: primary key expected %s observed %s' % (tn, e['pk'], o['pk']))
        if set(e['uniques']) != set(o['uniques']): diffs.append('%s: unique constraints expected %s observed %s' % (tn, sorted(e['uniques']), sorted(o['uniques'])))
        if set(e['indexes']) != set(o['indexes']): diffs.append('%s: indexes expected %s observed %s' % (tn, sorted(e['indexes']), sorted(o['indexes'])))
        ef = {(c, reft(t), rc, od) for (c, t, rc, od) in e['fks']}
        of = {(c, reft(t), rc, od) for (c, t, rc, od) in o['fks']}
        if ef != of: diffs.append('%s: foreign keys expected %s observed %s' % (tn, sorted(ef, key=repr), sorted(of, key=repr)))
        types = o.get('types', {})
        for c, st in e.get('sql_types', {}).items():
            if types.get(c, '').upper().replace(' ', '') != st.upper().replace(' ', ''):
                diffs.append('%s.%s: sql_type %r not used (column type %r)' % (tn, c, st, types.get(c)))
        for c, sd in e.get('sql_defaults', {}).items():
            d = o.get('defaults', {}).get(c)
            if d is None or str(d).strip().upper() != sd.upper():
                diffs.append('%s.%s: sql_default %r not emitted (%r)' % (tn, c, sd, d))
    return diffs


# =================================================================================================
# CRUD smoke (SQLite)
# =================================================================================================
def crud_smoke(db, spec, classes):
    from pony.orm import db_session, select, commit
    ents = {e['name']: e for e in spec['entities']}
    made = {}
    counter = itertools.count()
    def root(e):
        while e['base']: e = ents[e['base']]
        return e
    with db_session:
        for e in spec['entities']:
            chain, x = [], e
            while x: chain.insert(0, x); x = ents[x['base']] if x['base'] else None
            kw = {}
            i = next(counter)
            for lvl in chain:
                for a in lvl['attrs']:
                    needs = a['cls'] == 'Required' or (a['cls'] == 'PrimaryKey' and not a['opts'].get('auto')) or a['opts'].get('unique')
                    if needs and not (a['cls'] == 'Required' and (a['opts'].get('sql_default') or a['opts'].get('default') is not None) and False):
                        kw[a['name']] = SAMPLE[a['type']](i)
                for rel in lvl['rels']:
                    if rel['shape'] in ('many_to_one_req', 'one_to_one_req'):
                        tgt = made.get(rel['dst'])
                        if tgt is None: return 'skipped: required target missing'
                        if rel['shape'] == 'one_to_one_req' and getattr(tgt, rel['b']) is not None: return 'skipped: 1-1 target taken'
                        kw[rel['a']] = tgt
            made[e['name']] = classes[e['name']](**kw)
        commit()
    with db_session:
        for e in spec['entities']:
            cls = classes[e['name']]
            n = select(x for x in cls).count()
            want = 1 + sum(1 for y in spec['entities'] if y is not e and is_descendant(ents, y, e))
            if n != want: return 'count of %s is %d, expected %d' % (e['name'], n, want)
        for e in reversed(spec['entities']):
            for obj in select(x for x in classes[e['name']])[:]: obj.delete()
        commit()
    with db_session:
        for e in spec['entities']:
            if select(x for x in classes[e['name']]).count() != 0: return 'rows of %s survive delete' % e['name']
    return None


def is_descendant(ents, y, e):
    while y['base']:
        y = ents[y['base']]
        if y is e: return True
    return False


# =================================================================================================
def run(ctx):
    from pony.orm import Database, db_session
    from pony.orm import core as pcore, dbapiprovider
    from pony.orm.core import ERDiagramError, MappingError, DBSchemaError
    from vlib import shimlib
    quick = ctx.tier == 'quick'
    n_specs = 1000 if quick else 1500
    forced = getattr(ctx, 'forced_case', None)
    if forced: n_specs = 1
    stresses = [None, None, None, 'long_entities', 'long_attrs', 'beyond_cut', 'case_only']
    REJECT = (ERDiagramError, MappingError, DBSchemaError, TypeError, ValueError, NotImplementedError, AttributeError)
    rng = ctx.subrng('specs', ctx.shard)
    agg = {}
    def report(mech, witness):
        ent = agg.setdefault(mech, [0, witness]); ent[0] += 1
    for si in range(n_specs):
        stress = stresses[si % len(stresses)]
        spec = forced[0] if forced else gen_spec(rng, stress)
        spec_json = json.dumps(spec, sort_keys=True, default=str)
        for dialect in ([forced[1]] if forced else DIALECTS):
            ctx.count('diagrams.%s' % dialect)
            db = Database()
            fn = None
            try:
                if dialect == 'sqlite':
                    fn = os.path.join(ctx.tmp(), 'c26-%d-%d.sqlite' % (ctx.shard, si))
                    db.bind('sqlite', fn, create_db=True)
                    log = None
                else:
                    log = shimlib.bind(db, dialect)
                    mark = log.mark()
            except Exception as e:
                ctx.inconclusive.append('bind %s failed: %r' % (dialect, e)); return
            spec_d = localize(spec, dialect)
            w = {'dialect': dialect, 'stress': stress, 'spec': spec_d}
            phase = 'declare'
            try:
                classes = build(db, spec_d)
                phase = 'generate_mapping'
                if dialect == 'sqlite' and any(isinstance(e['table'], (list, tuple)) for e in spec['entities']):
                    pass
                db.generate_mapping(create_tables=True)
            except (REJECT + (AssertionError,)) as e:
                if isinstance(e, AssertionError): ctx.count('outcome.rejected_by_assertion_crash')
                msg_key = re.sub(r"[A-Z]\w*\.\w+|'[^']*'|\b\w*\d\w*\b|`[^`]*`|\"[^\"]*\"", '_', '%s: %s' % (type(e).__name__, str(e)))[:90]
                rej = ctx.extra.setdefault('rejection_reasons', {})
                rej[msg_key] = rej.get(msg_key, 0) + 1
                ctx.case(('rejected', dialect, spec_json), nontrivial=False)
                ctx.count('outcome.rejected'); ctx.count('outcome.rejected.%s' % dialect)
                ctx.count('rejected_by.%s' % type(e).__name__)
                if ctx.counters['outcome.rejected'] <= 6:
                    ctx.extra.setdefault('rejection_examples', []).append({'dialect': dialect, 'phase': phase, 'error': '%s: %s' % (type(e).__name__, str(e)[:160])})
                db_disconnect(db); continue
            except dbapiprovider.DBException as e:
                # the backend refused DDL that pony generated for a declaration it accepted
                ctx.case(('backend_error', dialect, spec_json), sample=None)
                msg = '%s: %s' % (type(e).__name__, str(e)[:200])
                ctx.count('outcome.backend_error')
                mech = sqlite_failure_mechanism(spec_d, dialect, str(e))
                if mech:
                    ctx.count('outcome.known_mechanism.' + mech)
                    ctx.finding(mech, dict(w, error=msg, last_sql=getattr(db, 'last_sql', None)))
                else:
                    report('%s CREATE failed: %s' % (dialect, re.sub(r'["\'`].*', '', str(e))[:60]), dict(w, error=msg))
                db_disconnect(db); continue
            except Exception as e:
                ctx.case(('crash', dialect, spec_json), sample=None)
                ctx.count('outcome.unexpected_exception')
                report('%s %s raised %s' % (dialect, phase, type(e).__name__), dict(w, error=repr(e)[:300]))
                db_disconnect(db); continue
            # accepted: observe ---------------------------------------------------------------------------
            ctx.count('outcome.accepted'); ctx.count('outcome.accepted.%s' % dialect)
            try:
                expected = expectation(spec_d, dialect)
            except Unmodelled as e:
                ctx.count('outcome.unsupported'); ctx.count('unsupported.%s' % str(e)[:40])
                ctx.case(('unmodelled', dialect, spec_json), nontrivial=False)
                db_disconnect(db); continue
            try:
                if dialect == 'sqlite':
                    observed = sqlite_catalog(fn)
                    problems = []
                else:
                    ddl = [e['sql'] for e in log.statements(mark)
                           if e['sql'].lstrip().upper().startswith(('CREATE', 'ALTER'))]
                    observed, objects = parse_ddl(shimlib, dialect, ddl)
                    problems = name_problems(dialect, objects, db.provider.default_schema_name or 'default')
                    ctx.count('ddl_statements_parsed', len(ddl))
            except (DDLError, shimlib.LexError) as e:
                ctx.case(('ddl_unparsed', dialect, spec_json))
                report('%s DDL not parseable' % dialect, dict(w, error=str(e)))
                db_disconnect(db); continue
            diffs = compare(expected, observed, dialect)
            ntab = len(observed)
            ctx.case((dialect, spec_json), nontrivial=ntab > 0,
                     sample=None if (si % 40 or dialect != 'postgres') else {'dialect': dialect, 'stress': stress, 'tables': sorted(map(str, observed)),
                                                                              'entities': [e['name'] for e in spec['entities']]})
            ctx.count('tables_compared', ntab); ctx.count('tables_compared.%s' % dialect, ntab)
            ctx.count('columns_compared', sum(len(t['columns']) for t in observed.values()))
            ctx.count('fks_compared', sum(len(t['fks']) for t in observed.values()))
            ctx.count('indexes_compared', sum(len(t['indexes']) + len(t['uniques']) for t in observed.values()))
            if stress: ctx.count('stress_accepted.%s' % stress)
            if diffs:
                ctx.count('outcome.structure_differs')
                report('%s structure: %s' % (dialect, re.sub(r"[^:]*: ", '', diffs[0], 1).split(' expected')[0][:40]), dict(w, differences=diffs[:6]))
            else: ctx.count('outcome.structure_agrees')
            for p in problems:
                mech = name_problem_mechanism(dialect, p)
                ctx.count('outcome.name_problem')
                if mech:
                    ctx.count('outcome.known_mechanism.' + mech)
                    ctx.finding(mech, dict(w, problem=repr(p)))
                else:
                    report('%s name %s (%s)' % (dialect, p[0], p[1] if p[0] == 'too_long' else (p[1][0] if isinstance(p[1], tuple) else p[1])), dict(w, problem=repr(p)))
            if dialect == 'sqlite':
                try:
                    db.check_tables(); ctx.count('check_tables_passed')
                except Exception as e:
                    report('sqlite check_tables failed', dict(w, error=repr(e)[:300]))
                try:
                    r = crud_smoke(db, spec_d, classes)
                    if r is None: ctx.count('crud_smoke_ok')
                    elif r.startswith('skipped'): ctx.count('crud_smoke_skipped')
                    else: report('sqlite CRUD smoke: %s' % r.split(' of ')[0][:30], dict(w, error=r))
                except Exception as e:
                    ctx.count('crud_smoke_raised.%s' % type(e).__name__)
                    if ctx.counters['crud_smoke_raised.%s' % type(e).__name__] <= 2:
                        ctx.extra.setdefault('crud_smoke_errors', []).append('%s: %s' % (type(e).__name__, str(e)[:200]))
            db_disconnect(db)
        if fn and os.path.exists(fn):
            try: os.remove(fn)
            except OSError: pass
    for mech, (n, wit) in sorted(agg.items()):
        ctx.violation(dict(wit, occurrences=n), mechanism=mech[:100])
    ctx.extra['disagreement_signatures'] = {m: n for m, (n, _) in sorted(agg.items())}
    if forced: return
    for d in DIALECTS:
        ctx.floor('outcome.accepted.%s' % d, 200)
        ctx.floor('tables_compared.%s' % d, 500)
    ctx.floor('fks_compared', 800)
    ctx.floor('indexes_compared', 1500)
    ctx.floor('check_tables_passed', 200)
    ctx.floor('crud_smoke_ok', 150)
    for st in ('long_entities', 'long_attrs', 'beyond_cut'):
        ctx.floor('stress_accepted.%s' % st, 50)


def db_disconnect(db):
    try: db.disconnect()
    except Exception: pass
    try:
        from pony.orm import core
        core.local.db2cache.pop(db, None)
    except Exception: pass


def sqlite_failure_mechanism(spec, dialect, msg):
    """Narrow classification of a backend refusal: SQLite compares column names case-insensitively, pony's
    duplicate check (Table.column_dict) is case-sensitive."""
    if dialect == 'sqlite' and 'duplicate column name' in msg:
        try: tables = expectation(spec, 'sqlite')
        except Unmodelled:
            # coarse fallback: names of scalar columns per hierarchy
            ents = {e['name']: e for e in spec['entities']}
            def root(e):
                while e['base']: e = ents[e['base']]
                return e['name']
            tables = {}
            for e in spec['entities']:
                t = tables.setdefault(root(e), {'columns': {}})
                for a in e['attrs']: t['columns'][a['opts'].get('column') or a['name']] = True
        for t in tables.values():
            low = [c.lower() for c in t['columns']]
            if len(set(low)) < len(low): return 'C26-SQLITE-COLUMN-CASE-CLASH'
    if dialect == 'sqlite' and 'near ".": syntax error' in msg:
        # CREATE INDEX .. ON "main"."t" / REFERENCES "main"."t": SQLite wants the schema on the index name / no schema at all
        qualified = any(isinstance(e['table'], (list, tuple)) for e in spec['entities']) or \
            any(isinstance(r['a_opts'].get('table'), (list, tuple)) for e in spec['entities'] for r in e['rels'])
        if qualified: return 'C26-SQLITE-QUALIFIED-TABLE-DDL'
    return None


def name_problem_mechanism(dialect, p):
    if dialect == 'oracle' and p[0] == 'too_long' and p[1] in ('sequence', 'trigger'):
        base = p[2] if isinstance(p[2], str) else p[2][-1]
        for suffix in ('_SEQ', '_BI'):
            if base.endswith(suffix) and len(base) - len(suffix) <= MAXLEN['oracle']: return 'C26-ORACLE-SEQ-TRIGGER-NAME-LENGTH'
    if dialect == 'oracle' and p[0] == 'duplicate' and p[1][0] == 'objects':
        whats = p[3]
        if all(isinstance(w, tuple) and len(w) == 2 and w[1] == w[0] + '_SEQ' for w in whats): return 'C26-ORACLE-QUALIFIED-SEQUENCE-NAME'
    if p[0] == 'too_long' and p[1] == 'column' and isinstance(p[2], str) and p[2].endswith('_2') and len(p[2]) - 2 <= MAXLEN[dialect]:
        return 'C26-SELF-M2M-COLUMN-SUFFIX-LENGTH'
    if dialect == 'mysql' and p[0] == 'duplicate' and isinstance(p[1], tuple) and p[1][0] == 'columns':
        whats = p[3]
        if len(set(whats)) == len(whats) and len({w.lower() for w in whats}) == 1: return 'C26-MYSQL-EXPLICIT-COLUMN-CASE-CLASH'
    return None


def replay(ctx, witness):
    """Re-run exactly one (spec, dialect) pair of a witness."""
    ctx.forced_case = (witness['spec'], witness['dialect'])
    run(ctx)

"""C08 — validation enforces declared attribute constraints.

Bounded-exhaustive boundary enumeration: every declaration of the grid (kind x type x min x max x size x
unsigned x max_len x autostrip x nullable x py_check x precision) is mapped by the real pony on an in-memory
SQLite database; every candidate value (bounds +-1, extremes of the size, None, '', padded strings, foreign
types) is pushed through every write/lookup path of the real Entity API and the outcome (accepted value or
exception) is judged by a small declarative model of the documented rules.  A disagreement is re-judged with
the listed deviation rules switched on; it is a finding only if the deviant model reproduces pony's answer.
"""

META = {
    'level': 'exploration',
    'engine': '',
    'technique': 'runtime differential monitor: declarative constraint model vs outcome of the real '
                 'constructor / assignment / set() / get / exists / select paths, bounded-exhaustive boundary grid',
    'level_text': 'Every (declaration, candidate value, path) triple of a finite boundary grid is executed on the real '
                  'code and judged by an independent model of the declared constraints (accept iff all hold; accepted '
                  'value equals the normalised value). Exhaustive on the stated grid, nothing is claimed outside it.',
    'level_note': 'Trusted base: the ~80-line constraint model in this file (default int size 32, Optional non-string '
                  'attributes nullable, Optional strings not nullable, conversions as performed by the Converter '
                  'classes: int(str), float(x), Decimal(x), strip, bool(x), str->date/time, precision truncation). '
                  'SQLite provider only (varchar default length absent, no unsigned 64). Lambda queries are judged only '
                  'for valid canonical values (pony does not validate lambda parameters; recorded, not flagged).',
    'rule': 'case = (declaration, candidate value, path); declarations = product of Required/Optional x type '
            '(int,float,Decimal,str,LongStr,bool,date,datetime,time,timedelta) x min,max in {None,negative,0,positive} '
            '(thorough adds -1 and 1) x int size {None,8,16,24,32,64} x unsigned x max_len {None,0,1,5,positional 5} x autostrip x nullable '
            '{None,True,False} x py_check {None,predicate} x precision; quick rotates nullable/py_check over the int '
            'grid instead of multiplying; candidates = each bound -1/0/+1, extremes of the size -1/0/+1, 0, None, '
            "'', whitespace-padded and over-long strings, convertible and non-convertible foreign types; paths = "
            'ctor, assign, set, get, exists, select(kw), select(lambda). Distinct = distinct triple; trivial = none '
            '(declarations pony rejects at mapping time are counted and skipped). Relationship part: to-one attribute '
            'Required/Optional x nullable {None,True,False} x py_check {None, by target pk, by target attribute} x reverse '
            '{Set, one-to-one Optional, target with composite pk}; candidates = each of 5 target objects as instance and '
            'as raw pk (also 1-tuple / str-convertible pk), None, wrong arity, wrong type, object of another entity, '
            'missing target (no reference); same seven paths.',
    'assumptions': [
        'documented normalisation is taken from the Converter classes (no docs in the tree): str->int via int(), '
        'anything->float via float(), float->Decimal via repr, str autostrip default True, bool(x), '
        'datetime->date, ISO strings for date/time types, microseconds truncated to the declared precision',
        'plain int is 32-bit signed unless size/unsigned say otherwise (pony default size)',
        'NaN against min/max has no reference (skipped); date-only strings for datetime are outside the model',
        'SQLite provider; other providers differ only in varchar default length and uint64 support',
        'relationship attributes: Optional to-one attributes are nullable; a raw pk (or tuple of raw pk columns, with the '
        'pk attribute\'s own conversion) denotes the target object; existence of the target row is not a declared constraint',
    ],
    'shims': [],
    'exhaustive_tiers': ['quick', 'thorough'],
}
SHARDS = {'quick': 1, 'thorough': 16}
SHARD_TIMEOUT = {'quick': 300, 'thorough': 1500}

import re, math, itertools
from datetime import date, time, datetime, timedelta
from decimal import Decimal, InvalidOperation

PATHS = ('ctor', 'assign', 'set', 'get', 'exists', 'select_kw', 'select_lambda')
FREE = ('free',)
REJECT = ('reject',)

# ----------------------------------------------------------------------------------------------------
# py_check predicates (ours, deterministic; one per type)
PYCHECK = {
    'int': lambda v: v % 3 != 1,
    'float': lambda v: v != 1.5,
    'Decimal': lambda v: v != Decimal('1.5'),
    'str': lambda s: 'x' not in s,
    'LongStr': lambda s: 'x' not in s,
    'bool': lambda v: bool(v),
    'date': lambda d: d.year != 2001,
    'datetime': lambda d: d.year != 2001,
    'time': lambda t: t.hour != 13,
    'timedelta': lambda d: d.days != 13,
}


# ----------------------------------------------------------------------------------------------------
# the declarative model
def int_range(decl):
    size = decl.get('size') or 32                      # documented default
    if decl.get('unsigned'): return 0, 2 ** size - 1
    return -(2 ** (size - 1)), 2 ** (size - 1) - 1


_td_re = re.compile(r'^(-?)(\d+):(\d+):(\d+)(?:\.(\d+))?$')
_time_re = re.compile(r'^(\d{1,2}):(\d{1,2}):(\d{1,2})(?:\.(\d{1,6}))?$')
_dt_re = re.compile(r'^(\d{4})-(\d{1,2})-(\d{1,2}) (\d{1,2}):(\d{1,2}):(\d{1,2})(?:\.(\d{1,6}))?$')


def _trunc(us, precision):
    if precision is None or precision >= 6: return us
    r = 10 ** (6 - precision)
    return us // r * r


def convert(decl, v):
    """documented normalisation: canonical typed value, or REJECT, or FREE (no reference)."""
    t = decl['type']
    if t == 'int':
        if isinstance(v, int): return v                       # bool is an int
        if isinstance(v, str):
            try: return int(v)
            except ValueError: return REJECT
        return REJECT
    if t == 'float':
        if isinstance(v, (bytes, bytearray)): return FREE    # float(b'1') happens to work; not a documented input
        try: return float(v)
        except (TypeError, ValueError, OverflowError, InvalidOperation): return REJECT
    if t == 'Decimal':
        if isinstance(v, float): v = repr(v)
        try: n = Decimal(v)                                   # whatever the Decimal constructor takes
        except (InvalidOperation, TypeError, ValueError): return REJECT
        if n.is_nan(): return n
        ps = decl.get('prec_scale') or (12, 2)
        # values the declared precision cannot hold (or infinities) are refused by the storage conversion later;
        # precision is not among the constraints the property lists -> no reference
        if not n.is_finite() or abs(n) >= Decimal(10) ** (ps[0] - ps[1]): return FREE
        return n
    if t in ('str', 'LongStr'):
        if not isinstance(v, str): return REJECT
        autostrip = decl.get('autostrip')
        if autostrip is None: autostrip = True
        return v.strip() if autostrip else v
    if t == 'bool':
        return bool(v)
    if t == 'date':
        if isinstance(v, datetime): return v.date()
        if isinstance(v, date): return v
        if isinstance(v, str):
            for fmt in ('%Y-%m-%d', '%d.%m.%Y', '%m/%d/%Y'):
                try: return datetime.strptime(v, fmt).date()
                except ValueError: pass
            return REJECT
        return REJECT
    p = decl.get('precision')
    if t == 'datetime':
        if isinstance(v, str):
            m = _dt_re.match(v)
            if not m: return REJECT
            y, mo, d, hh, mm, ss, f = m.groups()
            try: v = datetime(int(y), int(mo), int(d), int(hh), int(mm), int(ss), int(((f or '') + '000000')[:6]))
            except ValueError: return REJECT
        if not isinstance(v, datetime): return REJECT
        return v.replace(microsecond=_trunc(v.microsecond, p))
    if t == 'time':
        if isinstance(v, str):
            m = _time_re.match(v)
            if not m: return REJECT
            hh, mm, ss, f = m.groups()
            try: v = time(int(hh), int(mm), int(ss), int(((f or '') + '000000')[:6]))
            except ValueError: return REJECT
        if not isinstance(v, time): return REJECT
        return v.replace(microsecond=_trunc(v.microsecond, p))
    if t == 'timedelta':
        if isinstance(v, str):
            m = _td_re.match(v)
            if not m: return REJECT
            sign, h, mi, s, f = m.groups()
            v = timedelta(hours=int(h), minutes=int(mi), seconds=int(s), microseconds=int(((f or '') + '000000')[:6]))
            if sign: v = -v
        if not isinstance(v, timedelta): return REJECT
        return timedelta(v.days, v.seconds, _trunc(v.microseconds, p))
    raise AssertionError(t)


def is_nan(x):
    return (isinstance(x, float) and x != x) or (isinstance(x, Decimal) and x.is_nan())


def model(decl, v, ignore=()):
    """('accept', n) | REJECT | FREE.  `ignore` = names of constraints a deviation rule treats as absent."""
    t = decl['type']
    if v is None:
        if decl['kind'] == 'Required': return REJECT
        nullable = decl.get('nullable')
        if t not in ('str', 'LongStr'): nullable = True     # Optional non-string attributes are always nullable
        return ('accept', None) if nullable else REJECT
    n = convert(decl, v)
    if n is REJECT or n is FREE: return n
    if t == 'int':
        lo, hi = int_range(decl)
        mn, mx = decl.get('min'), decl.get('max')
        if 'min' in ignore: mn = None
        if 'max' in ignore: mx = None
        if n < lo or n > hi: return REJECT
        if mn is not None and n < mn: return REJECT
        if mx is not None and n > mx: return REJECT
    elif t in ('float', 'Decimal'):
        mn, mx = decl.get('min'), decl.get('max')
        if 'min' in ignore: mn = None
        if 'max' in ignore: mx = None
        if mn is not None or mx is not None:
            if is_nan(n): return FREE
            conv = float if t == 'float' else Decimal
            if mn is not None and n < conv(mn): return REJECT
            if mx is not None and n > conv(mx): return REJECT
    elif t in ('str', 'LongStr'):
        ml = decl.get('max_len')
        if 'max_len' in ignore: ml = None
        if ml is not None and len(n) > ml: return REJECT
        if decl['kind'] == 'Required' and n == '': return REJECT
    if decl.get('py_check'):
        try: ok = PYCHECK[t](n)
        except Exception: return FREE
        if not ok: return REJECT
    return ('accept', n)


def same(a, b):
    """same type (bool counts as int only when both are) and == ; NaN equals NaN."""
    if a is None or b is None: return a is b
    if is_nan(a) and is_nan(b): return type(a) is type(b)
    if type(a) is not type(b):
        if isinstance(a, str) and isinstance(b, str): return str(a) == str(b)       # LongStr subclass
        return False
    return a == b


# ----------------------------------------------------------------------------------------------------
# deviation rules (known-finding candidates): each names constraints treated as absent under a condition
def deviation_rules(decl):
    t = decl['type']
    out = []
    if t in ('int', 'float'):
        zero = [k for k in ('min', 'max') if decl.get(k) is not None and decl.get(k) == 0]
        for r in range(1, len(zero) + 1):
            for sub in itertools.combinations(zero, r):
                out.append(('C08-ZERO-BOUND-IGNORED', sub))
    if t in ('str', 'LongStr') and decl.get('max_len') == 0:
        out.append(('C08-ZERO-MAXLEN-IGNORED', ('max_len',)))
    return out


# ----------------------------------------------------------------------------------------------------
# declaration grid
def decl_key(d):
    return {k: (repr(v) if not isinstance(v, (int, str, bool, type(None))) else v) for k, v in sorted(d.items())}


def grid(tier):
    kinds = ('Required', 'Optional')
    nullables = (None, True, False)
    checks = (False, True)
    np_all = list(itertools.product(nullables, checks))
    out = []
    # int
    i = 0
    mins, maxs = ((None, -5, 0, 7), (None, -3, 0, 10)) if tier != 'thorough' else \
                 ((None, -5, -1, 0, 1, 7), (None, -3, -1, 0, 1, 10))
    for kind, mn, mx, size, uns in itertools.product(kinds, mins, maxs, (None, 8, 16, 24, 32, 64), (False, True)):
        combos = np_all if tier == 'thorough' else [np_all[i % len(np_all)]]
        i += 1
        for nullable, chk in combos:
            d = dict(kind=kind, type='int', min=mn, max=mx, nullable=nullable, py_check=chk)
            if size is not None: d['size'] = size
            if uns: d['unsigned'] = True
            out.append(d)
    # one explicit unsigned=False with no size (option given explicitly)
    out.append(dict(kind='Required', type='int', min=None, max=None, nullable=None, py_check=False, unsigned=False,
                    explicit_unsigned=True))
    # float
    for kind, mn, mx, (nullable, chk) in itertools.product(kinds, (None, -2.5, 0, 3.5), (None, -1.5, 0, 10.0), np_all):
        out.append(dict(kind=kind, type='float', min=mn, max=mx, nullable=nullable, py_check=chk))
    out.append(dict(kind='Required', type='float', min=0.0, max=None, nullable=None, py_check=False))
    out.append(dict(kind='Required', type='float', min=None, max=0.0, nullable=None, py_check=False))
    out.append(dict(kind='Required', type='float', min=-0.0, max=-0.0, nullable=None, py_check=False))
    # Decimal
    for kind, mn, mx, ps, (nullable, chk) in itertools.product(
            kinds, (None, '-2.5', 0, Decimal('3.5')), (None, -1, 0, Decimal('10')), (None, (5, 2)), np_all):
        d = dict(kind=kind, type='Decimal', min=mn, max=mx, nullable=nullable, py_check=chk)
        if ps: d['prec_scale'] = ps
        out.append(d)
    # str
    for kind, ml, autostrip, (nullable, chk) in itertools.product(
            kinds, (None, 0, 1, 5, 'pos5'), (None, True, False), np_all):
        d = dict(kind=kind, type='str', nullable=nullable, py_check=chk, autostrip=autostrip)
        if ml == 'pos5': d['max_len'] = 5; d['max_len_positional'] = True
        elif ml is not None: d['max_len'] = ml
        out.append(d)
    for kind, autostrip, (nullable, chk) in itertools.product(kinds, (None, False), np_all):
        out.append(dict(kind=kind, type='LongStr', nullable=nullable, py_check=chk, autostrip=autostrip))
    out.append(dict(kind='Required', type='LongStr', nullable=None, py_check=False, autostrip=None, max_len=5))
    # bool, date
    for t in ('bool', 'date'):
        for kind, (nullable, chk) in itertools.product(kinds, np_all):
            out.append(dict(kind=kind, type=t, nullable=nullable, py_check=chk))
    # datetime, time, timedelta with precision
    for t in ('datetime', 'time', 'timedelta'):
        for kind, prec, (nullable, chk) in itertools.product(kinds, (None, 0, 3, 6), np_all):
            d = dict(kind=kind, type=t, nullable=nullable, py_check=chk)
            if prec is not None: d['precision'] = prec
            out.append(d)
        out.append(dict(kind='Required', type=t, nullable=None, py_check=False, precision=7))
    return out


def uniq(vals):
    seen, out = set(), []
    for v in vals:
        k = (type(v).__name__, repr(v))
        if k not in seen: seen.add(k); out.append(v)
    return out


def candidates(decl):
    t = decl['type']
    if t == 'int':
        c = [0, 1, -1, 2, 3, 4, -5, -6, None, '', ' 5 ', '7', '-6', '0', 'abc', '1.5', 1.5, 5.0, True, False, [1], b'1',
             Decimal(3), 2 ** 31 - 1, 2 ** 31, -2 ** 31, -2 ** 31 - 1, 2 ** 63 - 1, 2 ** 63, -2 ** 63, -2 ** 63 - 1]
        for b in (decl.get('min'), decl.get('max')):
            if b is not None: c += [b - 1, b, b + 1]
        lo, hi = int_range(decl)
        c += [lo - 1, lo, lo + 1, hi - 1, hi, hi + 1, str(hi), str(hi + 1), str(lo - 1)]
        return uniq(c)
    if t == 'float':
        c = [0.0, -0.0, 1.5, 2.5, -5.0, 5, -5, 0, True, '1.5', ' 2.5 ', '-5', 'abc', '', None, float('inf'), float('-inf'),
             float('nan'), 1e308, -1e308, 5e-324, -5e-324, Decimal('2.5'), [1.0], b'1', 10 ** 400]
        for b in (decl.get('min'), decl.get('max')):
            if b is not None:
                b = float(b)
                c += [b - 0.5, b, b + 0.5, math.nextafter(b, math.inf), math.nextafter(b, -math.inf)]
        return uniq(c)
    if t == 'Decimal':
        c = [Decimal('0'), Decimal('1.5'), Decimal('2.50'), Decimal('-5'), Decimal('-0.01'), Decimal('0.01'), 5, -5, 0,
             1.5, 2.5, 0.1, -0.1, True, '1.5', ' 2.5 ', 'abc', '', None, Decimal('NaN'), Decimal('Infinity'),
             Decimal('-Infinity'), Decimal('1E+30'), [1], b'1', (0, (1,), 0)]
        for b in (decl.get('min'), decl.get('max')):
            if b is not None:
                b = Decimal(b)
                c += [b - Decimal('0.01'), b, b + Decimal('0.01'), float(b) - 0.5, float(b) + 0.5, int(b) - 1, int(b) + 1]
        return uniq(c)
    if t in ('str', 'LongStr'):
        c = ['', ' ', '  ', 'a', ' a', 'a ', ' a ', 'ab', 'abcde', 'abcdef', ' abcde ', '  abcdef', 'abc de', 'x', 'axb',
             'ab\n', '\tabc\t', '\n', 'a' * 255, 'a' * 256, ' ' + 'a' * 255 + ' ', 'ü' * 5, 'ü' * 6,
             '\U0001F600' * 5, '\U0001F600' * 6, 'a\x00b', None, 5, 0, b'abc', 1.5, True, ['a'], ('a',)]
        return uniq(c)
    if t == 'bool':
        return uniq([True, False, 0, 1, 2, -1, 0.0, '', 'a', 'False', None, [], [0], b'', Decimal(0)])
    if t == 'date':
        return uniq([date(2020, 1, 2), date(2001, 5, 5), date.min, date.max, datetime(2020, 1, 2, 3, 4, 5),
                     datetime(2001, 1, 2, 3, 4, 5), '2020-01-02', '2001-05-05', '02.01.2020', '1/2/2020', 'abc', '', None,
                     5, 1.5, time(1, 2), [2020, 1, 2], b'2020-01-02', '2020-13-45'])
    if t == 'datetime':
        return uniq([datetime(2020, 1, 2, 3, 4, 5, 678912), datetime(2001, 1, 2, 3, 4, 5, 999999), datetime.min,
                     datetime.max, datetime(2020, 1, 2), datetime(2020, 1, 2, 3, 4, 5, 999), date(2020, 1, 2),
                     '2020-01-02 03:04:05', '2020-01-02 03:04:05.678912', '2001-01-02 03:04:05', 'abc', '', None, 5,
                     time(1, 2), 1.5, [1]])
    if t == 'time':
        return uniq([time(1, 2, 3, 456789), time(13, 0), time.min, time.max, time(1, 2, 3), time(1, 2, 3, 999),
                     '01:02:03', '01:02:03.456789', '13:02:03', 'abc', '', None, 5, datetime(2020, 1, 2, 3, 4, 5),
                     timedelta(hours=1), 1.5, [1]])
    if t == 'timedelta':
        return uniq([timedelta(hours=1, microseconds=456789), timedelta(days=13), timedelta(microseconds=-1),
                     timedelta(0), timedelta(days=400, seconds=5, microseconds=999999), timedelta(microseconds=999),
                     timedelta(days=-3, microseconds=1234), '1:02:03', '-1:02:03.5', '312:00:00', 'abc', '', None, 5,
                     time(1, 2), 1.5, [1]])
    raise AssertionError(t)


def base_value(decl):
    """a value every sane declaration of this type should accept, distinct from most candidates"""
    t = decl['type']
    pool = {'int': [9, 6, -3, -6, 0, 3, 8, 5, 2, -9], 'float': [9.25, -1.75, 0.0, 3.75, -2.25, 8.0, 0.25],
            'Decimal': [Decimal('9.25'), Decimal('-1.75'), Decimal('0'), Decimal('3.75'), Decimal('-2.25'), Decimal('8')],
            'str': ['q', 'qq', ''], 'LongStr': ['q'], 'bool': [True, False], 'date': [date(1999, 9, 9)],
            'datetime': [datetime(1999, 9, 9, 9, 9, 9)], 'time': [time(9, 9, 9)], 'timedelta': [timedelta(hours=9)]}[t]
    for b in pool:
        m = model(decl, b)
        if m[0] == 'accept' and same(m[1], b): return b
    return None


# ----------------------------------------------------------------------------------------------------
def build(decl):
    """map one declaration on a fresh in-memory database; returns (db, Entity) or raises what pony raises"""
    from pony import orm
    from pony.orm.ormtypes import LongStr
    pytype = {'int': int, 'float': float, 'Decimal': Decimal, 'str': str, 'LongStr': LongStr, 'bool': bool, 'date': date,
              'datetime': datetime, 'time': time, 'timedelta': timedelta}[decl['type']]
    args, kw = [], {}
    for k in ('min', 'max', 'size', 'nullable', 'autostrip', 'precision'):
        if decl.get(k) is not None: kw[k] = decl[k]
    if decl.get('unsigned') is not None and (decl.get('unsigned') or decl.get('explicit_unsigned')):
        kw['unsigned'] = decl['unsigned']
    if decl.get('max_len') is not None:
        if decl.get('max_len_positional'): args.append(decl['max_len'])
        else: kw['max_len'] = decl['max_len']
    if decl.get('prec_scale'): args.extend(decl['prec_scale'])
    if decl.get('py_check'): kw['py_check'] = PYCHECK[decl['type']]
    db = orm.Database()
    cls = orm.Required if decl['kind'] == 'Required' else orm.Optional
    attr = cls(pytype, *args, **kw)
    E = type('E', (db.Entity,), {'v': attr})
    db.bind('sqlite', ':memory:')
    db.generate_mapping(create_tables=True)
    return db, E


def dispose(db):
    try:
        con = db.provider.pool.con
        if con is not None: con.close()
        db.provider.pool.con = None
    except Exception:
        pass


def attempt(fn):
    try:
        return ('ok', fn())
    except Exception as e:
        return ('exc', type(e).__name__, str(e)[:160])


def run_decl(ctx, decl, only=None):
    """execute every candidate through every path for one declaration; `only` = (value_repr, path) filter for replay"""
    from pony import orm
    dk = decl_key(decl)
    try:
        db, E = build(decl)
    except Exception as e:
        ctx.count('decl.rejected_by_pony')
        ctx.count('decl.rejected.%s' % type(e).__name__)
        ctx.extra.setdefault('rejected_declaration_samples', [])
        if len(ctx.extra['rejected_declaration_samples']) < 8:
            ctx.extra['rejected_declaration_samples'].append({'decl': dk, 'error': '%s: %s' % (type(e).__name__, str(e)[:120])})
        return
    ctx.count('decl.mapped')
    ctx.count('decl.mapped.%s' % decl['type'])
    try:
        cands = candidates(decl)
        if only is not None: cands = [v for v in cands if repr(v) == only[0]]
        base = base_value(decl)
        results = {}          # (index, path) -> outcome

        # --- path 1: constructor (session rolled back, nothing reaches the database)
        with orm.db_session:
            for i, v in enumerate(cands):
                results[i, 'ctor'] = attempt(lambda: E(v=v).v)
            orm.rollback()

        # --- base row for assignment/set/lookup paths
        base_id = None
        if base is not None or decl['kind'] == 'Optional':
            try:
                with orm.db_session:
                    o = E(v=base) if base is not None else E()
                    orm.flush()
                    base_id = o.id
            except Exception as e:
                ctx.count('base_row.failed')
                ctx.violation({'decl': dk, 'base': repr(base), 'error': '%s: %s' % (type(e).__name__, e)},
                              mechanism='base-value-rejected')
                base_id = None
        if base_id is None:
            ctx.count('decl.no_base_value')
        else:
            with orm.db_session:
                o = E[base_id]
                for i, v in enumerate(cands):
                    def f_assign():
                        o.v = v
                        return o.v
                    results[i, 'assign'] = attempt(f_assign)
                orm.rollback()
            with orm.db_session:
                o = E[base_id]
                for i, v in enumerate(cands):
                    def f_set():
                        o.set(v=v)
                        return o.v
                    results[i, 'set'] = attempt(f_set)
                orm.rollback()
            # lookups: the table holds exactly the base row
            for i, v in enumerate(cands):
                with orm.db_session:
                    def f_get():
                        r = E.get(v=v)
                        return None if r is None else r.id
                    results[i, 'get'] = attempt(f_get)
                with orm.db_session:
                    results[i, 'exists'] = attempt(lambda: bool(E.exists(v=v)))
                with orm.db_session:
                    results[i, 'select_kw'] = attempt(lambda: [x.id for x in E.select(v=v)])
                with orm.db_session:
                    results[i, 'select_lambda'] = attempt(lambda: [x.id for x in E.select(lambda p: p.v == v)])

        base_n = None
        if base_id is not None:
            bm = model(decl, base) if base is not None else ('accept', '' if decl['type'] in ('str', 'LongStr')
                                                             and not decl.get('nullable') else None)
            base_n = bm[1]
        for (i, path), outcome in sorted(results.items(), key=lambda kv: (kv[0][0], PATHS.index(kv[0][1]))):
            if only is not None and path != only[1]: continue
            judge(ctx, decl, dk, cands[i], path, outcome, base_id, base_n)
    finally:
        dispose(db)


EXACT_FOUND = ('int', 'str', 'LongStr', 'bool', 'date')


def matches(m, path, outcome, decl, v, base_id, base_n):
    """does model verdict m agree with pony's outcome on this path?  -> (agree, why)"""
    if m is FREE: return True, 'free'
    if m is REJECT:
        return (outcome[0] == 'exc'), 'accepted-invalid'
    n = m[1]
    if outcome[0] == 'exc':
        return False, 'rejected-valid'
    r = outcome[1]
    if path in ('ctor', 'assign', 'set'):
        return same(r, n), 'wrong-normalised-value'
    # lookups: no exception = accepted; for exact types the base row is found iff the normalised value equals it
    if decl['type'] in EXACT_FOUND and not is_nan(n):
        expect = same(n, base_n) or (n is not None and base_n is not None and n == base_n)
        found = (r is not None) if path == 'get' else (bool(r) if path == 'exists' else (base_id in r))
        if found != expect: return False, 'lookup-found-mismatch'
    return True, 'agree'


def judge(ctx, decl, dk, v, path, outcome, base_id, base_n):
    m = model(decl, v)
    vr = repr(v)
    ctx.case(('C08', dk, type(v).__name__, vr, path),
             sample={'decl': dk, 'value': vr, 'path': path, 'model': m[0], 'pony': outcome[0]})
    ctx.count('path.%s' % path)
    if path == 'select_lambda':
        # pony does not validate lambda parameters: judged only for valid values already in canonical form
        canonical = m[0] == 'accept' and (same(m[1], v) and not isinstance(v, bool) or v is None)
        if decl['type'] == 'bool': canonical = m[0] == 'accept' and isinstance(v, bool)
        if not canonical:
            ctx.count('lambda.record_only.%s' % outcome[0])
            if m is REJECT and outcome[0] == 'ok': ctx.count('lambda.invalid_value_not_validated')
            return
    if m is FREE:
        ctx.count('outcome.no_reference')
        return
    ok, why = matches(m, path, outcome, decl, v, base_id, base_n)
    if ok:
        ctx.count('outcome.agree')
        ctx.count('outcome.agree.%s' % ('accept' if m[0] == 'accept' else 'reject'))
        if outcome[0] == 'exc': ctx.count('pony_raised.%s' % outcome[1])
        return
    witness = {'decl': dk, 'value': vr, 'value_type': type(v).__name__, 'path': path, 'model': [m[0]] + [repr(x) for x in m[1:]],
               'pony': [outcome[0]] + [repr(x) for x in outcome[1:]], 'disagreement': why}
    for fid, ignore in deviation_rules(decl):
        m2 = model(decl, v, ignore=ignore)
        if m2 is FREE: continue
        ok2, _ = matches(m2, path, outcome, decl, v, base_id, base_n)
        if ok2:
            ctx.count('outcome.deviation.%s' % fid)
            witness['deviation_rule'] = '%s: %s treated as absent' % (fid, '/'.join(ignore))
            ctx.finding(fid, witness)
            return
    ctx.count('outcome.disagree')
    ctx.violation(witness, mechanism='C08-' + why)



# ----------------------------------------------------------------------------------------------------
# to-one relationship attributes: Required/Optional x nullable x py_check (by target pk / by target attribute)
# x reverse kind (Set, one-to-one Optional, target with composite pk); same seven paths, same model shape:
# value accepted iff it denotes an existing target object (instance, raw pk, 1-tuple/tuple raw pk, str convertible
# to the pk), None only for Optional, and the declared py_check holds for the target object.
ROOMS = [(2, 0), (3, 0), (4, 1), (5, 1), (6, 0)]          # (number, floor); base link is room 6 (passes every check)
REL_CHECKS = {
    None: None,
    'pk_even': lambda r: r.number % 2 == 0,
    'floor0': lambda r: r.floor == 0,
}


def rel_grid():
    out = []
    for reverse in ('set', 'one2one', 'composite'):
        for kind in ('Required', 'Optional'):
            for nullable in (None, True, False):
                for chk in (None, 'pk_even', 'floor0'):
                    out.append(dict(kind=kind, type='relation', reverse=reverse, nullable=nullable, py_check=chk))
    return out


def rel_build(decl):
    from pony import orm
    db = orm.Database()
    kw = {}
    if decl.get('nullable') is not None: kw['nullable'] = decl['nullable']
    if decl.get('py_check'): kw['py_check'] = REL_CHECKS[decl['py_check']]
    cls = orm.Required if decl['kind'] == 'Required' else orm.Optional
    if decl['reverse'] == 'composite':
        # composite primary key declared the documented way: PrimaryKey(attr, attr) inside the class body
        src = ("class Room(db.Entity):\n"
               "    number = orm.Required(int)\n    tag = orm.Required(str)\n    floor = orm.Required(int)\n"
               "    guests = orm.Set('G')\n    orm.PrimaryKey(number, tag)\n")
        scope = {'db': db, 'orm': orm}
        exec(src, scope)
        Room = scope['Room']
    else:
        back = orm.Set('G') if decl['reverse'] == 'set' else orm.Optional('G')
        Room = type('Room', (db.Entity,), {'number': orm.PrimaryKey(int), 'floor': orm.Required(int), 'guests': back})
    G = type('G', (db.Entity,), {'r': cls(Room, **kw)})
    db.bind('sqlite', ':memory:')
    db.generate_mapping(create_tables=True)
    return db, Room, G


def rel_pk(decl, n):
    return (n, 't%d' % n) if decl['reverse'] == 'composite' else n


def rel_candidates(decl):
    """(label, maker(Room, G, base_obj) -> value, target room number or None, verdict hint)"""
    comp = decl['reverse'] == 'composite'
    C = []
    for n, fl in ROOMS:
        C.append(('obj:%d' % n, (lambda Room, G, n=n: Room[rel_pk(decl, n)]), n, 'target'))
        C.append(('rawpk:%d' % n, (lambda Room, G, n=n: rel_pk(decl, n)), n, 'target'))
    if comp:
        C.append(('rawpk_list:2', lambda Room, G: [2, 't2'], None, 'reject'))
        C.append(('rawpk_short_tuple', lambda Room, G: (2,), None, 'reject'))
        C.append(('rawpk_scalar', lambda Room, G: 2, None, 'reject'))
        C.append(('rawpk_strnum:4', lambda Room, G: ('4', 't4'), 4, 'target'))
    else:
        C.append(('rawpk_tuple:2', lambda Room, G: (2,), 2, 'target'))
        C.append(('rawpk_tuple:5', lambda Room, G: (5,), 5, 'target'))
        C.append(('rawpk_str:4', lambda Room, G: '4', 4, 'target'))
        C.append(('rawpk_str:3', lambda Room, G: ' 3 ', 3, 'target'))
        C.append(('rawpk_long_tuple', lambda Room, G: (2, 3), None, 'reject'))
        C.append(('rawpk_bad_str', lambda Room, G: 'abc', None, 'reject'))
        C.append(('rawpk_float', lambda Room, G: 2.5, None, 'reject'))
        C.append(('rawpk_list', lambda Room, G: [2], None, 'reject'))
    C.append(('none', lambda Room, G: None, None, 'none'))
    C.append(('wrong_entity', lambda Room, G: G.select().first(), None, 'reject_if_obj'))
    C.append(('missing_target', lambda Room, G: rel_pk(decl, 98), None, 'free'))
    return C


def rel_model(decl, cand):
    label, maker, n, hint = cand
    if hint == 'free': return FREE
    if hint == 'reject': return REJECT
    if hint == 'reject_if_obj': return REJECT            # judged only when a G object exists (see run_rel_decl)
    if hint == 'none':
        return REJECT if decl['kind'] == 'Required' else ('accept', None)   # Optional relationships are nullable
    chk = REL_CHECKS[decl.get('py_check')]
    if chk is not None:
        floor = dict(ROOMS)[n]
        class _R(object): pass
        r = _R(); r.number, r.floor = n, floor
        if not chk(r): return REJECT
    return ('accept', n)


def rel_show(x):
    """jsonable view of a path result: entity instance -> [class, pk]"""
    if x is None or isinstance(x, (bool, int, str)): return x
    if isinstance(x, (list, tuple)): return [rel_show(i) for i in x]
    if hasattr(x, '_pk_attrs_'): return [type(x).__name__, x.get_pk()]
    return repr(x)


def run_rel_decl(ctx, decl, only=None):
    from pony import orm
    dk = decl_key(decl)
    try:
        db, Room, G = rel_build(decl)
    except Exception as e:
        ctx.count('decl.rejected_by_pony'); ctx.count('decl.rejected.%s' % type(e).__name__)
        lst = ctx.extra.setdefault('rejected_declaration_samples', [])
        if len(lst) < 12: lst.append({'decl': dk, 'error': '%s: %s' % (type(e).__name__, str(e)[:120])})
        return
    ctx.count('decl.mapped'); ctx.count('decl.mapped.relation')
    comp = decl['reverse'] == 'composite'
    try:
        with orm.db_session:
            for n, fl in ROOMS:
                if comp: Room(number=n, tag='t%d' % n, floor=fl)
                else: Room(number=n, floor=fl)
        cands = rel_candidates(decl)
        if only is not None: cands = [c for c in cands if c[0] == only[0]]
        results = {}

        def linked(o):
            r = o.r
            return None if r is None else (r.number)

        # constructor: everything in one session that is rolled back
        # (one session per candidate: with a one-to-one reverse two new objects cannot link the same target)
        for i, c in enumerate(cands):
            with orm.db_session:
                results[i, 'ctor'] = attempt(lambda: linked(G(r=c[1](Room, G))))
                orm.rollback()
        with orm.db_session:
            o = G(r=Room[rel_pk(decl, 6)]); orm.flush(); base_id = o.id
        for i, c in enumerate(cands):
            with orm.db_session:
                o = G[base_id]
                def f_assign():
                    o.r = c[1](Room, G)
                    return linked(o)
                results[i, 'assign'] = attempt(f_assign)
                orm.rollback()
            with orm.db_session:
                o = G[base_id]
                def f_set():
                    o.set(r=c[1](Room, G))
                    return linked(o)
                results[i, 'set'] = attempt(f_set)
                orm.rollback()
            with orm.db_session:
                def f_get():
                    x = G.get(r=c[1](Room, G))
                    return None if x is None else x.id
                results[i, 'get'] = attempt(f_get)
            with orm.db_session:
                results[i, 'exists'] = attempt(lambda: bool(G.exists(r=c[1](Room, G))))
            with orm.db_session:
                results[i, 'select_kw'] = attempt(lambda: [x.id for x in G.select(r=c[1](Room, G))])
            with orm.db_session:
                def f_lambda():
                    v = c[1](Room, G)
                    return [x.id for x in G.select(lambda g: g.r == v)]
                results[i, 'select_lambda'] = attempt(f_lambda)

        for (i, path), outcome in sorted(results.items(), key=lambda kv: (kv[0][0], PATHS.index(kv[0][1]))):
            if only is not None and path != only[1]: continue
            c = cands[i]
            m = rel_model(decl, c)
            if c[3] == 'reject_if_obj' and path == 'ctor': m = FREE      # no G object exists yet in that session
            ctx.case(('C08rel', dk, c[0], path), sample={'decl': dk, 'value': c[0], 'path': path, 'model': m[0], 'pony': outcome[0]})
            ctx.count('path.%s' % path); ctx.count('relation.path.%s' % path)
            if path == 'select_lambda' and not (m[0] == 'accept' and (c[0].startswith('obj:') or c[0] == 'none')):
                ctx.count('lambda.record_only.%s' % outcome[0])
                if m is REJECT and outcome[0] == 'ok': ctx.count('lambda.invalid_value_not_validated')
                continue
            if m is FREE:
                ctx.count('outcome.no_reference'); continue
            if m is REJECT:
                ok, why = outcome[0] == 'exc', 'accepted-invalid'
            elif outcome[0] == 'exc':
                ok, why = False, 'rejected-valid'
            elif path in ('ctor', 'assign', 'set'):
                ok, why = outcome[1] == m[1], 'wrong-normalised-value'
            else:
                expect = (m[1] == 6)                                   # the only G row is linked to room 6
                r = outcome[1]
                found = (r is not None) if path == 'get' else (bool(r) if path == 'exists' else (base_id in r))
                ok, why = found == expect, 'lookup-found-mismatch'
            if ok:
                ctx.count('outcome.agree'); ctx.count('outcome.agree.%s' % ('accept' if m[0] == 'accept' else 'reject'))
                ctx.count('relation.agree.%s' % ('accept' if m[0] == 'accept' else 'reject'))
                if decl.get('py_check') and m is REJECT and c[3] == 'target': ctx.count('relation.py_check_rejections_observed')
                if outcome[0] == 'exc': ctx.count('pony_raised.%s' % outcome[1])
            else:
                ctx.count('outcome.disagree')
                ctx.violation({'decl': dk, 'value': c[0], 'value_type': 'relation-candidate', 'path': path,
                               'model': [m[0]] + [repr(x) for x in m[1:]],
                               'pony': [outcome[0]] + [repr(x) for x in outcome[1:]], 'disagreement': why},
                              mechanism='C08-relation-' + why)
    finally:
        dispose(db)

# ----------------------------------------------------------------------------------------------------
def run(ctx):
    decls = grid(ctx.tier)
    ctx.extra['grid_declarations'] = len(decls)
    mine = [d for i, d in enumerate(decls) if i % ctx.nshards == ctx.shard]
    for n, d in enumerate(mine):
        run_decl(ctx, d)
    rels = rel_grid()
    ctx.extra['grid_relationship_declarations'] = len(rels)
    rmine = [d for i, d in enumerate(rels) if i % ctx.nshards == ctx.shard]
    for d in rmine:
        run_rel_decl(ctx, d)
    ctx.count('decl.total', len(mine) + len(rmine))
    # floors: the deciding monitor is the per-path outcome comparison
    per_shard = max(1, len(mine))
    for p in PATHS:
        ctx.floor('path.%s' % p, per_shard * 8)
    ctx.floor('outcome.agree.accept', per_shard * 10)
    ctx.floor('outcome.agree.reject', per_shard * 10)
    ctx.floor('decl.mapped', int(per_shard * 0.5))
    if rmine:
        ctx.floor('relation.agree.accept', len(rmine) * 8)
        ctx.floor('relation.agree.reject', len(rmine) * 4)
        if any(d.get('py_check') for d in rmine): ctx.floor('relation.py_check_rejections_observed', 6)


def replay(ctx, witness):
    import ast
    dk = witness['decl']
    if dk.get('type') == 'relation':
        for d in rel_grid():
            if decl_key(d) == dk: run_rel_decl(ctx, d, only=(witness['value'], witness['path'])); return
        print('declaration not in grid:', dk); return
    target = None
    for tier in ('quick', 'thorough'):
        for d in grid(tier):
            if decl_key(d) == dk: target = d; break
        if target: break
    if target is None:
        print('declaration not in grid:', dk); return
    run_decl(ctx, target, only=(witness['value'], witness['path']))

"""C36 — a forked process never uses its parent's database connection.

The checking process really os.fork()s at chosen points of a parent history; the E3 recorder tags every
connection with the pid that created it and every boundary call with the pid that executes it.

Part A (real sessions, file-backed SQLite): fork points
    disconnected         bound, pool empty (never connected in this thread / after db.disconnect())
    after_bind           connection pooled by bind()/check_tables only, no session has run
    pooled               idle pooled connection after finished read+write sessions
    pooled_other_thread  the parent's sessions ran in another (finished) thread; the forking thread never connected
    open_unflushed       inside a db_session with unsaved objects (no connection attached to the session yet)
    open_readonly        inside a db_session that has only read (connection attached, no transaction)
    open_txn             inside a db_session with flushed, uncommitted writes (transaction + SQLite lock held)
  for the real SQLitePool and for dbapiprovider.Pool (the class used by the PostgreSQL/MySQL providers), the latter
  through a SQLiteProvider subclass whose get_pool() returns a plain Pool over a sqlite3-backed connect().
  The child runs read and write sessions (also in a new thread), writes its event log to a file and os._exit()s.
  Oracle: no execute/commit/rollback/close/cursor in the child on a connection created by another pid; the parent
  finishes its session and runs further sessions successfully; rows committed by each side are seen by the other
  (plain sqlite3 and pony reads).
Part D (fork chains): depth 1-3 over TWO Database objects; every process of the chain independently does or does not
  use each database (main thread, and a thread that stays alive with its idle pooled connection) before it forks again;
  an intermediate process may exit right after forking (orphaned descendant); a process's first connect attempt may fail
  (error injected at the connect call, after it, or at the first PRAGMA) before it retries.  Same oracle for every
  process of the chain.
Part B: dbapiprovider.Pool driven directly with a fake DB-API module whose connections record (op, pid).
Part C: OraPool driven directly over the stub cx_Oracle module with a recording SessionPool.
"""

META = {
    'level': 'exploration',
    'engine': 'E3+E5',
    'technique': 'runtime monitor: real os.fork() at enumerated points of a parent history; pid tags on connections and on '
                 'every DB-API call; child log checked offline; mutual visibility by plain sqlite3',
    'level_text': 'All listed fork points x child behaviours x orderings are executed for SQLitePool and for the generic '
                  'Pool with real sessions on a file database, plus randomised child/parent session programs; Pool and '
                  'OraPool are additionally driven directly across fork with recording fake drivers. Runs, not proofs: '
                  'fork points are the listed session-level points, not every bytecode.',
    'level_note': 'Trusted: os.getpid(), the recorder subclass (factory=), the fake DB-API module / stub cx_Oracle '
                  'SessionPool. PostgreSQL/MySQL/Oracle servers are absent: their pools are exercised as classes '
                  '(Pool with sqlite3-backed connect; OraPool over a stub), not against real sockets.',
    'rule': 'case = (pool kind, fork point, child behaviour, ordering, child program) or (pool kinds of two databases, per-process '
            'plans of a fork chain); non-trivial if the fork happened, the '
            'child ran at least one session and its log was read back',
    'assumptions': [
        'fork() while ANOTHER thread of the parent is inside a transaction is not covered: CPython documents fork in a '
        'multi-threaded process as unsafe and the child would inherit the held SQLiteProvider.transaction_lock',
        'db.disconnect() called in the child closes the inherited pooled connection object (Pool.disconnect has no pid '
        'check); it is counted as an observation because the property speaks about sessions and statements',
        'OraPool is driven through the stub cx_Oracle module of shims/cx_Oracle with a recording SessionPool',
    ],
    'shims': ['cx_Oracle'],
    'exhaustive_tiers': [],
}

SHARDS = {'quick': 4, 'thorough': 8}
SHARD_TIMEOUT = {'quick': 110, 'thorough': 900}

import os, sys, json, time, select, sqlite3, threading, traceback

FINDING_OPEN = 'C36-FORK-INSIDE-OPEN-SESSION'
IDLE_POINTS = ['disconnected', 'after_bind', 'pooled', 'pooled_other_thread']
OPEN_POINTS = ['open_unflushed', 'open_readonly', 'open_txn']
VARIANTS = ['nested', 'rollback_first', 'unwind']
WATCHDOG = 30.0


# ----------------------------------------------------------------------------------------------------------
# small helpers
# ----------------------------------------------------------------------------------------------------------

def wait_byte(fd, timeout):
    r, _, _ = select.select([fd], [], [], timeout)
    if not r: return None
    return os.read(fd, 1)


def wait_child(pid, timeout):
    """-> exit code | 'watchdog'"""
    deadline = time.time() + timeout
    while True:
        p, st = os.waitpid(pid, os.WNOHANG)
        if p == pid: return os.waitstatus_to_exitcode(st)
        if time.time() > deadline:
            try: os.kill(pid, 9)
            except ProcessLookupError: pass
            os.waitpid(pid, 0)
            return 'watchdog'
        time.sleep(0.003)


def raw_rows(fn):
    con = sqlite3.connect(fn, timeout=5.0)
    try: return sorted(con.execute('select who, v from T').fetchall())
    finally: con.close()


def make_db(kind, fn, rec, create):
    """kind: 'sqlite' (real SQLitePool) | 'generic' (dbapiprovider.Pool under a SQLiteProvider subclass)."""
    from pony.orm import Database, Required
    db = Database()
    class T(db.Entity):
        who = Required(str)
        v = Required(int)
    if kind == 'sqlite':
        db.bind('sqlite', fn, create_db=create, factory=rec.factory(), timeout=1.0)
    else:
        from pony.orm.dbproviders.sqlite import SQLiteProvider
        from pony.orm.dbapiprovider import Pool
        VConn = rec.factory()
        class Module(object):
            @staticmethod
            def connect(filename, **kw):
                return sqlite3.connect(filename, isolation_level=None, factory=VConn, **kw)
        class GenericPoolProvider(SQLiteProvider):
            def get_pool(provider, is_shared_memory_db, filename, create_db=False, **kwargs):
                assert not is_shared_memory_db
                return Pool(Module, filename, **kwargs)
        db.bind(GenericPoolProvider, fn, timeout=1.0)
        assert type(db.provider.pool) is Pool
    db.generate_mapping(create_tables=create)
    return db, T


def owners(events):
    return {e['conn']: e['pid'] for e in events if e['kind'] == 'connect' and e['phase'] == 'call'}


# ----------------------------------------------------------------------------------------------------------
# Part A: one scenario (runs in the checking process; the child never returns)
# ----------------------------------------------------------------------------------------------------------

def scenario(tmpdir, serial, kind, point, variant, order, child_prog, parent_prog):
    """-> result dict (parent side).  variant only matters at OPEN_POINTS."""
    from pony.orm import db_session, select, flush, commit, rollback
    from pony.orm import core
    from vlib.dbapi import Recorder
    fn = os.path.join(tmpdir, 'c36-%d.sqlite' % serial)
    for sfx in ('', '-journal'):
        if os.path.exists(fn + sfx): os.remove(fn + sfx)
    resfile = os.path.join(tmpdir, 'c36-%d.child.json' % serial)
    if os.path.exists(resfile): os.remove(resfile)

    # the file is created by a throw-away Database so that the Database under test can be bound to an existing file
    rec0 = Recorder()
    db0, T0 = make_db(kind, fn, rec0, True)
    with db_session: T0(who='P0', v=0)
    db0.disconnect()

    rec = Recorder()
    res = {'kind': kind, 'point': point, 'variant': variant, 'order': order, 'child_prog': child_prog,
           'parent_prog': parent_prog, 'problems': [], 'serial': serial}
    role = ['parent']
    p2c_r, p2c_w = os.pipe()
    c2p_r, c2p_w = os.pipe()
    fds = set((p2c_r, p2c_w, c2p_r, c2p_w))
    def close_fd(fd):
        if fd in fds:
            fds.discard(fd)
            try: os.close(fd)
            except OSError: pass
    counter = [0]
    committed = []            # markers this process committed (session returned without error)
    errors = []

    def marker(prefix):
        counter[0] += 1
        return '%s%d' % (prefix, counter[0])

    def write_session(T, prefix, explicit_commit=False):
        m = marker(prefix)
        with db_session:
            T(who=m, v=counter[0])
            if explicit_commit: commit()
        committed.append(m)
        return m

    def read_session(T):
        with db_session:
            return sorted(select((t.who, t.v) for t in T)[:])

    def in_thread(fn_, *a):
        box = {}
        def body():
            try: box['r'] = fn_(*a)
            except BaseException as e: box['e'] = e
        th = threading.Thread(target=body, daemon=True); th.start(); th.join(WATCHDOG / 2)
        if th.is_alive(): raise RuntimeError('thread step blocked')
        if 'e' in box: raise box['e']
        return box.get('r')

    # ------------------------------------------------------------------------------------------ child side
    def child_rest(db, T, nested_in_inherited):
        reads = []
        for step in child_prog:
            try:
                if step == 'write': write_session(T, 'C', explicit_commit=nested_in_inherited)
                elif step == 'read': reads.append(read_session(T))
                elif step == 'thread_write':
                    # while the child stays inside the inherited (never ending) db_session its main thread may legitimately
                    # sit in a transaction after a commit()+query; a writer thread would then simply wait for it
                    if nested_in_inherited: continue
                    in_thread(write_session, T, 'CT')
                elif step == 'thread_read': reads.append(in_thread(read_session, T))
                elif step == 'disconnect':
                    if core.local.db_context_counter: continue
                    rec.tag('disconnect')
                    try: db.disconnect()
                    finally: rec.tag(None)
            except BaseException as e:
                errors.append({'step': step, 'error': repr(e)[:200]})
        return reads

    def child_finish(reads, inside_error):
        evs = [dict(e, args=None) for e in rec.events]
        out = {'pid': os.getpid(), 'events': evs, 'committed': committed, 'reads': reads, 'errors': errors,
               'inside_error': inside_error,
               'local': {'db_session': core.local.db_session is not None, 'counter': core.local.db_context_counter,
                         'db2cache': len(core.local.db2cache)}}
        with open(resfile + '.tmp', 'w') as f: json.dump(out, f, default=repr)
        os.replace(resfile + '.tmp', resfile)
        os._exit(0)

    def do_fork():
        sys.stdout.flush(); sys.stderr.flush()
        pid = os.fork()
        if pid == 0:
            role[0] = 'child'
            import itertools
            rec.conn_ids = itertools.count(1000000)      # connection ids stay unique across the two processes
            del committed[:]
            close_fd(p2c_w); close_fd(c2p_r)
        else:
            close_fd(p2c_r); close_fd(c2p_w)
        return pid

    try:
        db, T = make_db(kind, fn, rec, False)
        pool = db.provider.pool
        # ---- parent pre-history ----
        if point == 'disconnected':
            db.disconnect()
        elif point == 'after_bind':
            pass
        elif point in ('pooled', 'open_unflushed', 'open_readonly', 'open_txn'):
            for st in parent_prog:
                if st == 'write': write_session(T, 'P')
                else: read_session(T)
        elif point == 'pooled_other_thread':
            def hist():
                for st in parent_prog:
                    if st == 'write': write_session(T, 'P')
                    else: read_session(T)
            in_thread(hist)
        res['pool_con_at_fork'] = pool.con._vid if pool.con is not None else None
        pre_fork_committed = list(committed)
        all_owner = None

        if point in IDLE_POINTS:
            pid = do_fork()
            if role[0] == 'child':
                parent_owner = owners(rec.events); rec.clear()
                if order == 'parent_first':
                    if wait_byte(p2c_r, WATCHDOG) is None: os._exit(5)
                reads = child_rest(db, T, False)
                child_finish(reads, None)
            # parent
            if order == 'parent_first':
                try: write_session(T, 'P')
                except BaseException as e: res['problems'].append({'problem': 'parent_session_failed', 'error': repr(e)[:200]})
                os.write(p2c_w, b'g')
            res['exit'] = wait_child(pid, WATCHDOG)
        else:
            inside_error = [None]
            parent_exit_error = None
            try:
                with db_session:
                    # the open session of the parent
                    if point == 'open_unflushed':
                        m = marker('P'); T(who=m, v=counter[0]); pending = m
                    elif point == 'open_readonly':
                        select((t.who, t.v) for t in T)[:]; pending = None
                    else:
                        m = marker('P'); T(who=m, v=counter[0]); flush(); pending = m
                    cache = core.local.db2cache.get(db)
                    con = cache.connection if cache is not None else None
                    res['inherited_conn'] = con._vid if con is not None else None
                    pid = do_fork()
                    if role[0] == 'child':
                        rec.clear()
                        if order == 'parent_first':
                            if wait_byte(p2c_r, WATCHDOG) is None: os._exit(5)
                        try:
                            if variant == 'nested':
                                with db_session:
                                    m = marker('C'); T(who=m, v=counter[0]); commit(); committed.append(m)
                            elif variant == 'rollback_first':
                                rollback()
                            else:
                                m = marker('C'); T(who=m, v=counter[0])
                        except BaseException as e:
                            inside_error[0] = repr(e)[:200]
                        if variant != 'unwind':
                            if order == 'child_first':
                                os.write(c2p_w, b'i')
                                if wait_byte(p2c_r, WATCHDOG) is None: os._exit(5)
                            reads = child_rest(db, T, True)
                            child_finish(reads, inside_error[0])
                    else:
                        if order == 'child_first':
                            # the child acts on the inherited session first (while this transaction is still open)
                            if wait_byte(c2p_r, WATCHDOG) is None: res['inconclusive'] = 'sync timeout'
                        if point != 'open_readonly':
                            m2 = marker('P'); T(who=m2, v=counter[0])
                # both processes leave the with block here (the child only in the 'unwind' variant)
                if role[0] == 'parent':
                    if pending: committed.append(pending)
                    if point != 'open_readonly': committed.append(m2)
                else:
                    committed.append(m)
            except BaseException as e:
                if role[0] == 'child': inside_error[0] = repr(e)[:200]
                else: parent_exit_error = repr(e)[:300]
            if role[0] == 'child':
                # 'unwind' variant: the child has left the inherited with-block
                if order == 'child_first':
                    os.write(c2p_w, b'i')
                    if wait_byte(p2c_r, WATCHDOG) is None: os._exit(5)
                reads = child_rest(db, T, False)
                child_finish(reads, inside_error[0])
            # parent
            if parent_exit_error:
                res['problems'].append({'problem': 'parent_open_session_failed', 'error': parent_exit_error})
            try: os.write(p2c_w, b'g')
            except OSError: pass
            res['exit'] = wait_child(pid, WATCHDOG)

        # ------------------------------------------------------------------------------- parent: judge
        res['pre_fork_committed'] = pre_fork_committed
        if res.get('inconclusive'): return res
        if res['exit'] == 'watchdog':
            res['inconclusive'] = 'child watchdog'
            return res
        if not os.path.exists(resfile):
            res['inconclusive'] = 'child exit code %s without a result file' % res['exit']
            return res
        with open(resfile) as f: child = json.load(f)
        cpid = child['pid']
        own = owners(rec.events)                       # parent's log: every connection created before the fork + later
        for e in child['events']:
            if e['kind'] == 'connect' and e['phase'] == 'call': own[e['conn']] = e['pid']
        foreign, own_use, disc = [], 0, []
        for e in child['events']:
            if e['phase'] != 'call' or e['kind'] == 'connect': continue
            creator = own.get(e['conn'])
            if creator == cpid: own_use += 1
            elif e.get('tag') == 'disconnect': disc.append(e)
            else: foreign.append({'kind': e['kind'], 'conn': e['conn'], 'created_by': creator, 'executed_by': e['pid'],
                                  'sql': (e.get('sql') or '')[:50]})
        res['child_calls_on_own_connections'] = own_use
        res['child_foreign_calls'] = foreign[:8]
        res['n_foreign'] = len(foreign)
        res['child_disconnect_closed_parent_connection'] = len(disc)
        res['child_errors'] = child['errors'][:5]
        res['child_inside_error'] = child.get('inside_error')
        res['child_committed'] = child['committed']
        res['child_sessions'] = len([s for s in child_prog if s != 'disconnect'])
        if foreign:
            res['problems'].append({'problem': 'child_used_connection_created_by_parent', 'n': len(foreign), 'calls': foreign[:4]})
        for e in rec.events:
            if e['pid'] == os.getpid() and own.get(e['conn']) not in (None, os.getpid()):
                res['problems'].append({'problem': 'parent_used_foreign_connection'}); break
        if child['errors']:
            res['problems'].append({'problem': 'child_session_failed', 'errors': child['errors'][:3]})
        # the parent keeps working
        try:
            write_session(T, 'P')
            seen = read_session(T)
        except BaseException as e:
            res['problems'].append({'problem': 'parent_cannot_continue', 'error': repr(e)[:300]})
            seen = None
        try:
            rows = raw_rows(fn)
        except sqlite3.DatabaseError as e:
            res['problems'].append({'problem': 'database_file_damaged', 'error': repr(e)[:200]})
            rows = None
        if rows is not None:
            have = set(w for w, v in rows)
            missing_p = [m for m in committed if m not in have]
            missing_c = [m for m in child['committed'] if m not in have]
            if 'P0' not in have: missing_p.append('P0')
            if missing_p: res['problems'].append({'problem': 'parent_commit_not_in_file', 'markers': missing_p})
            if missing_c: res['problems'].append({'problem': 'child_commit_not_in_file', 'markers': missing_c})
            if seen is not None:
                seen_w = set(w for w, v in seen)
                inv = [m for m in child['committed'] if m in have and m not in seen_w]
                if inv: res['problems'].append({'problem': 'child_commit_invisible_to_parent_session', 'markers': inv})
            # what the child read must contain everything the parent had committed before the child was allowed to read
            must = set(['P0'] + pre_fork_committed)
            for r in child['reads']:
                got = set(w for w, v in r)
                if not must <= got:
                    res['problems'].append({'problem': 'parent_commit_invisible_to_child', 'missing': sorted(must - got)}); break
            res['visibility_pairs'] = len(child['committed']) + len(must) * len(child['reads'])
        return res
    except BaseException as e:
        if role[0] == 'child':
            try:
                with open(resfile + '.err', 'w') as f: f.write(traceback.format_exc())
            finally:
                os._exit(4)
        raise
    finally:
        if role[0] == 'child': os._exit(6)
        for fd in list(fds): close_fd(fd)
        try: db.disconnect()
        except Exception: pass


def classify(res):
    """The listed finding: fork while the forking thread is inside a db_session that already has a connection.
    The child inherits core.local (db_session, db_context_counter, db2cache) and the SessionCache with the parent's
    connection; every db_session entered in the child is 'nested' in the inherited one, rollback()/commit() and the
    with-exit act on the inherited cache.  Identified by: fork point is an open session whose cache had a connection,
    and EVERY call the child made on a foreign connection was on exactly that connection."""
    if res['point'] not in OPEN_POINTS or res.get('inherited_conn') is None: return None
    if not res.get('n_foreign'): return None
    probs = [p for p in res['problems'] if p['problem'] == 'child_used_connection_created_by_parent']
    if not probs: return None
    inherited = res['inherited_conn']
    if any(c['conn'] != inherited for c in res['child_foreign_calls']): return None
    allowed = {'child_used_connection_created_by_parent', 'parent_open_session_failed', 'parent_cannot_continue',
               'child_session_failed', 'child_commit_not_in_file', 'parent_commit_not_in_file', 'database_file_damaged',
               'child_commit_invisible_to_parent_session', 'parent_commit_invisible_to_child'}
    if any(p['problem'] not in allowed for p in res['problems']): return None
    return FINDING_OPEN


# ----------------------------------------------------------------------------------------------------------
# Part B: dbapiprovider.Pool driven directly over a fake DB-API module
# ----------------------------------------------------------------------------------------------------------

class FakeLog(object):
    def __init__(self):
        self.ops = []
        self.n = 0

    def add(self, op, cid, created_by):
        self.ops.append({'op': op, 'conn': cid, 'created_by': created_by, 'pid': os.getpid()})


def fake_module(log):
    class FakeCursor(object):
        def __init__(self, con): self.con = con
        def execute(self, sql, *a): log.add('execute', self.con.cid, self.con.created_by)
        def fetchone(self): return None
        def fetchall(self): return []
    class FakeCon(object):
        def __init__(self, *a, **kw):
            log.n += 1
            self.cid = '%d:%d' % (os.getpid(), log.n)
            self.created_by = os.getpid()
            self.closed = False
            self.args = (a, kw)
            log.add('connect', self.cid, self.created_by)
        def cursor(self): log.add('cursor', self.cid, self.created_by); return FakeCursor(self)
        def commit(self): log.add('commit', self.cid, self.created_by)
        def rollback(self): log.add('rollback', self.cid, self.created_by)
        def close(self): self.closed = True; log.add('close', self.cid, self.created_by)
    class Module(object):
        Error = Exception
        @staticmethod
        def connect(*a, **kw): return FakeCon(*a, **kw)
    return Module


def pool_direct_case(tmpdir, serial, point, child_ops):
    """-> result dict.  point: never | pooled | in_use | dropped | disconnected"""
    from pony.orm.dbapiprovider import Pool
    log = FakeLog()
    pool = Pool(fake_module(log), 'dsn', user='u')
    res = {'part': 'pool_direct', 'point': point, 'child_ops': child_ops, 'problems': []}
    pcon = None
    if point != 'never':
        pcon, is_new = pool.connect()
        assert is_new and pcon.created_by == os.getpid()
        if point == 'pooled': pool.release(pcon)
        elif point == 'dropped': pool.drop(pcon)
        elif point == 'disconnected': pool.disconnect()
    resfile = os.path.join(tmpdir, 'c36-pool-%d.json' % serial)
    sys.stdout.flush(); sys.stderr.flush()
    pid = os.fork()
    if pid == 0:
        code = 3
        try:
            del log.ops[:]
            out = {'pid': os.getpid(), 'steps': []}
            def run_ops(ops, where):
                con = None
                for op in ops:
                    if op == 'connect':
                        con, is_new = pool.connect()
                        out['steps'].append({'op': 'connect', 'where': where, 'conn': con.cid, 'created_by': con.created_by,
                                             'is_new': is_new, 'pool_pid': pool.pid})
                    elif op == 'release' and con is not None: pool.release(con)
                    elif op == 'drop' and con is not None: pool.drop(con); con = None
                    elif op == 'disconnect':
                        n0 = len(log.ops); pool.disconnect(); con = None
                        for o in log.ops[n0:]: o['via_disconnect'] = True
                    elif op == 'use' and con is not None: con.cursor().execute('select 1'); con.commit()
            run_ops(child_ops, 'main')
            th = threading.Thread(target=run_ops, args=(['connect', 'use', 'release', 'connect', 'drop'], 'thread'))
            th.start(); th.join(10)
            out['ops'] = log.ops
            out['forked_connections'] = len(Pool.forked_connections)
            with open(resfile, 'w') as f: json.dump(out, f)
            code = 0
        finally:
            os._exit(code)
    res['exit'] = wait_child(pid, WATCHDOG)
    if res['exit'] != 0 or not os.path.exists(resfile):
        res['inconclusive'] = 'child exit %s' % res['exit']; return res
    with open(resfile) as f: child = json.load(f)
    cpid = child['pid']
    foreign = [o for o in child['ops'] if o['created_by'] != cpid and not o.get('via_disconnect')]
    res['observed_disconnect_on_parent_connection'] = len([o for o in child['ops'] if o['created_by'] != cpid and o.get('via_disconnect')])
    res['child_ops_on_own'] = len([o for o in child['ops'] if o['created_by'] == cpid])
    if foreign: res['problems'].append({'problem': 'child_used_connection_created_by_parent', 'ops': foreign[:4]})
    for s in child['steps']:
        if s['created_by'] != cpid:
            res['problems'].append({'problem': 'pool_connect_returned_parent_connection_in_child', 'step': s}); break
    firsts = {}
    for s in child['steps']:
        firsts.setdefault(s['where'], s)
    for where, s in firsts.items():
        if not s['is_new']: res['problems'].append({'problem': 'first_connect_in_child_not_new', 'step': s})
    # the parent goes on with its own connection object
    n0 = len(log.ops)
    if point in ('pooled', 'in_use'):
        con2, is_new = pool.connect()
        if con2 is not pcon or is_new: res['problems'].append({'problem': 'parent_lost_its_pooled_connection'})
        if pcon.closed: res['problems'].append({'problem': 'parent_connection_closed'})
        con2.cursor().execute('select 1'); pool.release(con2)
    else:
        con2, is_new = pool.connect()
        if not is_new or con2.created_by != os.getpid(): res['problems'].append({'problem': 'parent_connect_wrong'})
        pool.release(con2)
    if any(o['pid'] != os.getpid() for o in log.ops[n0:]): res['problems'].append({'problem': 'log_confusion'})
    pool.disconnect()
    return res


# ----------------------------------------------------------------------------------------------------------
# Part C: OraPool over the stub cx_Oracle with a recording SessionPool
# ----------------------------------------------------------------------------------------------------------

def orapool_case(tmpdir, serial, point):
    """point: never | released | in_use"""
    import cx_Oracle
    assert getattr(cx_Oracle, 'IS_VERIF_SHIM', False), 'cx_Oracle is not the verif stub'
    ops = []
    class RecCon(object):
        def __init__(self, sp): self.sp = sp; self.created_by = os.getpid(); self.outputtypehandler = None
    class RecSessionPool(object):
        n = [0]
        def __init__(self, **kw):
            RecSessionPool.n[0] += 1
            self.sid = '%d:%d' % (os.getpid(), RecSessionPool.n[0]); self.created_by = os.getpid(); self.kw = kw
            ops.append({'op': 'SessionPool', 'pool': self.sid, 'created_by': self.created_by, 'pid': os.getpid()})
        def _log(self, op): ops.append({'op': op, 'pool': self.sid, 'created_by': self.created_by, 'pid': os.getpid()})
        def acquire(self): self._log('acquire'); return RecCon(self)
        def release(self, con): self._log('release')
        def drop(self, con): self._log('drop')
    saved = cx_Oracle.SessionPool
    cx_Oracle.SessionPool = RecSessionPool
    res = {'part': 'orapool', 'point': point, 'problems': []}
    try:
        from pony.orm.dbproviders.oracle import OraPool
        pool = OraPool(user='u', password='p', dsn='d')
        pcon = None
        if point != 'never':
            pcon, _ = pool.connect()
            if point == 'released': pool.release(pcon)
        parent_sp = pool.cx_pool
        resfile = os.path.join(tmpdir, 'c36-ora-%d.json' % serial)
        sys.stdout.flush(); sys.stderr.flush()
        pid = os.fork()
        if pid == 0:
            code = 3
            try:
                del ops[:]
                con, _ = pool.connect()
                out = {'pid': os.getpid(), 'con_created_by': con.created_by, 'con_pool_created_by': con.sp.created_by,
                       'pool_pid': pool.pid}
                pool.release(con)
                con2, _ = pool.connect()
                pool.drop(con2)
                out['ops'] = ops
                out['forked_pools'] = len(OraPool.forked_pools)
                with open(resfile, 'w') as f: json.dump(out, f)
                code = 0
            finally:
                os._exit(code)
        res['exit'] = wait_child(pid, WATCHDOG)
        if res['exit'] != 0 or not os.path.exists(resfile):
            res['inconclusive'] = 'child exit %s' % res['exit']; return res
        with open(resfile) as f: child = json.load(f)
        cpid = child['pid']
        foreign = [o for o in child['ops'] if o['created_by'] != cpid]
        res['child_ops_on_own'] = len([o for o in child['ops'] if o['created_by'] == cpid])
        if foreign: res['problems'].append({'problem': 'child_used_session_pool_created_by_parent', 'ops': foreign[:4]})
        if child['con_pool_created_by'] != cpid:
            res['problems'].append({'problem': 'child_connection_from_parent_session_pool'})
        # parent continues on its own session pool
        con3, _ = pool.connect()
        if pool.cx_pool is not parent_sp or con3.sp is not parent_sp:
            res['problems'].append({'problem': 'parent_lost_its_session_pool'})
        pool.release(con3)
        return res
    finally:
        cx_Oracle.SessionPool = saved


# ----------------------------------------------------------------------------------------------------------
# Part D: fork chains of depth 1-3 over two Database objects; every process independently does or does not
# touch each Database (main thread / a thread that stays parked with an idle pooled connection) before it forks
# again; intermediates may exit at once (orphaned descendant); a process's first connect may fail.
# ----------------------------------------------------------------------------------------------------------

def tree_scenario(tmpdir, serial, kinds, plans):
    """kinds: (kind of db0, kind of db1).  plans[0] is the root's plan, plans[1..d] those of the descendants:
         {'touch': [db indices used in the main thread before forking on], 'thread': [db indices used by a thread that is
          still alive, parked, with its idle pooled connection when the process forks], 'orphan': bool (exit right after
          the fork), 'connect_fault': None | 'call' | 'ret' | 'pragma' (this process's first connect attempt fails)}
       The last process (leaf) always uses both databases, in its main thread and in a fresh thread.
       -> result dict (root side)."""
    import itertools
    from pony.orm import db_session, select
    from vlib.dbapi import Recorder
    from vlib.faults import SeqFault
    depth = len(plans) - 1
    fns = [os.path.join(tmpdir, 'c36t-%d-%d.sqlite' % (serial, i)) for i in (0, 1)]
    outdir = os.path.join(tmpdir, 'c36t-%d' % serial)
    os.makedirs(outdir, exist_ok=True)
    for fn in fns:
        for sfx in ('', '-journal'):
            if os.path.exists(fn + sfx): os.remove(fn + sfx)
    for i, fn in enumerate(fns):
        db0, T0 = make_db(kinds[i], fn, Recorder(), True)
        with db_session: T0(who='P0', v=0)
        db0.disconnect()
    rec = Recorder()
    dbs = [make_db(kinds[i], fns[i], rec, False) for i in (0, 1)]
    for db, T in dbs: db.disconnect()                 # every pool starts empty; only the plans decide who connects
    res = {'part': 'tree', 'kinds': list(kinds), 'plans': plans, 'problems': [], 'serial': serial, 'depth': depth}
    level = [0]
    counter = [0]
    committed, errors, notes = [], [], {}
    parked = []

    def use(i, tag):
        """one write session + one read session on database i"""
        db, T = dbs[i]
        counter[0] += 1
        m = 'L%d-%s-%d' % (level[0], tag, counter[0])
        with db_session:
            T(who=m, v=counter[0])
        committed.append([i, m])
        with db_session:
            return sorted(select(t.who for t in T)[:])

    def guarded(i, tag):
        try: use(i, tag)
        except BaseException as e: errors.append({'level': level[0], 'db': i, 'where': tag, 'error': repr(e)[:200]})

    def park_thread(idx):
        """a thread that uses the databases and then stays alive (idle pooled connections) until released"""
        ready, release = threading.Event(), threading.Event()
        def body():
            for i in idx: guarded(i, 'thread')
            ready.set(); release.wait(WATCHDOG)
        th = threading.Thread(target=body, daemon=True); th.start()
        if not ready.wait(WATCHDOG): errors.append({'level': level[0], 'where': 'park_thread', 'error': 'thread did not get ready'})
        parked.append((th, release))

    def prehistory(plan, leaf):
        fault = plan.get('connect_fault')
        idx_main = [0, 1] if leaf else list(plan.get('touch', ()))
        if fault and idx_main:
            # this process's FIRST attempt to connect fails; it then simply tries again
            if fault == 'pragma': f = SeqFault(1, kinds=('execute',), phase='call', sql_pred=lambda q: q.startswith('PRAGMA'))
            else: f = SeqFault(1, kinds=('connect',), phase=fault)
            rec.faults.append(f)
            try:
                use(idx_main[0], 'first-attempt')
                notes['first_attempt_succeeded'] = True
            except Exception as e:
                notes['first_attempt_error'] = repr(e)[:120]
            finally:
                del rec.faults[:]
            notes['connect_fault_fired'] = bool(f.fired)
        for i in idx_main: guarded(i, 'main')
        if leaf:
            box = {}
            def body():
                for i in (0, 1): guarded(i, 'leafthread')
            th = threading.Thread(target=body, daemon=True); th.start(); th.join(WATCHDOG)
            if th.is_alive(): errors.append({'level': level[0], 'where': 'leafthread', 'error': 'blocked'})
        elif plan.get('thread'):
            park_thread(list(plan['thread']))

    def write_result():
        out = {'level': level[0], 'pid': os.getpid(), 'ppid': os.getppid(), 'events': [dict(e, args=None) for e in rec.events],
               'committed': committed, 'errors': errors, 'notes': notes}
        path = os.path.join(outdir, 'node-%d.json' % level[0])
        with open(path + '.tmp', 'w') as f: json.dump(out, f, default=repr)
        os.replace(path + '.tmp', path)

    def node():
        """body of every forked process; never returns"""
        code = 3
        try:
            rec.clear()
            rec.conn_ids = itertools.count(level[0] * 1000000 + 1)
            del committed[:]; del errors[:]; notes.clear(); del parked[:]
            plan = plans[level[0]]
            leaf = level[0] == depth
            prehistory(plan, leaf)
            if not leaf:
                sys.stdout.flush(); sys.stderr.flush()
                pid = os.fork()
                if pid == 0:
                    level[0] += 1
                    node()
                if plan.get('orphan'):
                    notes['exited_without_waiting'] = True
                else:
                    notes['child_exit'] = wait_child(pid, WATCHDOG)
                    # this process keeps working on its own connections after its child is gone
                    for i in plan.get('touch', ()): guarded(i, 'after-child')
            for th, release in parked: release.set()
            write_result()
            code = 0
        except BaseException:
            try:
                with open(os.path.join(outdir, 'node-%d.err' % level[0]), 'w') as f: f.write(traceback.format_exc())
            except Exception: pass
        finally:
            os._exit(code)

    try:
        prehistory(plans[0], False)
        root_pool_ids = [db.provider.pool.con._vid if db.provider.pool.con is not None else None for db, T in dbs]
        sys.stdout.flush(); sys.stderr.flush()
        import warnings
        with warnings.catch_warnings():
            warnings.simplefilter('ignore', DeprecationWarning)     # fork with a parked thread alive is part of the scenario
            pid = os.fork()
        if pid == 0:
            level[0] = 1
            node()
        res['exit'] = wait_child(pid, WATCHDOG)
        # descendants may outlive the direct child (orphans): wait for their result files
        deadline = time.time() + WATCHDOG
        want = [os.path.join(outdir, 'node-%d.json' % l) for l in range(1, depth + 1)]
        while time.time() < deadline and not all(os.path.exists(w) for w in want): time.sleep(0.01)
        for th, release in parked: release.set()
        for th, release in parked: th.join(WATCHDOG)
        missing = [os.path.basename(w) for w in want if not os.path.exists(w)]
        if missing:
            errs = []
            for l in range(1, depth + 1):
                ep = os.path.join(outdir, 'node-%d.err' % l)
                if os.path.exists(ep): errs.append(open(ep).read()[-400:])
            res['inconclusive'] = 'no result from %s (exit %s) %s' % (missing, res['exit'], errs)
            return res
        nodes = []
        for w in want:
            with open(w) as f: nodes.append(json.load(f))
        # the root keeps working on its own connections
        for i in (0, 1): guarded(i, 'root-after')
        root_errors = list(errors)
        # ---- oracle: who created which connection, who called on it --------------------------------------------
        own = {}
        logs = [('root', os.getpid(), list(rec.events))] + [('L%d' % n['level'], n['pid'], n['events']) for n in nodes]
        for name, npid, evs in logs:
            for e in evs:
                if e['kind'] == 'connect' and e['phase'] == 'call': own[e['conn']] = e['pid']
        foreign, own_calls = [], 0
        for name, npid, evs in logs:
            for e in evs:
                if e['phase'] != 'call' or e['kind'] == 'connect': continue
                creator = own.get(e['conn'])
                if creator == e['pid']: own_calls += 1
                else: foreign.append({'process': name, 'kind': e['kind'], 'conn': e['conn'], 'created_by': creator,
                                      'executed_by': e['pid'], 'sql': (e.get('sql') or '')[:40]})
        res['calls_on_own_connections'] = own_calls
        res['n_foreign'] = len(foreign)
        if foreign:
            res['problems'].append({'problem': 'process_used_connection_created_by_another_process', 'n': len(foreign),
                                    'calls': foreign[:4]})
        for n in nodes:
            if n['errors']: res['problems'].append({'problem': 'descendant_session_failed', 'level': n['level'], 'errors': n['errors'][:3]})
        if root_errors: res['problems'].append({'problem': 'root_session_failed', 'errors': root_errors[:3]})
        res['connect_faults_fired'] = sum(1 for n in nodes if n['notes'].get('connect_fault_fired'))
        res['connect_faults_planned'] = sum(1 for pl in plans[1:] if pl.get('connect_fault'))
        res['orphans'] = sum(1 for n in nodes if n['ppid'] != (nodes[n['level'] - 2]['pid'] if n['level'] > 1 else os.getpid()))
        res['processes'] = len(nodes)
        # ---- mutual visibility ---------------------------------------------------------------------------------
        vis = 0
        for i in (0, 1):
            con = sqlite3.connect(fns[i], timeout=5.0)
            try: have = set(r[0] for r in con.execute('select who from T'))
            finally: con.close()
            must = [m for j, m in committed if j == i] + [m for n in nodes for j, m in n['committed'] if j == i] + ['P0']
            lost = [m for m in must if m not in have]
            vis += len(must)
            if lost: res['problems'].append({'problem': 'commit_not_in_file', 'db': i, 'markers': lost[:6]})
            try:
                db, T = dbs[i]
                with db_session: seen = set(select(t.who for t in T)[:])
                inv = [m for m in must if m in have and m not in seen]
                if inv: res['problems'].append({'problem': 'commit_invisible_to_root_session', 'db': i, 'markers': inv[:6]})
            except BaseException as e:
                res['problems'].append({'problem': 'root_session_failed', 'errors': [repr(e)[:200]]})
        res['visibility_pairs'] = vis
        res['root_pool_ids_at_fork'] = root_pool_ids
        return res
    finally:
        if level[0] != 0: os._exit(6)
        for th, release in parked: release.set()
        for db, T in dbs:
            try: db.disconnect()
            except Exception: pass


def tree_plans(quick, rng, nrand):
    """-> list of (kinds, plans)"""
    N = {'touch': [], 'thread': [], 'orphan': False, 'connect_fault': None}
    def P(**kw):
        d = dict(N); d.update(kw); return d
    both = [0, 1]
    out = []
    K = ('sqlite', 'generic')
    # depth 1: both pools of the root hold an idle connection; the child's first connect may fail
    for cf in (None, 'call', 'ret', 'pragma'):
        out.append((K, [P(touch=both), P(connect_fault=cf)]))
    out.append((('generic', 'sqlite'), [P(touch=both, thread=both), P(connect_fault='call')]))
    out.append((K, [P(touch=[0], thread=[1]), P()]))
    # depth 2: the intermediate process touches none / one / both databases, waits or exits at once
    for touch in ([], [0], both):
        for orphan in (False, True):
            out.append((K, [P(touch=both), P(touch=touch, orphan=orphan), P()]))
    out.append((('generic', 'generic'), [P(touch=both), P(), P(connect_fault='call')]))
    out.append((('sqlite', 'sqlite'), [P(touch=both, thread=[0]), P(touch=[1], thread=[1]), P(connect_fault='ret')]))
    # depth 3
    out.append((K, [P(touch=both), P(), P(), P()]))
    out.append((K, [P(touch=both), P(touch=[0]), P(orphan=True), P()]))
    out.append((K, [P(touch=[1]), P(touch=[0], orphan=True), P(touch=[1]), P(connect_fault='call')]))
    out.append((('generic', 'sqlite'), [P(touch=both), P(touch=both, thread=[0]), P(touch=both, orphan=True), P()]))
    kinds_all = [('sqlite', 'generic'), ('generic', 'sqlite'), ('sqlite', 'sqlite'), ('generic', 'generic')]
    def subset(): return [i for i in (0, 1) if rng.random() < 0.5]
    for _ in range(nrand):
        d = rng.choice((1, 2, 2, 3))
        plans = [P(touch=rng.choice((both, both, [0], [1])), thread=subset() if rng.random() < 0.3 else [])]
        for l in range(1, d + 1):
            plans.append(P(touch=subset(), thread=subset() if rng.random() < 0.25 else [],
                           orphan=(l < d and rng.random() < 0.3),
                           connect_fault=rng.choice((None, None, 'call', 'ret', 'pragma'))))
        out.append((rng.choice(kinds_all), plans))
    return out


# ----------------------------------------------------------------------------------------------------------
# driver
# ----------------------------------------------------------------------------------------------------------

def record(ctx, res, fingerprint, sample=False):
    if res.get('inconclusive'):
        ctx.count('inconclusive_cases')
        ctx.inconclusive.append('%s: %s' % (fingerprint, res['inconclusive']))
        return
    ctx.case(fingerprint, nontrivial=True, sample=dict((k, res.get(k)) for k in
             ('kind', 'part', 'point', 'variant', 'order', 'child_prog', 'child_calls_on_own_connections', 'n_foreign',
              'child_committed', 'kinds', 'plans', 'processes', 'calls_on_own_connections', 'problems')) if sample else None)
    ctx.count('forks')
    if res.get('problems'):
        names = sorted(set(p['problem'] for p in res['problems']))
        witness = dict((k, res.get(k)) for k in ('kind', 'part', 'point', 'variant', 'order', 'child_prog', 'parent_prog',
                       'inherited_conn', 'pool_con_at_fork', 'child_foreign_calls', 'child_errors', 'child_inside_error',
                       'child_ops', 'kinds', 'plans', 'problems'))
        fid = classify(res) if 'kind' in res else None
        if fid:
            ctx.count('finding.' + fid)
            ctx.finding(fid, witness)
        else:
            ctx.violation(witness, mechanism='+'.join(names)[:80])
    else:
        ctx.count('cases_clean')


def run(ctx):
    tmp = ctx.tmp()
    rng = ctx.subrng('plans')            # the same case list in every shard; each shard runs its slice
    serial = [ctx.shard * 100000]
    def nxt():
        serial[0] += 1
        return serial[0]

    # ---- Part A: enumerated grid -----------------------------------------------------------------------------
    base_child = ['write', 'read', 'thread_write', 'thread_read', 'write', 'read']
    base_parent = ['write', 'read']
    grid = []
    quick = ctx.tier == 'quick'
    for kind in ('sqlite', 'generic'):
        # quick: the generic Pool gets one ordering per point (the other ordering runs in the thorough tier)
        for point in IDLE_POINTS:
            for order in (('parent_first',) if quick and kind == 'generic' else ('child_first', 'parent_first')):
                grid.append((kind, point, None, order, base_child, base_parent))
        for point in OPEN_POINTS:
            for variant in VARIANTS:
                for order in (('child_first',) if quick and kind == 'generic' else ('child_first', 'parent_first')):
                    grid.append((kind, point, variant, order, base_child, base_parent))
    # randomised programs
    nrand = 4 if quick else 400
    steps = ['write', 'read', 'thread_write', 'thread_read', 'write', 'read', 'disconnect']
    for i in range(nrand):
        kind = rng.choice(('sqlite', 'generic'))
        point = rng.choice(IDLE_POINTS + IDLE_POINTS + OPEN_POINTS)
        variant = rng.choice(VARIANTS) if point in OPEN_POINTS else None
        order = rng.choice(('child_first', 'parent_first'))
        cp = [rng.choice(steps) for _ in range(rng.randint(2, 7))]
        if 'write' not in cp: cp.append('write')
        if 'read' not in cp: cp.append('read')
        pp = [rng.choice(('write', 'read')) for _ in range(rng.randint(1, 4))]
        grid.append((kind, point, variant, order, cp, pp))
    mine = [g for i, g in enumerate(grid) if i % ctx.nshards == ctx.shard]
    for i, (kind, point, variant, order, cp, pp) in enumerate(mine):
        res = scenario(tmp, nxt(), kind, point, variant, order, cp, pp)
        record(ctx, res, ['A', kind, point, variant, order, cp, pp], sample=(i % 9 == 0))
        if res.get('inconclusive'): continue
        ctx.count('point.' + point)
        ctx.count('pool.' + kind)
        ctx.count('child_calls_on_own_connections', res.get('child_calls_on_own_connections', 0))
        ctx.count('child_calls_on_foreign_connections', res.get('n_foreign', 0))
        ctx.count('child_sessions', res.get('child_sessions', 0))
        ctx.count('child_commits', len(res.get('child_committed', ())))
        ctx.count('visibility_pairs_checked', res.get('visibility_pairs', 0))
        ctx.count('observed.disconnect_in_child_closes_parent_connection', res.get('child_disconnect_closed_parent_connection', 0))
        if point in IDLE_POINTS and not res['problems']: ctx.count('idle_point_cases_clean')
        if point == 'open_unflushed' and not res['problems']: ctx.count('open_unflushed_cases_clean')

    # ---- Part B: Pool driven directly ----------------------------------------------------------------------------
    if ctx.shard == 0 or ctx.tier == 'thorough':
        ops_sets = [['connect', 'use', 'release', 'connect', 'use', 'drop', 'connect', 'release'],
                    ['connect', 'drop', 'connect', 'release'],
                    ['disconnect', 'connect', 'use', 'release']]
        extra = 0 if ctx.tier == 'quick' else 12
        for j in range(extra):
            ops_sets.append([rng.choice(['connect', 'use', 'release', 'drop', 'connect', 'disconnect']) for _ in range(rng.randint(2, 8))])
        for point in ('never', 'pooled', 'in_use', 'dropped', 'disconnected'):
            for ops in ops_sets:
                if 'connect' not in ops: ops = ['connect'] + ops
                res = pool_direct_case(tmp, nxt(), point, ops)
                record(ctx, res, ['B', point, ops])
                if res.get('inconclusive'): continue
                ctx.count('pool_direct_cases')
                ctx.count('pool_direct_child_ops_on_own', res.get('child_ops_on_own', 0))
                ctx.count('observed.pool_disconnect_in_child_closes_parent_connection',
                          res.get('observed_disconnect_on_parent_connection', 0))

    # ---- Part C: OraPool ----------------------------------------------------------------------------------------
    if ctx.shard == 0:
        try:
            import cx_Oracle
            import pony.orm.dbproviders.oracle
            ok = True
        except Exception as e:
            ok = False
            ctx.count('outcome.unsupported_orapool')
            ctx.extra['orapool_import_error'] = repr(e)[:300]
        if ok:
            for point in ('never', 'released', 'in_use'):
                res = orapool_case(tmp, nxt(), point)
                record(ctx, res, ['C', point])
                if not res.get('inconclusive'):
                    ctx.count('orapool_cases')
                    ctx.count('orapool_child_ops_on_own', res.get('child_ops_on_own', 0))

    # ---- Part D: fork chains -----------------------------------------------------------------------------------
    trees = tree_plans(quick, rng, 4 if quick else 160)
    mine_t = [t for i, t in enumerate(trees) if i % ctx.nshards == ctx.shard]
    for i, (kinds, plans) in enumerate(mine_t):
        res = tree_scenario(tmp, nxt(), kinds, plans)
        record(ctx, res, ['D', kinds, plans], sample=(i % 7 == 0))
        if res.get('inconclusive'): continue
        ctx.count('tree_cases')
        ctx.count('tree_depth.%d' % res['depth'])
        ctx.count('tree_processes', res['processes'])
        ctx.count('forks', res['processes'] - 1)
        ctx.count('tree_calls_on_own_connections', res['calls_on_own_connections'])
        ctx.count('tree_calls_on_foreign_connections', res['n_foreign'])
        ctx.count('tree_orphaned_processes', res['orphans'])
        ctx.count('tree_connect_faults_fired', res['connect_faults_fired'])
        ctx.count('tree_connect_faults_planned', res['connect_faults_planned'])
        ctx.count('visibility_pairs_checked', res.get('visibility_pairs', 0))
        if any(pl.get('thread') for pl in plans): ctx.count('tree_cases_with_parked_thread_at_fork')
        if not res['problems']: ctx.count('tree_cases_clean')
    ctx.floor('tree_cases', max(1, len(mine_t) // 2))
    ctx.floor('tree_calls_on_own_connections', 30 * max(1, len(mine_t) // 2))
    planned_faults = sum(1 for k, pls in mine_t for pl in pls[1:] if pl.get('connect_fault') and (pl.get('touch') or pl is pls[-1]))
    planned_orphans = sum(1 for k, pls in mine_t for pl in pls[1:-1] if pl.get('orphan'))
    ctx.floor('tree_connect_faults_fired', planned_faults // 2)
    ctx.floor('tree_orphaned_processes', planned_orphans // 2)

    ctx.floor('forks', max(3, len(mine) // 2))
    ctx.floor('child_calls_on_own_connections', 20 * max(1, len(mine) // 3))
    ctx.floor('idle_point_cases_clean', max(1, len(mine) // 8))
    ctx.floor('visibility_pairs_checked', max(3, len(mine)))
    if ctx.shard == 0:
        ctx.floor('pool_direct_cases', 10)
        ctx.floor('orapool_cases', 3)


def replay(ctx, witness):
    tmp = ctx.tmp()
    if witness.get('part') == 'pool_direct':
        res = pool_direct_case(tmp, 1, witness['point'], witness['child_ops'])
    elif witness.get('part') == 'orapool':
        res = orapool_case(tmp, 1, witness['point'])
    elif witness.get('part') == 'tree':
        res = tree_scenario(tmp, 1, tuple(witness['kinds']), witness['plans'])
    else:
        res = scenario(tmp, 1, witness['kind'], witness['point'], witness.get('variant'), witness['order'],
                       witness['child_prog'], witness['parent_prog'])
    print(json.dumps(res, indent=1, default=repr)[:4000])
    if res.get('problems'):
        ctx.violation({'replayed': witness, 'problems': res['problems']}, mechanism='replay')

"""C20 — optimistic concurrency control prevents lost updates (SQLite).

Engine E4 (vlib/sched.py + vlib/schedprog.py) with the DB-API recorder (E3).  2-3 sessions, each in its own thread
with its own connection to one file database, run small read/write programs over 1-2 shared rows.  All
operation-level interleavings of a program set are enumerated when there are at most 2000, sampled otherwise;
in addition statement-level schedules (yield before every DB-API call) are sampled.

Oracle 1 (serial equivalence; programs that touch no exempt attribute, lock nothing, and in which no optimistic
session writes into one object a value it read from another object -- the property, like pony's check, is per
object, so write skew ACROSS objects is outside it): the raw final state equals
the result of SOME serial order of exactly the sessions that committed (pure-Python reference interpreter);
sessions that raised contribute nothing.
Oracle 2 (history, literal statement; every program): for every optimistic session that committed, for every UPDATE
of row r it sent, for every non-exempt attribute it had read from r before that UPDATE and never overwrote itself:
the committed value at the UPDATE's position (observed through an independent raw connection when the statement is
sent) equals the value it read -- unless r was obtained with for_update; and no uniquely-valued constant written by
a session that raised is present in the final state.
Spurious OptimisticCheckError / UnrepeatableReadError are loud and allowed.
"""
import itertools

META = {
    'level': 'exploration',
    'engine': 'E4+E3',
    'technique': 'deterministic scheduler over session programs; serial-equivalence oracle on the raw final state + '
                 'history check of every committed UPDATE against the values the session had read',
    'level_text': 'Every operation-level interleaving of each generated program set is executed on the real code '
                  '(exhaustive per set when <= 2000 interleavings), plus sampled statement-level schedules; the '
                  'final database must be explainable by a serial order of the committed sessions. Program sets are '
                  'sampled, so this is exploration, with bounded-exhaustive schedule coverage per set.',
    'level_note': 'Trusted: the 60-line reference interpreter of the op language; the raw sqlite3 observer. SQLite '
                  'serialises writers through pony\'s process-wide lock, so statement-level schedules differ from '
                  'operation-level ones only in where reads fall.',
    'rule': 'case = (program set, session options, schedule); distinct by program text + executed schedule trace; '
            'non-trivial = the executed schedule is not a serial execution of the sessions and at least one session '
            'writes. Program sets: hand-written conflict patterns (lost update, write skew, multi-attribute reads, '
            'read-after-flush) and random programs over read/write/inc/copy/flush/lock ops, with optimistic, '
            'optimistic=False and immediate sessions, for_update objects, and exempt attribute kinds; plus the wider op '
            'language: mid-session commit() (units of a session commit separately; locks end with the transaction), rows '
            'created in the session, single-object obj.flush() after delete/update as first write, one-to-many members '
            'read through the collection by different read kinds (len/bool/load/prefetch first, then iteration, sorted, '
            'list, copy, `in`) followed by updates of the members while a writer re-links them.',
    'assumptions': ['SQLite only: the PostgreSQL half of the property (row versions under READ COMMITTED) is not executed',
                    'an attribute a session read and later overwrote itself (x = x + 1) is judged by serial '
                    'equivalence of the final state (lost-update reading of the title), not by the history check',
                    'seeing the members of a one-to-many collection (iteration, sorted, list, copy, `in`) counts as a read of '
                    'member.<reference> (pony marks it so); len/bool/count alone do not',
                    'after a mid-session commit() a for_update object is no longer locked, so the history check applies to it again; '
                    'attributes the session wrote itself at any time (incl. all attributes of a row it created) stay outside the history check',
                    'programs that touch optimistic=False / float / volatile attributes or for_update objects are '
                    'judged by the history check only (the property exempts them); their serial equivalence is counted, not judged',
                    'the property is per object ("every attribute the session read from that object"): programs in which an '
                    'optimistic session copies a value from one object into another are judged by the history check only'],
    'shims': [],
    'exhaustive_tiers': [],
}
SHARDS = {'quick': 1, 'thorough': 16}
SHARD_TIMEOUT = {'quick': 300, 'thorough': 1500}

EXPECTED_ERRORS = ('OptimisticCheckError', 'UnrepeatableReadError', 'OperationalError', 'CommitException',
                   'TransactionIntegrityError', 'UnexpectedError', 'RollbackException', 'ObjectNotFound', 'IntegrityError',
                   'CacheIndexError', 'ConstraintError', 'OperationWithDeletedObjectError')
PLAIN = ('x', 'y', 'z', 'q', 'g', 'd')        # attributes that take part in optimistic checks (int, float optimistic=True, Decimal)
EXEMPT = ('e', 'n', 'f', 'v')                   # excluded by declaration (float default, optimistic=False, volatile)
FRACTIONAL = ('e', 'f', 'g', 'd')


def const_for(a, counter, si):
    """A constant unique per session; fractional attributes get values below AND above the initial ones."""
    k = next(counter)
    # quarters are exact in binary and in Decimal(10, 2); low values are below every initial value of these attributes
    if a in FRACTIONAL: return ((k % 1000) * 4 + si) / 4.0 if k % 2 else k + 0.25
    return k


def S(name, ops, **opts):
    return {'name': name, 'ops': list(ops), 'opts': opts}


def handwritten():
    """Program sets (lists of sessions) for the classic conflicts; constants are unique per session."""
    sets = []
    add = lambda *ss: sets.append(list(ss))
    add(S('A', [('inc', 1, 'x')]), S('B', [('inc', 1, 'x')]))                                           # lost update
    add(S('A', [('read', 1, 'x'), ('write', 1, 'y', 1001)]), S('B', [('write', 1, 'x', 2001)]))         # stale read
    add(S('A', [('copy', 1, 'y', 1, 'x')]), S('B', [('copy', 1, 'x', 1, 'y')]))                         # write skew
    add(S('A', [('read', 1, 'x'), ('read', 1, 'y'), ('write', 1, 'z', 1001)]), S('B', [('write', 1, 'y', 2001)]))
    add(S('A', [('read', 1, 'x'), ('read', 1, 'y'), ('read', 1, 'z'), ('write', 1, 'x', 1001)]), S('B', [('write', 1, 'z', 2001)]))
    add(S('A', [('read', 1, 'y'), ('read', 1, 'z'), ('write', 1, 'x', 1001)]), S('B', [('inc', 1, 'z')]))
    add(S('A', [('write', 1, 'y', 1001), ('flush',), ('read', 1, 'x'), ('write', 1, 'z', 1002)]), S('B', [('write', 1, 'x', 2001)]))
    add(S('A', [('inc', 1, 'x'), ('flush',), ('inc', 1, 'x')]), S('B', [('inc', 1, 'x')]))
    add(S('A', [('copy', 2, 'x', 1, 'x')]), S('B', [('copy', 1, 'x', 2, 'x')]))                         # two rows
    add(S('A', [('read', 1, 'x'), ('write', 2, 'y', 1001)]), S('B', [('read', 2, 'y'), ('write', 1, 'x', 2001)]))
    add(S('A', [('find', 1, 'x'), ('write', 1, 'y', 1001)]), S('B', [('write', 1, 'x', 2001)]))         # read = search criterion
    add(S('A', [('read', 1, 'y'), ('find', 1, 'z'), ('write', 1, 'x', 1001)]), S('B', [('inc', 1, 'z')]))
    add(S('A', [('inc', 1, 'x')]), S('B', [('inc', 1, 'x')], optimistic=False))
    add(S('A', [('copy', 1, 'y', 1, 'x')]), S('B', [('write', 1, 'x', 2001)], immediate=True))
    add(S('A', [('read', 1, 'x'), ('write', 1, 'y', 1001)], optimistic=False), S('B', [('inc', 1, 'x')], optimistic=False))
    add(S('A', [('inc', 1, 'x')]), S('B', [('inc', 1, 'x')]), S('C', [('inc', 1, 'x')]))
    add(S('A', [('copy', 1, 'y', 1, 'x')]), S('B', [('copy', 1, 'z', 1, 'y')]), S('C', [('copy', 1, 'x', 1, 'z')]))
    # exempt kinds (history check only)
    add(S('A', [('read', 1, 'n'), ('write', 1, 'y', 1001)]), S('B', [('write', 1, 'n', 2001)]))
    add(S('A', [('read', 1, 'f'), ('read', 1, 'x'), ('write', 1, 'y', 1001)]), S('B', [('write', 1, 'f', 2.25), ('write', 1, 'x', 2001)]))
    add(S('A', [('read', 1, 'v'), ('read', 1, 'x'), ('write', 1, 'y', 1001)]), S('B', [('write', 1, 'v', 2001)]))
    add(S('A', [('lock', 1, 'get_for_update'), ('inc', 1, 'x')]), S('B', [('inc', 1, 'x')]))
    add(S('A', [('read', 1, 'x'), ('lock', 1, 'get_for_update'), ('write', 1, 'y', 1001)]), S('B', [('write', 1, 'x', 2001)]))
    add(S('A', [('lock', 1, 'query_for_update'), ('copy', 1, 'y', 1, 'x')]), S('B', [('copy', 1, 'x', 1, 'y')]))
    # attribute kinds: read attributes excluded by declaration may be overwritten silently, every other read attribute
    # is protected regardless of what is declared (and read) before it; float values go down as well as up
    add(S('A', [('read', 1, 'g'), ('write', 1, 'y', 1001)]), S('B', [('dec', 1, 'g')]))
    add(S('A', [('read', 1, 'g'), ('write', 1, 'y', 1001)]), S('B', [('write', 1, 'g', 9.75)]))
    add(S('A', [('read', 1, 'g'), ('read', 1, 'd'), ('write', 1, 'x', 1001)]), S('B', [('write', 1, 'g', 0.125), ('dec', 1, 'd')]))
    add(S('A', [('read', 1, 'd'), ('write', 1, 'z', 1001)]), S('B', [('dec', 1, 'd')]))
    add(S('A', [('read', 1, 'e'), ('read', 1, 'x'), ('write', 1, 'y', 1001)]), S('B', [('write', 1, 'x', 2001)]))
    add(S('A', [('read', 1, 'f'), ('read', 1, 'q'), ('write', 1, 'y', 1001)]), S('B', [('inc', 1, 'q')]))
    add(S('A', [('read', 1, 'n'), ('read', 1, 'g'), ('write', 1, 'z', 1001)]), S('B', [('dec', 1, 'g')]))
    add(S('A', [('read', 1, 'v'), ('read', 1, 'd'), ('read', 1, 'q'), ('write', 1, 'x', 1001)]), S('B', [('write', 1, 'q', 2001)]))
    add(S('A', [('read', 1, 'e'), ('read', 1, 'n'), ('read', 1, 'f'), ('write', 1, 'q', 1001)]), S('B', [('write', 1, 'e', 0.25), ('write', 1, 'n', 2001), ('dec', 1, 'f')]))
    add(S('A', [('copy', 1, 'q', 1, 'g')]), S('B', [('dec', 1, 'g')]))
    add(S('A', [('dec', 1, 'g')]), S('B', [('dec', 1, 'g')]))
    add(S('A', [('inc', 1, 'd')]), S('B', [('dec', 1, 'd')]))
    # mid-session commit(): the session goes on with the same cache; locks end with the transaction
    add(S('A', [('read', 1, 'x'), ('write', 1, 'y', 1001), ('commit',), ('write', 1, 'z', 1002)]), S('B', [('write', 1, 'x', 2001)]))
    add(S('A', [('inc', 1, 'x'), ('commit',), ('inc', 1, 'x')]), S('B', [('inc', 1, 'x')]))
    add(S('A', [('lock', 1, 'get_for_update'), ('read', 1, 'x'), ('write', 1, 'z', 1001), ('commit',), ('write', 1, 'y', 1002)]),
        S('B', [('write', 1, 'x', 2001)]))
    add(S('A', [('lock', 1, 'query_for_update'), ('read', 1, 'x'), ('commit',), ('write', 1, 'y', 1001)]), S('B', [('inc', 1, 'x')]))
    add(S('A', [('lock', 1, 'nowait'), ('read', 1, 'y'), ('inc', 1, 'x'), ('commit',), ('read', 1, 'z'), ('write', 1, 'x', 1001)]),
        S('B', [('write', 1, 'y', 2001), ('write', 1, 'z', 2002)]))
    add(S('A', [('newrow', 3), ('commit',), ('read', 3, 'x'), ('write', 3, 'y', 1001)]), S('B', [('write', 3, 'x', 2001)]))
    add(S('A', [('newrow', 3), ('read', 3, 'x'), ('commit',), ('copy', 3, 'y', 3, 'x')]), S('B', [('inc', 3, 'x')]))
    # a single object pushed with obj.flush() as the first write of the session, then a failing optimistic update
    add(S('A', [('read', 2, 'x'), ('delkid', 4), ('objflush', 'K', 4), ('write', 2, 'y', 1001)]), S('B', [('write', 2, 'x', 2001)]))
    add(S('A', [('read', 1, 'x'), ('write', 2, 'y', 1001), ('objflush', 'R', 2), ('write', 1, 'z', 1002)]), S('B', [('inc', 1, 'x')]))
    add(S('A', [('read', 1, 'x'), ('delkid', 3), ('objflush', 'K', 3), ('setw', 1, 1001), ('objflush', 'K', 1), ('write', 1, 'y', 1002)]),
        S('B', [('write', 1, 'x', 2001)]))
    add(S('A', [('read', 1, 'y'), ('setw', 4, 1001), ('objflush', 'K', 4), ('delkid', 3), ('write', 1, 'z', 1002)]), S('B', [('inc', 1, 'y')]))
    # member.parent read through the collection (different read kinds, collection loaded by something else first)
    add(S('A', [('coll', 1, 'kids', 'iter'), ('setw', 1, 1001)]), S('B', [('movekid', 1, 2)]))
    add(S('A', [('coll', 1, 'kids', 'len'), ('coll', 1, 'kids', 'iter'), ('setw', 1, 1001)]), S('B', [('movekid', 1, 2)]))
    add(S('A', [('coll', 1, 'kids', 'load'), ('coll', 1, 'kids', 'sorted'), ('setw', 2, 1001)]), S('B', [('movekid', 2, None)]))
    add(S('A', [('requery', 'prefetch_kids'), ('coll', 1, 'kids', 'copy'), ('setw', 1, 1001), ('setw', 2, 1002)]), S('B', [('movekid', 2, 2)]))
    add(S('A', [('coll', 1, 'kids', 'list'), ('setw', 1, 1001)]), S('B', [('movekid', 1, 2), ('setw', 3, 2001)]))
    add(S('A', [('coll', 1, 'kids', 'bool'), ('coll', 1, 'kids', 'iter'), ('setw', 2, 1001)]), S('B', [('movekid', 2, 2)]))
    add(S('A', [('coll', 1, 'kids', 'in:1'), ('setw', 1, 1001)]), S('B', [('movekid', 1, 2)]))
    add(S('A', [('kattr', 1, 'parent'), ('setw', 1, 1001)]), S('B', [('movekid', 1, 2)]))
    add(S('A', [('kattr', 1, 'w'), ('movekid', 1, 2)]), S('B', [('setw', 1, 2001)]))
    return sets


def random_set(rng, allow_exempt):
    nsess = 3 if rng.random() < 0.15 else 2
    attrs = list(PLAIN) + (list(EXEMPT) if allow_exempt else [])
    sessions = []
    for si in range(nsess):
        nops = rng.randint(2, 4 if nsess == 2 else 3)
        ops = []
        const = itertools.count(1000 * (si + 1) + 1)
        for j in range(nops):
            r = 1 if rng.random() < 0.8 else 2
            a = rng.choice(attrs)
            k = rng.random()
            if k < 0.06 and a not in FRACTIONAL: ops.append(('find', r, a))
            elif k < 0.34: ops.append(('read', r, a))
            elif k < 0.56: ops.append(('write', r, a, const_for(a, const, si)))
            elif k < 0.70: ops.append((rng.choice(('inc', 'inc', 'dec')), r, a))
            elif k < 0.88:
                b = rng.choice(attrs)
                ops.append(('copy', r, a, r if rng.random() < 0.75 else 3 - r, b))
            elif k < 0.94 and j: ops.append(('flush',))
            elif allow_exempt: ops.append(('lock', r, rng.choice(('get_for_update', 'query_for_update', 'nowait'))))
            else: ops.append(('read', r, a))
        if not any(o[0] in ('write', 'inc', 'copy') for o in ops) and rng.random() < 0.8:
            a = rng.choice(attrs)
            ops.append(('write', 1, a, const_for(a, const, si)))
        opts = {}
        k = rng.random()
        if k < 0.12: opts = {'optimistic': False}
        elif k < 0.22: opts = {'immediate': True}
        sessions.append(S('ABC'[si], ops, **opts))
    return sessions


def random_rich_set(rng):
    """Random programs over the wider op language: mid-session commit, in-session created rows, single-object
    flush, kids (one-to-many) observed through several read kinds, kid updates and re-linking."""
    sessions = []
    for si in range(2):
        const = itertools.count(1000 * (si + 1) + 1)
        nops = rng.randint(3, 5)
        ops = []
        made = False
        for j in range(nops):
            k = rng.random()
            r = 1 if rng.random() < 0.7 else 2
            kid = rng.choice((1, 2, 3, 4))
            if k < 0.14: ops.append(('read', r, rng.choice(PLAIN)))
            elif k < 0.24: ops.append(('write', r, rng.choice(PLAIN), next(const)))
            elif k < 0.30: ops.append(('inc', r, rng.choice(PLAIN)))
            elif k < 0.36 and j: ops.append(('commit',))
            elif k < 0.40 and si == 0 and not made: ops.append(('newrow', 3)); made = True
            elif k < 0.46: ops.append(('lock', r, rng.choice(('get_for_update', 'query_for_update'))))
            elif k < 0.60: ops.append(('coll', r, 'kids', rng.choice(('iter', 'len', 'load', 'sorted', 'list', 'copy', 'bool', 'in:%d' % kid))))
            elif k < 0.68: ops.append(('kattr', kid, rng.choice(('parent', 'w'))))
            elif k < 0.80: ops.append(('setw', kid, next(const)))
            elif k < 0.88: ops.append(('movekid', kid, rng.choice((1, 2, None))))
            elif k < 0.92: ops.append(('delkid', kid))
            elif k < 0.96 and ops and ops[-1][0] in ('setw', 'movekid', 'delkid'): ops.append(('objflush', 'K', ops[-1][1]))
            elif ops and ops[-1][0] == 'write': ops.append(('objflush', 'R', ops[-1][1]))
            else: ops.append(('requery', rng.choice(('prefetch_kids', 'kids_all'))))
        sessions.append(S('AB'[si], ops))
    return sessions


def same(a, b):
    if isinstance(a, (int, float)) and isinstance(b, (int, float)) and not isinstance(a, bool): return abs(a - b) < 1e-9
    return a == b


def writes_of(sess, upto=None):
    """{(table, id, attr)} the session's program overwrites."""
    out = set()
    for op in sess['ops'][:upto]:
        if op[0] in ('write', 'inc', 'dec', 'copy'): out.add(('R', op[1], op[2]))
        elif op[0] == 'movekid': out.add(('K', op[1], 'parent'))
        elif op[0] == 'setw': out.add(('K', op[1], 'w'))
        elif op[0] == 'newkid': out.add(('K', op[1], 'parent')); out.add(('K', op[1], 'w'))
        elif op[0] == 'newrow':
            for a in ('e', 'x', 'y', 'z', 'n', 'f', 'v', 'g', 'd', 'q'): out.add(('R', op[1], a))
    return out


def const_writes(sess):
    return [(op[1], op[2], op[3]) for op in sess['ops'] if op[0] == 'write']


def is_serial_trace(sched_obj, names):
    """True if the executed schedule ran the sessions one after the other."""
    seen_end = set(); cur = None
    for n, lab in sched_obj.trace:
        if n != cur:
            if n in seen_end: return False
            if cur is not None: seen_end.add(cur)
            cur = n
    return True


class Judge(object):
    def __init__(self, ctx, sp):
        self.ctx, self.sp = ctx, sp

    def judge(self, sessions, res, desc):
        ctx, sp = self.ctx, self.sp
        names = [s['name'] for s in sessions]
        wit0 = dict(desc, sessions=sessions, choices=''.join(res.sched.choices))
        if res.status != 'ok' or res.final is None:
            ctx.count('schedule.' + res.status)
            # neither a deadlock (all workers blocked) nor a watchdog is a verdict about this property
            ctx.inconclusive_if(True, '%s in schedule %r: %r' % (res.status, desc, res.sched.status_detail))
            return
        outcomes = {}
        for n in names:
            r = res.runs[n]
            if r.outcome == 'committed': outcomes[n] = 'committed'; ctx.count('session.committed')
            elif r.outcome == 'raised':
                outcomes[n] = r.exc[0]
                ctx.count('session.raised.' + r.exc[0])
                if r.exc[0] not in EXPECTED_ERRORS:
                    ctx.count('outcome.unexpected_error')
                    ctx.extra.setdefault('unexpected_errors', [])
                    if len(ctx.extra['unexpected_errors']) < 10: ctx.extra['unexpected_errors'].append([n, r.exc, sessions])
            else:
                ctx.inconclusive_if(True, 'harness: session %s ended with %r %r' % (n, r.outcome, r.exc)); return
        wit0['outcomes'] = outcomes
        # a session with mid-session commit() consists of several units; the units whose commit went through count
        units = [sp.committed_units(s, res.runs[s['name']]) for s in sessions]
        wit0['committed_units'] = [[u['name'] for u in us] for us in units]
        exempt = any(sp.touches_exempt(s) for s in sessions)
        cross = any(sp.cross_object_flow(s) and s['opts'].get('optimistic') is not False and not s['opts'].get('immediate')
                    for s in sessions)

        # ---- oracle 1: serial equivalence --------------------------------------------------------------
        serial = sp.serial_results_units(units)
        match = [order for order, st in serial.items() if st == res.final]
        if cross and not exempt:
            # per-object checks do not promise serialisability when a value read from one object is written into
            # another one (the object that is only read is never re-checked): counted, not judged
            ctx.count('serial.cross_object_equivalent' if match else 'serial.cross_object_not_equivalent')
        elif not exempt:
            ctx.count('serial.judged')
            if match: ctx.count('serial.equivalent')
            else:
                ctx.violation(dict(wit0, final=res.final, serial={'>'.join(o): st for o, st in list(serial.items())[:6]}),
                              'final-state-not-serial-equivalent')
        else:
            ctx.count('serial.exempt_equivalent' if match else 'serial.exempt_not_equivalent')
        if len([o for o in outcomes.values() if o != 'committed']): ctx.count('schedules.with_failed_session')

        # ---- oracle 2: history check ----------------------------------------------------------------------
        all_committed_ops = [op for us in units for u in us for op in u['ops']]
        for s, us in zip(sessions, units):
            n = s['name']; r = res.runs[n]
            last_commit = r.commits_done[-1] if r.commits_done else -1
            if outcomes[n] != 'committed':
                # nothing of the part that was not committed may be in the final state
                lost = s['ops'][last_commit + 1:]
                for op in lost:
                    if op[0] == 'write':
                        ctx.count('history.failed_session_writes_checked')
                        if res.final['R'].get(op[1], {}).get(op[2]) == op[3]:
                            ctx.violation(dict(wit0, session=n, write=list(op), final=res.final['R']), 'failed-session-write-in-final-state')
                    elif op[0] == 'setw':
                        ctx.count('history.failed_session_writes_checked')
                        if res.final['K'].get(op[1], (None, None))[1] == op[2]:
                            ctx.violation(dict(wit0, session=n, write=list(op), final=res.final['K']), 'failed-session-write-in-final-state')
                    elif op[0] in ('delkid', 'delete'):
                        ctx.count('history.failed_session_deletes_checked')
                        gone = op[1] not in res.final['K' if op[0] == 'delkid' else 'R']
                        if gone and op not in all_committed_ops:
                            ctx.violation(dict(wit0, session=n, delete=list(op), final=res.final), 'failed-session-delete-in-final-state')
                    elif op[0] in ('newrow', 'newkid'):
                        ctx.count('history.failed_session_writes_checked')
                        if op[1] in res.final['R' if op[0] == 'newrow' else 'K'] and op not in all_committed_ops:
                            ctx.violation(dict(wit0, session=n, create=list(op), final=res.final), 'failed-session-insert-in-final-state')
            if s['opts'].get('optimistic') is False: continue
            overwritten = writes_of(s)
            for w in res.writes:
                if w['tag'] != n or w['verb'] != 'UPDATE': continue
                step = w['step']
                applied = outcomes[n] == 'committed' or (step != 'exit' and step is not None and step <= last_commit)
                if not applied: continue
                pu = sp.parse_update(w['sql'], w['args'])
                if pu is None or pu[0] not in ('R', 'K'): ctx.count('history.unparsed_update'); continue
                table, set_cols, row, where_cols = pu
                if table == 'R' and row in w['locked']: ctx.count('history.skipped_locked_row'); continue
                before = w['before']
                if 'error' in before: ctx.count('history.no_snapshot'); continue
                for ob in r.obs:
                    st, key, val = ob[:3]
                    if key[0] != table or len(key) != 3 or key[1] != row or val[0] != 'val': continue
                    a = key[2]
                    if table == 'R' and (a not in sp.R_ATTRS or a in sp.EXEMPT_ATTRS): continue
                    if (table, row, a) in overwritten: continue
                    if step != 'exit' and not (st < step): continue
                    ctx.count('history.read_checked'); ctx.count('history.read_checked.' + table)
                    if len(ob) > 3: ctx.count('history.read_checked.through_collection')
                    if table == 'R': now = before['R'].get(row, {}).get(a)
                    else:
                        kv = before['K'].get(row)
                        now = None if kv is None else kv[0 if a == 'parent' else 1]
                        if kv is None: now = 'row deleted'
                    if not same(now, val[1]):
                        ctx.violation(dict(wit0, session=n, table=table, row=row, attr=a, read=val[1], at_update=now, update=w['sql'],
                                           args=w['args'], where=where_cols, via='collection' if len(ob) > 3 else 'attribute'),
                                      'update-applied-over-changed-read')
                    elif a not in where_cols: ctx.count('history.read_not_in_where')


def explore(ctx, model, sp, judge, sessions, kind, key, stmt_samples, max_enum=2000):
    from vlib import sched
    names = [s['name'] for s in sessions]
    counts = [sp.n_steps(s) for s in sessions]
    total = sched.n_interleavings(counts)
    rng = ctx.subrng('ilv', *key)
    if total <= max_enum:
        seqs = list(sched.interleavings(counts)); ctx.count('sets.enumerated_exhaustively')
    else:
        seqs = sched.sample_interleavings(counts, min(max_enum, 150), rng); ctx.count('sets.sampled')
    has_write = any(o[0] in sp.WRITE_OPS for s in sessions for o in s['ops'])
    progfp = [[s['name'], s['ops'], sorted(s['opts'].items())] for s in sessions]
    for seq in seqs:
        ch = sched.SequenceChooser([names[i] for i in seq])
        res = sp.run_schedule(model, sessions, ch, levels=('op', 'lock'))
        ctx.count('schedules'); ctx.count('schedules.op_level')
        record(ctx, sp, res, sessions, progfp, has_write, {'kind': kind, 'key': list(key), 'level': 'op', 'seq': ''.join(names[i] for i in seq)})
        judge.judge(sessions, res, {'kind': kind, 'key': list(key), 'level': 'op', 'seq': ''.join(names[i] for i in seq)})
    for j in range(stmt_samples):
        r2 = ctx.subrng('stmt', j, *key)
        ch = sched.RandomChooser(r2, r2.choice((0.3, 0.5, 0.7)))
        res = sp.run_schedule(model, sessions, ch, levels=('stmt', 'op', 'lock'))
        ctx.count('schedules'); ctx.count('schedules.stmt_level')
        record(ctx, sp, res, sessions, progfp, has_write, {'kind': kind, 'key': list(key), 'level': 'stmt', 'sample': j})
        judge.judge(sessions, res, {'kind': kind, 'key': list(key), 'level': 'stmt', 'sample': j})


def record(ctx, sp, res, sessions, progfp, has_write, desc):
    s = res.sched
    names = [x['name'] for x in sessions]
    nontrivial = has_write and not is_serial_trace(s, names)
    ctx.case([progfp, s.signature], nontrivial=nontrivial,
             sample={'desc': desc, 'sessions': sessions, 'outcomes': {n: (r.outcome, r.exc and r.exc[0]) for n, r in res.runs.items()},
                     'final': res.final and res.final['R']})
    if nontrivial: ctx.count('schedules.nontrivial')
    ctx.count('lock_waits', sum(w.lock_waits for w in s.workers))
    ctx.count('yield_events', s.n_events)
    ctx.count('db_statements', sum(1 for e in res.events if e['phase'] == 'call' and e['kind'] == 'execute'))
    ctx.count('updates_observed', sum(1 for w in res.writes if w['verb'] == 'UPDATE'))
    SIGS.add(s.signature + repr(progfp))


SIGS = set()


def run(ctx):
    from vlib import schedprog as sp
    model = sp.Model(ctx.tmp(), timeout=0.05)
    judge = Judge(ctx, sp)
    try:
        hw = handwritten()
        if ctx.tier == 'quick':
            hw_sel = hw; nrand_plain, nrand_exempt, nrand_rich, stmt = 5, 2, 3, 2
        else:
            hw_sel = hw if ctx.shard == 0 else [hw[i] for i in range(len(hw)) if i % ctx.nshards == ctx.shard % len(hw)]
            nrand_plain, nrand_exempt, nrand_rich, stmt = 11, 4, 8, 6
        for i, sessions in enumerate(hw_sel):
            explore(ctx, model, sp, judge, sessions, 'hand', ('hand', hw.index(sessions), ctx.shard), stmt)
            ctx.count('program_sets')
        rng = ctx.rng
        for i in range(nrand_plain + nrand_exempt):
            sessions = random_set(rng, allow_exempt=(i >= nrand_plain))
            explore(ctx, model, sp, judge, sessions, 'random', ('rand', ctx.tier, ctx.shard, i), stmt)
            ctx.count('program_sets')
        for i in range(nrand_rich):
            sessions = random_rich_set(rng)
            explore(ctx, model, sp, judge, sessions, 'rich', ('rich', ctx.tier, ctx.shard, i), stmt, max_enum=400)
            ctx.count('program_sets')
    finally:
        model.close()
    ctx.count('distinct_schedules', len(SIGS))
    ctx.floor('schedules.nontrivial', 600)
    ctx.floor('serial.judged', 400)
    ctx.floor('history.read_checked', 300)
    ctx.floor('session.raised.OptimisticCheckError', 30)
    ctx.floor('schedules.with_failed_session', 100)


def replay(ctx, witness):
    from vlib import schedprog as sp, sched
    model = sp.Model(ctx.tmp(), timeout=0.05)
    judge = Judge(ctx, sp)
    try:
        sessions = witness['sessions']
        for s in sessions: s['ops'] = [tuple(o) for o in s['ops']]
        levels = ('op', 'lock') if witness.get('level') == 'op' else ('stmt', 'op', 'lock')
        res = sp.run_schedule(model, sessions, sched.ReplayChooser(witness['choices']), levels=levels)
        judge.judge(sessions, res, {'replay': True, 'level': witness.get('level')})
    finally:
        model.close()

META = {
    'level': 'exploration',
    'engine': 'E2+E3',
    'technique': 'flush-order monitor under immediately enforced foreign keys with a cycle detector over pending inserts',
    'level_text': 'Every flush runs with PRAGMA foreign_keys=ON (immediate): a foreign-key error or an UnresolvableCyclicDependency error on a flush whose pending inserts are orderable is a violation; when the new objects reference each other in a cycle the flush must either succeed or raise, and nothing of the session may be visible afterwards. Held on the generated histories only: fixed templates covering every relationship kind alternate with random 2-4 entity diagrams; violating histories are shrunk by re-running the real code.',
    'level_note': 'Trusted: the reference model in vlib/hmodel.py (documented assignment / collection / cascade semantics, conflict timing free), SQLite as the only backend, single-threaded sessions. Loud unexpected errors are counted, not judged. One-to-one self links are out of scope.',
    'rule': 'one case = one generated history (diagram + operation list, up to N operations over several sessions); distinct = distinct (diagram, operation list); non-trivial = at least two applied modifications and at least one event judged by the deciding monitor',
    'assumptions': ['SQLite only', 'reference model semantics as documented in DESIGN.md 2.2', 'histories are single-threaded'],
    'design_ref': 'DESIGN.md 2.2, 3 C16',
}
SHARDS = {'quick': 4, 'thorough': 16}
SHARD_TIMEOUT = {'quick': 300, 'thorough': 1500}

CFG = {
    'monitors': ['fkorder'],
    'deciding_counters': ['fkorder.orderable_flushes_with_inserts'],
    'n': {'quick': 900, 'thorough': 1000},
    'ops': {'quick': 30, 'thorough': 60},
    'weights': {'create': 22, 'set': 14, 'setmany': 4, 'add': 8, 'remove': 3, 'assign': 2, 'clear': 1, 'delete': 6, 'flush': 10, 'commit': 5, 'read': 1, 'coll': 1, 'bypk': 1, 'bykey': 1, 'selectall': 0, 'selectcmp': 0, 'count': 0, 'todict': 0},
}


def run(ctx):
    from vlib import hcheck
    hcheck.run_histories(ctx, CFG)
    ctx.floor('fkorder.orderable_flushes_with_inserts', 300)


def replay(ctx, witness):
    from vlib import hcheck
    hcheck.replay(ctx, witness, CFG)

"""C19 — connections and the SQLite transaction lock are always released.

Runtime monitor: real db_session code runs session *shapes* on a file-backed SQLite database whose DB-API
boundary is the E3 recorder.  For every boundary event k of a shape (both "before the call" and "after the
call returned") an sqlite3 error is injected; two-fault plans put a second error on the j-th event after the
first (faults during the rollback/close that follows a first fault).  After every faulted session the monitor
looks at STATE, never at time:

  * provider.transaction_lock / pre_transaction_lock not held
  * pony.orm.core.local: db2cache empty, db_session None, db_context_counter 0
  * the thread's pool connection is None or open, idle (not in a transaction) and answers a statement
  * recorder log: each connection closed at most once, nothing issued on a connection after its close
    returned, every connection opened is either the pooled one or closed (unless the close itself was the
    injected failure)
  * a plain sqlite3 connection can take the write lock (no SQLite-level lock left behind)
  * a follow-up write session in the same thread and one in a fresh thread succeed and their rows are in
    the file.
Besides one-shot faults, every boundary call k is also used as the point where the connection DIES (that call and
every later call on the same connection object fail, close() works): afterwards the pool must not hold that
connection object, and no later session may be handed it again (identity of connection ids in the log).

Multi-thread part: 2-3 workers run write sessions concurrently under the E4 scheduler at statement
granularity with random faults; a schedule in which every live worker waits for the transaction lock is a
leaked lock (state, not time).  A small free-running part does the same without the scheduler.
"""

META = {
    'level': 'fault_enumeration',
    'engine': 'E3+E4',
    'technique': 'runtime monitor: exhaustive single/double fault injection at the DB-API boundary per session shape; '
                 'lock/pool/thread-local state assertions + offline close-once/use-after-close log checker + follow-up sessions',
    'level_text': 'Every DB-API boundary event (connect, cursor, execute, executemany, commit, rollback, close, PRAGMAs) of '
                  'each listed session shape is failed once before and once after the real call, plus every second fault on '
                  'the cleanup path of a first fault; the real pony code runs each plan and the post-session state is asserted. '
                  'Thread schedules of 2-3 sessions are sampled (seeded scheduler at statement granularity), not enumerated.',
    'level_note': 'Trusted: sqlite3 module, the recorder subclass passed through factory=, threading.Lock.locked(). '
                  'Faults exist only at the DB-API boundary; shapes are a fixed finite list; PostgreSQL/MySQL/Oracle pools '
                  'are not exercised here (no servers).',
    'rule': 'case = (session shape, pool cold|warm, first fault (k, before|after), optional second fault (j, before|after) '
            'counted from the first) or (shape, pool state, connection dies at call k and stays dead); k and j run over every '
            'boundary event observed in a clean run of the shape; a case is '
            'non-trivial only if its first fault actually fired; multi-thread cases = (worker programs, schedule signature, '
            'fault sequence)',
    'assumptions': [
        'only SQLite is executed; the generic Pool/PGPool/MySQL pools share Pool.release/drop but are not run here',
        'liveness is restated as state: lock not held, pool connection idle, follow-up sessions complete; a watchdog '
        'firing without the lock being observed held is inconclusive',
        'a pooled connection left half-configured by a failed connect (PRAGMA not applied) is counted as an observation, '
        'not as a violation: later sessions neither block nor fail on it',
    ],
    'shims': [],
    'exhaustive_tiers': [],
}

SHARDS = {'quick': 4, 'thorough': 16}
SHARD_TIMEOUT = {'quick': 110, 'thorough': 900}

import os, sys, gc, json, time, sqlite3, threading

WATCHDOG = 8.0          # seconds without any recorded boundary event before a thread counts as blocked
MAX_HANGS = 3           # per shard: after that many blocked sessions the enumeration stops (verdict is decided)


# ----------------------------------------------------------------------------------------------------------
# environment: two databases (one session may span both), one recorder
# ----------------------------------------------------------------------------------------------------------

class Env(object):
    pass


def make_env(dirname, tag, timeout=None):
    from pony.orm import Database, Required, Optional, Set, db_session
    from vlib.faults import HookRecorder
    env = Env()
    env.rec = rec = HookRecorder()
    env.file1 = os.path.join(dirname, 'c19-%s-a.sqlite' % tag)
    env.file2 = os.path.join(dirname, 'c19-%s-b.sqlite' % tag)
    for f in (env.file1, env.file2):
        for suffix in ('', '-journal'):
            if os.path.exists(f + suffix): os.remove(f + suffix)
    kw = {}
    if timeout is not None: kw['timeout'] = timeout

    db = Database()
    class Person(db.Entity):
        name = Required(str)
        age = Required(int, default=0)
        tags = Set('Tag')
    class Tag(db.Entity):
        label = Required(str, unique=True)
        people = Set(Person)
    db.bind('sqlite', env.file1, create_db=True, factory=rec.factory(), **kw)
    db.generate_mapping(create_tables=True)

    db2 = Database()
    class Note(db2.Entity):
        text = Required(str)
    db2.bind('sqlite', env.file2, create_db=True, factory=rec.factory(), **kw)
    db2.generate_mapping(create_tables=True)

    with db_session:
        t1, t2 = Tag(label='t1'), Tag(label='t2')
        Person(name='p1', age=10, tags=[t1, t2]); Person(name='p2', age=20, tags=[t1]); Person(name='p3', age=30)
        Note(text='n1')
    db.disconnect(); db2.disconnect()
    env.db, env.db2, env.Person, env.Tag, env.Note = db, db2, Person, Tag, Note
    env.dbs = [('db', db, env.file1), ('db2', db2, env.file2)]
    env.snap = {f: snapshot(f) for _, _, f in env.dbs}
    env.uid = 0
    env.tainted = False
    return env


def snapshot(filename):
    con = sqlite3.connect(filename)
    try:
        names = [r[0] for r in con.execute("select name from sqlite_master where type='table' order by name")]
        return {n: con.execute('select * from "%s"' % n).fetchall() for n in names}
    finally:
        con.close()


def reset_data(env):
    """Restore both files to the initial rows through a plain sqlite3 connection.  -> None or error text."""
    for _, _, f in env.dbs:
        snap = env.snap[f]
        con = sqlite3.connect(f, timeout=0.25, isolation_level=None)
        try:
            con.execute('BEGIN IMMEDIATE')
            names = [r[0] for r in con.execute("select name from sqlite_master where type='table'")]
            for n in names:
                if n not in snap: con.execute('DROP TABLE "%s"' % n)
            for n, rows in snap.items():
                con.execute('DELETE FROM "%s"' % n)
                if rows:
                    con.executemany('INSERT INTO "%s" VALUES (%s)' % (n, ','.join('?' * len(rows[0]))), rows)
            con.execute('COMMIT')
        except sqlite3.OperationalError as e:
            return '%s: %s' % (os.path.basename(f), e)
        finally:
            con.close()
    return None


def uid(env):
    env.uid += 1
    return env.uid


# ----------------------------------------------------------------------------------------------------------
# session shapes.  Each takes env and runs one "session" (possibly several db_session blocks) to its end.
# ----------------------------------------------------------------------------------------------------------

def _write_body(env, u):
    P, T = env.Person, env.Tag
    p = P[1]; p.age += 1
    q = P(name='q%d' % u, age=5)
    a, b = T(label='a%d' % u), T(label='b%d' % u)
    q.tags.add([a, b, T[1]])
    P[2].delete()


def sh_read_only(env):
    from pony.orm import db_session, select, count
    P, T = env.Person, env.Tag
    with db_session:
        ps = select(p for p in P).order_by(P.id)[:]
        len(ps[0].tags)
        count(t for t in T)
        P.get(name='p3')


def sh_optimistic_write(env):
    from pony.orm import db_session
    u = uid(env)
    with db_session:
        _write_body(env, u)


def sh_immediate(env):
    from pony.orm import db_session
    u = uid(env)
    with db_session(immediate=True):
        _write_body(env, u)


def sh_serializable(env):
    from pony.orm import db_session
    u = uid(env)
    with db_session(serializable=True):
        _write_body(env, u)


def sh_pessimistic(env):
    from pony.orm import db_session, select
    P = env.Person
    with db_session(optimistic=False):
        ps = select(p for p in P).for_update()[:]
        for p in ps: p.age += 1


def sh_strict(env):
    from pony.orm import db_session
    u = uid(env)
    with db_session(strict=True):
        _write_body(env, u)


def sh_ddl(env):
    from pony.orm import db_session
    db = env.db
    with db_session(ddl=True):
        db.execute('CREATE TABLE IF NOT EXISTS extra_t (x INTEGER)')
        db.execute('INSERT INTO extra_t VALUES (1)')
    db.drop_table('extra_t', if_exists=True, with_all_data=True)
    db.create_tables()


def sh_raw(env):
    from pony.orm import db_session
    db = env.db
    u = uid(env)
    with db_session:
        db.execute('UPDATE Person SET age = age + 1 WHERE id = 1')
        label = 'raw%d' % u
        db.insert('Tag', label=label)
        db.select('id, name FROM Person')
        x = 1
        db.get('age FROM Person WHERE id = $x')
        db.exists('select 1 from Tag where label = $label')


def sh_get_connection(env):
    from pony.orm import db_session
    db = env.db
    with db_session:
        con = db.get_connection()
        con.execute('UPDATE Person SET age = age + 2 WHERE id = 1')
        env.Person[3].age += 1


def sh_nested(env):
    from pony.orm import db_session, flush
    P, T = env.Person, env.Tag
    u = uid(env)
    @db_session
    def inner():
        P[1].age += 1
        flush()
    with db_session:
        P(name='n%d' % u, age=1)
        with db_session:
            T(label='nt%d' % u)
        inner()
        with db_session(immediate=True):
            P[3].age += 1


def sh_decorator(env):
    from pony.orm import db_session
    u = uid(env)
    @db_session
    def f():
        _write_body(env, u)
        return 1
    f()


def sh_retry(env):
    from pony.orm import db_session, flush
    P = env.Person
    u = uid(env)
    n = [0]
    @db_session(retry=2, retry_exceptions=(Exception,))
    def f():
        n[0] += 1
        P(name='r%d_%d' % (u, n[0]), age=1)
        P[1].age += 1
        flush()
    f()


def sh_generator(env):
    from pony.orm import db_session, commit, count
    P = env.Person
    u = uid(env)
    @db_session
    def gen():
        p = P[1]
        yield p.age
        p.age += 1
        commit()
        yield 2
        P(name='g%d' % u, age=1)
        commit()
        yield 3
        count(x for x in P)
    for _ in gen(): pass


def sh_generator_abandoned(env):
    from pony.orm import db_session, commit
    P = env.Person
    @db_session
    def gen():
        p = P[1]
        yield p.age
        p.age += 1
        commit()
        yield 2
        p.age += 1
        commit()
        yield 3
    g = gen()
    try:
        next(g); next(g)
    finally:
        g.close()


def sh_generator_interleaved(env):
    """a suspended generator session while an ordinary session runs in the same thread"""
    from pony.orm import db_session, commit
    P = env.Person
    u = uid(env)
    @db_session
    def gen():
        p = P[1]
        yield p.age
        p.age += 1
        commit()
        yield 2
    g = gen()
    try:
        next(g)
        con = env.db.provider.pool.con          # the suspended generator session keeps using this pooled connection
        env.shared_conn = con._vid if con is not None else None
        with db_session:
            P(name='gi%d' % u, age=2)
        next(g)
        for _ in g: pass
    finally:
        g.close()


def sh_commit_more(env):
    from pony.orm import db_session, commit, select
    P = env.Person
    u = uid(env)
    with db_session:
        P(name='c%d' % u, age=1)
        commit()
        P[1].age += 1
        P(name='d%d' % u, age=2)
        select(p for p in P)[:]


def sh_rollback_more(env):
    from pony.orm import db_session, rollback, flush
    P = env.Person
    u = uid(env)
    with db_session:
        P(name='x%d' % u, age=1)
        flush()
        rollback()
        P(name='y%d' % u, age=2)
        P[1].age += 1


def sh_body_raises(env):
    from pony.orm import db_session, flush
    P = env.Person
    u = uid(env)
    with db_session:
        P(name='z%d' % u, age=1)
        P[1].age += 1
        flush()
        raise ZeroDivisionError('body')


def sh_allowed_exception(env):
    from pony.orm import db_session
    P = env.Person
    u = uid(env)
    with db_session(allowed_exceptions=(ValueError,)):
        P(name='v%d' % u, age=1)
        raise ValueError('allowed')


def sh_two_db(env):
    from pony.orm import db_session
    P, N = env.Person, env.Note
    u = uid(env)
    with db_session:
        P(name='w%d' % u, age=1)
        N(text='note%d' % u)
        P[1].age += 1


def sh_two_db_raises(env):
    from pony.orm import db_session, flush
    P, N = env.Person, env.Note
    u = uid(env)
    with db_session:
        P(name='w%d' % u, age=1)
        N(text='note%d' % u)
        flush()
        raise ZeroDivisionError('body')


def sh_disconnect_after(env):
    from pony.orm import db_session
    P = env.Person
    u = uid(env)
    with db_session:
        P(name='k%d' % u, age=1)
    env.db.disconnect()


SHAPES = [
    ('read_only', sh_read_only), ('optimistic_write', sh_optimistic_write), ('immediate', sh_immediate),
    ('serializable', sh_serializable), ('pessimistic_for_update', sh_pessimistic), ('strict', sh_strict),
    ('ddl', sh_ddl), ('raw_execute', sh_raw), ('get_connection', sh_get_connection), ('nested', sh_nested),
    ('decorator', sh_decorator), ('retry', sh_retry), ('generator', sh_generator),
    ('generator_abandoned', sh_generator_abandoned), ('generator_interleaved', sh_generator_interleaved),
    ('commit_more', sh_commit_more), ('rollback_more', sh_rollback_more), ('body_raises', sh_body_raises),
    ('allowed_exception', sh_allowed_exception), ('two_db', sh_two_db), ('two_db_raises', sh_two_db_raises),
    ('disconnect_after', sh_disconnect_after),
]
SHAPE = dict(SHAPES)
# shapes used by concurrent workers (all write; none drops tables or disconnects)
MT_SHAPES = ['optimistic_write', 'immediate', 'serializable', 'raw_execute', 'nested', 'commit_more',
             'rollback_more', 'body_raises', 'generator', 'read_only', 'two_db', 'retry', 'get_connection']

EXC_CLASSES = ['OperationalError', 'IntegrityError', 'DatabaseError', 'InterfaceError', 'ProgrammingError']


def make_exc(name, where):
    """None -> the recorder raises a fresh InjectedFault (an sqlite3.OperationalError); otherwise the sqlite3 exception
    CLASS, instantiated by `raise` at the fault point.  Never a pre-built instance: its traceback would keep the
    faulted cursor (and with it a pending statement / SHARED lock) alive for as long as the fault plan is referenced."""
    if name == 'OperationalError': return None
    return getattr(sqlite3, name)


# ----------------------------------------------------------------------------------------------------------
# state monitor
# ----------------------------------------------------------------------------------------------------------

def thread_state_problems(env):
    """Thread-local part of the monitor; must run in the thread that ran the session."""
    from pony.orm import core
    loc = core.local
    probs = []
    if loc.db2cache: probs.append({'problem': 'db2cache_not_empty', 'n': len(loc.db2cache),
                                   'dbs': [n for n, d, _ in env.dbs if d in loc.db2cache]})
    if loc.db_session is not None: probs.append({'problem': 'local.db_session_not_None'})
    if loc.db_context_counter != 0: probs.append({'problem': 'db_context_counter', 'value': loc.db_context_counter})
    return probs


def lock_problems(env):
    probs = []
    for name, db, _ in env.dbs:
        prov = db.provider
        if prov.transaction_lock.locked(): probs.append({'problem': 'transaction_lock_held', 'db': name})
        if prov.pre_transaction_lock.locked(): probs.append({'problem': 'pre_transaction_lock_held', 'db': name})
    return probs


def pool_problems(env, closed, observations):
    """The calling thread's pooled connections: None, or open + idle + answering."""
    probs = []
    rec = env.rec
    rec.tag('monitor')
    try:
        for name, db, _ in env.dbs:
            con = db.provider.pool.con
            if con is None: continue
            if con._vid in closed:
                probs.append({'problem': 'pool_holds_closed_connection', 'db': name, 'conn': con._vid}); continue
            try:
                if con.in_transaction:
                    probs.append({'problem': 'pooled_connection_in_transaction', 'db': name, 'conn': con._vid})
                    continue
                r = con.execute('select 1').fetchall()
                if r != [(1,)]: probs.append({'problem': 'pooled_connection_wrong_answer', 'db': name, 'got': repr(r)})
                fk = con.execute('PRAGMA foreign_keys').fetchall()
                if fk != [(1,)]: observations['pooled_connection_half_configured'] = \
                    observations.get('pooled_connection_half_configured', 0) + 1
            except Exception as e:
                probs.append({'problem': 'pooled_connection_unusable', 'db': name, 'conn': con._vid, 'error': repr(e)})
    finally:
        rec.tag(None)
    return probs


def pooled_ids(env):
    out = set()
    for name, db, _ in env.dbs:
        con = db.provider.pool.con
        if con is not None: out.add(con._vid)
    return out


def log_problems(events, pooled, extra_pooled=()):
    from vlib.faults import conn_discipline
    probs, st = conn_discipline(events)
    opened = set()
    for e in events:
        if e['kind'] == 'connect' and e['phase'] == 'ret' and not e.get('injected'): opened.add(e['conn'])
    for c in sorted(opened):
        if c in st['closed'] or c in pooled or c in extra_pooled or c in st['close_fault']: continue
        probs.append({'problem': 'connection_neither_pooled_nor_closed', 'conn': c})
    return probs, st


def followup_session(env, label):
    """One ordinary write session; returns the marker name."""
    from pony.orm import db_session
    name = 'fu-%s-%d' % (label, uid(env))
    env.rec.tag('followup')
    try:
        with db_session(optimistic=True):       # a NEW db_session object, as any other function of the program would use
            env.Person(name=name, age=7)
            env.Person[1].age += 1
            env.Note(text=name)
    finally:
        env.rec.tag(None)
    return name


def marker_present(env, name):
    con = sqlite3.connect(env.file1, timeout=1.0)
    try: a = con.execute('select count(*) from Person where name = ?', (name,)).fetchone()[0]
    finally: con.close()
    con = sqlite3.connect(env.file2, timeout=1.0)
    try: b = con.execute('select count(*) from Note where text = ?', (name,)).fetchone()[0]
    finally: con.close()
    return a == 1 and b == 1


def post_session_checks(env, events_before_monitor, observations, stage):
    """Full monitor after a (faulted) session, in the session's thread.  -> (problems, skip_followup)"""
    gc.collect()
    probs = []
    lp = lock_problems(env)
    probs += lp
    probs += thread_state_problems(env)
    logp, st = log_problems(events_before_monitor, pooled_ids(env))
    probs += logp
    probs += pool_problems(env, st['closed'], observations)
    for _, _, f in env.dbs:
        from vlib.faults import raw_write_probe
        err = raw_write_probe(f)
        if err is not None: probs.append({'problem': 'sqlite_write_lock_left', 'file': os.path.basename(f), 'error': err})
    for p in probs: p['stage'] = stage
    return probs, bool(lp)


def run_followups(env, observations):
    """Follow-up write sessions: same thread, then a fresh thread.  -> problems"""
    from vlib.faults import run_in_thread
    probs = []
    try:
        name = followup_session(env, 'same')
        if not marker_present(env, name): probs.append({'problem': 'followup_same_thread_not_committed'})
    except BaseException as e:
        probs.append({'problem': 'followup_same_thread_failed', 'error': repr(e)[:300]})
    box = {}
    def other():
        box['name'] = followup_session(env, 'other')
        box['thread_state'] = thread_state_problems(env)
    st, val = run_in_thread(other, WATCHDOG, progress=lambda: len(env.rec.events))
    if st == 'hang':
        lp = lock_problems(env)
        if lp and not val['progressing']: probs.append({'problem': 'followup_other_thread_blocked_lock_held', 'locks': lp})
        else: observations['watchdog_without_lock'] = observations.get('watchdog_without_lock', 0) + 1
    elif st == 'exc':
        probs.append({'problem': 'followup_other_thread_failed', 'error': repr(val)[:300]})
    else:
        if not marker_present(env, box['name']): probs.append({'problem': 'followup_other_thread_not_committed'})
        probs += box['thread_state']
    return probs


# ----------------------------------------------------------------------------------------------------------
# one single-thread case (runs inside the Runner thread)
# ----------------------------------------------------------------------------------------------------------

def prime(env, cold):
    from pony.orm import db_session
    rec = env.rec
    rec.tag('monitor')
    try:
        env.db.disconnect(); env.db2.disconnect()
        if not cold:
            with db_session:
                env.Person[1]; env.Note[1]
    finally:
        rec.tag(None)


def build_faults(plan):
    from vlib.faults import SeqFault, AfterFault, DeadConnFault
    faults = []
    f1 = None
    if plan.get('dead'):
        # the connection used by the k-th boundary call dies there and stays dead
        return [DeadConnFault(plan['dead'], phase='call', skip_tags=('monitor', 'followup'))]
    if plan.get('f1'):
        k, ph = plan['f1']
        f1 = SeqFault(k, phase=ph, exc=make_exc(plan.get('exc', 'OperationalError'), 'first fault'))
        faults.append(f1)
    if plan.get('f2'):
        j, ph2 = plan['f2']
        faults.append(AfterFault(f1, j, phase=ph2, exc=make_exc(plan.get('exc2', 'OperationalError'), 'second fault')))
    return faults


def run_case(env, shape, cold, plan, followups=True):
    """-> dict(result).  plan: {'f1': (k, phase) | None, 'f2': (j, phase) | None, 'exc': class name}"""
    rec = env.rec
    observations = {}
    res = {'shape': shape, 'cold': cold, 'plan': plan, 'problems': [], 'observations': observations,
           'fired': [], 'n_fired': 0, 'raised': None, 'n_call': 0, 'n_ret': 0, 'kinds': []}
    err = reset_data(env)
    if err is not None:
        res['problems'].append({'problem': 'sqlite_write_lock_left_before_case', 'error': err})
        return res
    rec.clear()
    del rec.faults[:]
    env.shared_conn = None
    prime(env, cold)
    mark = rec.mark()
    faults = build_faults(plan)
    rec.faults.extend(faults)
    rec.tag('case')
    exc = None
    try:
        SHAPE[shape](env)
    except BaseException as e:
        exc = repr(e)[:200]
        del e
    finally:
        rec.tag(None)
        del rec.faults[:]
    dead = faults[0].dead_conn if plan.get('dead') and faults[0].fired else None
    if dead is not None:
        rec.faults.append(faults[0])         # a dead connection stays dead for the monitor and for later sessions
    res['dead_conn'] = dead
    res['calls_on_dead'] = faults[0].calls_on_dead if dead is not None else 0
    if dead is not None:
        # did it die while SQLitePool._connect was still configuring it?  (= before its last PRAGMA returned)
        s0 = faults[0].fired_seq
        res['died_during_connect'] = not any(
            e['conn'] == dead and e['seq'] < s0 and e['kind'] == 'execute' and e['phase'] == 'ret'
            and (e.get('sql') or '').startswith('PRAGMA case_sensitive_like') for e in rec.events)
    res['raised'] = exc
    res['shared_conn'] = env.shared_conn
    res['fired'] = [f.fired_event for f in faults if f.fired]
    res['n_fired'] = sum(1 for f in faults if f.fired)
    events = list(rec.events)
    after = [e for e in events if e['seq'] > mark]
    res['n_call'] = sum(1 for e in after if e['phase'] == 'call')
    res['n_ret'] = sum(1 for e in after if e['phase'] == 'ret')
    res['kinds'] = sorted(set(e['kind'] for e in after))
    if faults and faults[0].fired:
        s0 = faults[0].fired_seq
        res['calls_after_first'] = sum(1 for e in after if e['phase'] == 'call' and e['seq'] > s0)
        res['rets_after_first'] = sum(1 for e in after if e['phase'] == 'ret' and e['seq'] > s0)
        res['first_kind'] = faults[0].fired_event['kind']
        res['first_sql'] = faults[0].fired_event['sql']
    cmap = conn_db_map(env, events)
    res['fault_dbs'] = sorted(set(cmap.get(f.fired_event['conn'], '?') for f in faults if f.fired)
                              | set(cmap.get(e['conn'], '?') for e in after if e['phase'] == 'exc'))
    try:
        probs, lock_held = post_session_checks(env, events, observations, 'after_session')
        if dead is not None and dead in pooled_ids(env):
            probs.append({'problem': 'pool_holds_dead_connection', 'conn': dead, 'stage': 'after_session'})
        res['problems'] += probs
        if followups and not lock_held:
            n0 = len(rec.events)
            fp = run_followups(env, observations)
            for p in fp: p['stage'] = 'followup'
            res['problems'] += fp
            if dead is not None:
                # identity at the boundary: the connection object that died must never be handed to a later session
                again = [e for e in rec.events[n0:] if e['conn'] == dead and e['phase'] == 'call' and e['kind'] != 'close']
                if again:
                    from vlib.faults import brief
                    res['problems'].append({'problem': 'dead_connection_handed_out_again', 'conn': dead, 'n': len(again),
                                            'first': brief(again[0]), 'stage': 'followup'})
            if not fp:
                from vlib.faults import conn_discipline
                p2 = lock_problems(env) + thread_state_problems(env)
                d2, _ = conn_discipline(list(rec.events))
                for p in p2 + d2: p['stage'] = 'after_followup'
                res['problems'] += p2 + d2
    finally:
        del rec.faults[:]
    return res


# ----------------------------------------------------------------------------------------------------------
# multi-thread part
# ----------------------------------------------------------------------------------------------------------

def mt_worker_fn(env, names, results, key):
    def fn(w=None):
        out = {'raised': [], 'thread_state': [], 'thread': threading.get_ident(), 'sessions_run': 0}
        env.rec.tag('case')
        for i, n in enumerate(names):
            raised = None
            since = env.rec.mark()
            try: SHAPE[n](env)
            except Exception as e:
                raised = repr(e)[:120]
                out['raised'].append(raised)
            out['sessions_run'] += 1
            ts = thread_state_problems(env)
            if ts:
                for p in ts: p.update(worker=key, after_session=i, shape=n, session_raised=raised, since_seq=since)
                out['thread_state'] = ts
                break
        env.rec.tag(None)
        out['pooled'] = sorted(pooled_ids(env))
        results[key] = out
        return out
    return fn


def run_mt_case(ctx, env, rng, nworkers, nsess, p_fault, scheduled):
    """2-3 concurrent workers; afterwards the same state monitor + follow-ups.  -> result dict"""
    from vlib.faults import RandomFault
    from vlib import sched
    rec = env.rec
    observations = {}
    res = {'problems': [], 'observations': observations, 'scheduled': scheduled}
    err = reset_data(env)
    if err is not None:
        res['problems'].append({'problem': 'sqlite_write_lock_left_before_case', 'error': err}); return res
    rec.clear(); del rec.faults[:]
    progs = [[rng.choice(MT_SHAPES) for _ in range(nsess)] for _ in range(nworkers)]
    res['programs'] = progs
    fault = RandomFault(rng, p_fault, limit=4, skip_tags=('monitor', 'followup', None))
    rec.faults.append(fault)
    results = {}
    status = 'ok'
    if scheduled:
        sched.HUB.attach_recorder(rec)
        sched.HUB.wrap_sqlite_lock()
        try:
            s = sched.HUB.run([('w%d' % i, mt_worker_fn(env, progs[i], results, i)) for i in range(nworkers)],
                              sched.RandomChooser(rng, stick=0.6), levels=('stmt', 'lock'), watchdog=WATCHDOG)
        finally:
            rec.yield_hook = None
        status = s.status
        res['signature'] = s.signature
        res['switches'] = s.n_switches
        res['lock_waits'] = sum(w.lock_waits for w in s.workers)
        if status == 'deadlock':
            blocked = (s.status_detail or {}).get('blocked', {})
            res['deadlock'] = {k: list(v) if v else v for k, v in blocked.items()}
            if blocked and all(v and v[0] == 'lock' for v in blocked.values()) and lock_problems(env):
                res['problems'].append({'problem': 'all_live_workers_wait_for_transaction_lock',
                                        'blocked': res['deadlock'], 'locks': lock_problems(env)})
        for w in s.workers:
            if w.exc is not None: results.setdefault('exc', []).append(repr(w.exc)[:200])
    else:
        threads = [threading.Thread(target=mt_worker_fn(env, progs[i], results, i), daemon=True) for i in range(nworkers)]
        for t in threads: t.start()
        deadline = time.time() + WATCHDOG
        for t in threads: t.join(max(0.0, deadline - time.time()))
        while any(t.is_alive() for t in threads):
            n0 = len(rec.events)
            time.sleep(2.0)
            if len(rec.events) != n0 and time.time() < deadline + 60: continue      # slow, not blocked
            status = 'watchdog'
            lp = lock_problems(env)
            if lp and len(rec.events) == n0:
                res['problems'].append({'problem': 'workers_blocked_lock_held', 'locks': lp})
            break
    del rec.faults[:]
    res['status'] = status
    res['faults_fired'] = fault.fired
    res['fault_events'] = fault.fired_at
    res['events'] = len(rec.events)
    res['raised'] = sum(len(r.get('raised', ())) for r in results.values() if isinstance(r, dict))
    if status != 'ok':
        return res
    events = list(rec.events)
    cmap = conn_db_map(env, events)
    pooled = set()
    for r in results.values():
        if isinstance(r, dict):
            pooled.update(r.get('pooled', ()))
            for p in r.get('thread_state', ()):
                # databases whose connection FAILED in this worker during the offending session: injected faults and real
                # DB-API errors alike (e.g. SQLITE_BUSY 'database is locked' at the commit of one database)
                since = p.get('since_seq', 0)
                fired = set(fe['seq'] for fe in fault.fired_at)
                fdbs = sorted(set(cmap.get(e['conn'], '?') for e in events
                                  if e['thread'] == r['thread'] and e['seq'] > since
                                  and (e['phase'] == 'exc' or e['seq'] in fired or e.get('injected'))))
                res['problems'].append(dict(p, stage='worker_end', fault_dbs=fdbs))
    gc.collect()
    probs = lock_problems(env)
    logp, st = log_problems(events, pooled | pooled_ids(env))
    probs += logp
    for _, _, f in env.dbs:
        from vlib.faults import raw_write_probe
        e = raw_write_probe(f)
        if e is not None: probs.append({'problem': 'sqlite_write_lock_left', 'file': os.path.basename(f), 'error': e})
    for p in probs: p['stage'] = 'after_workers'
    res['problems'] += probs
    if not lock_problems(env):
        fp = run_followups(env, observations)
        for p in fp: p['stage'] = 'followup'
        res['problems'] += fp
    return res


# ----------------------------------------------------------------------------------------------------------
# driver
# ----------------------------------------------------------------------------------------------------------

FINDING_MULTIDB = 'C19-MULTIDB-EXIT-LEAVES-CACHE'
FINDING_GENSHARE = 'C19-SUSPENDED-GENERATOR-SHARES-POOLED-CONNECTION'
FINDING_CONNECT = 'C19-FAILED-CONNECT-LEAVES-CONNECTION-IN-POOL'
TWO_DB_SHAPES = ('two_db', 'two_db_raises')


def conn_db_map(env, events):
    """connection id -> 'db' | 'db2' from the connect events (their sql field is the file name)."""
    names = {os.path.basename(f): n for n, _, f in env.dbs}
    out = {}
    for e in events:
        if e['kind'] == 'connect' and e['phase'] == 'call' and isinstance(e.get('sql'), str):
            n = names.get(os.path.basename(e['sql']))
            if n: out[e['conn']] = n
    return out


def classify(res):
    """Positive identification of the listed finding, or None.

    Mechanism: a db_session spanning both databases ends with an exception raised on its EXIT path (the commit
    of, or the release after commit of, one database's cache failed); DBSessionContextManager._commit_or_rollback
    then leaves the live SessionCache of the OTHER database in core.local.db2cache.  Identified by: the only state
    problem is a non-empty db2cache after a two-database shape (plus the AssertionError the next session with
    another db_session object gets from that stale cache); the session raised; a DB-API call FAILED (injected fault or a
    real error such as SQLITE_BUSY at one database's commit under concurrency) on a connection of a database other
    than the one whose cache was left."""
    if res.get('dead_conn') is not None and res.get('died_during_connect') and res.get('raised') and res['problems'] and all(
            p['problem'] in ('pool_holds_dead_connection', 'dead_connection_handed_out_again', 'pooled_connection_unusable',
                             'followup_same_thread_failed') for p in res['problems']):
        # Mechanism 3: SQLitePool._connect stores the new connection in pool.con BEFORE it has configured it; when the
        # connection dies during that configuration (the PRAGMA statements) the exception leaves the dead object in the
        # pool, and Pool.connect hands it to every later session of the thread.  Identified by: the connection died before
        # its last configuration PRAGMA returned, and the only problems are "the pool holds / hands out that connection".
        return FINDING_CONNECT
    shared = res.get('shared_conn')
    if shared is not None and res['problems'] and res.get('raised') and all(
            p['problem'] in ('use_after_close', 'second_close') and p['conn'] == shared for p in res['problems']):
        # Mechanism 2: a @db_session generator is suspended holding the thread's pooled connection; an ordinary session
        # in the same thread shares that connection object, fails, and Pool.drop closes it; the resumed generator session
        # then calls cursor()/rollback()/close() on the closed connection.  Identified by: every log problem is a call on
        # exactly the connection the suspended generator was holding.
        return FINDING_GENSHARE
    left = set()
    fault_dbs = set(res.get('fault_dbs') or ())
    for p in res['problems']:
        if p['problem'] == 'db2cache_not_empty' and p.get('stage') in ('after_session', 'worker_end'):
            if p.get('shape', res.get('shape')) not in TWO_DB_SHAPES: return None
            left.update(p['dbs'])
            if 'fault_dbs' in p: fault_dbs.update(p['fault_dbs'])
            if not p.get('session_raised', res.get('raised')): return None
        elif p['problem'] == 'followup_same_thread_failed' and 'AssertionError' in p.get('error', ''):
            continue
        else:
            return None
    if len(left) != 1: return None
    if not (fault_dbs - left): return None
    return FINDING_MULTIDB


def record(ctx, res, kind):
    """Book-keep one executed case; report problems as violations (or as the listed finding)."""
    plan = res.get('plan')
    if res.get('problems'):
        names = sorted(set(p['problem'] for p in res['problems']))
        witness = {'kind': kind, 'shape': res.get('shape'), 'cold': res.get('cold'), 'plan': plan,
                   'programs': res.get('programs'), 'scheduled': res.get('scheduled'),
                   'fired': res.get('fired') or res.get('fault_events'), 'raised': res.get('raised'),
                   'problems': res['problems'][:6]}
        fid = classify(res)
        if fid is not None:
            ctx.count('finding.' + fid)
            ctx.finding(fid, witness)
        else:
            ctx.violation(witness, mechanism='+'.join(names)[:80])
    for k, v in res.get('observations', {}).items(): ctx.count('observed.' + k, v)


def single_thread_part(ctx, env_holder, runner_holder, shapes, two_fault, exc_classes):
    from vlib.faults import Runner
    tier = ctx.tier

    hangs = [0]
    counter = [0]
    def new_env():
        counter[0] += 1
        return make_env(ctx.tmp(), 's%d-e%d' % (ctx.shard, counter[0]), 0.5)

    def call(fn):
        env = env_holder[0]
        st, val = runner_holder[0].call(fn, WATCHDOG, progress=lambda: len(env.rec.events))
        if st == 'hang':
            lp = lock_problems(env) if not val['progressing'] else []
            env_holder[0] = new_env()
            return 'hang', lp
        if st == 'exc':
            raise val
        return 'ok', val

    def fresh_env():
        runner_holder[0].stop()
        runner_holder[0] = Runner()
        env_holder[0] = new_env()

    def do(shape, cold, plan, kind):
        env = env_holder[0]
        st, val = call(lambda: run_case(env, shape, cold, plan))
        if st == 'hang':
            ctx.count('watchdog_fired')
            hangs[0] += 1
            if val:
                ctx.violation({'kind': kind, 'shape': shape, 'cold': cold, 'plan': plan, 'problems': val},
                              mechanism='session_blocked_lock_held')
            else:
                ctx.inconclusive.append('watchdog fired in %s %s without the lock being held' % (shape, plan))
            return None
        res = val
        if (plan.get('f1') or plan.get('dead')) and not res['n_fired']:
            ctx.count('plans_not_reached'); return res
        nontrivial = bool(res['n_fired']) or not (plan.get('f1') or plan.get('dead'))
        if plan.get('dead'):
            ctx.count('dead_connection_plans_hit')
            ctx.count('dead_connection_calls_refused', res.get('calls_on_dead', 0))
            ctx.count('outcome.dead.session_raised' if res['raised'] else 'outcome.dead.session_did_not_notice')
        ctx.case(['st', shape, cold, plan.get('f1'), plan.get('f2'), plan.get('exc'), plan.get('dead')], nontrivial=nontrivial,
                 sample={'shape': shape, 'cold': cold, 'plan': plan, 'fired': res['fired'], 'raised': res['raised']})
        record(ctx, res, kind)
        if plan.get('f1'):
            ctx.count('fault_points_hit')
            ctx.count('fault_kind.' + res['first_kind'])
            if res.get('first_sql') and res['first_sql'].startswith('PRAGMA'): ctx.count('fault_kind.PRAGMA')
            if res.get('first_sql') and res['first_sql'].startswith('BEGIN'): ctx.count('fault_kind.BEGIN')
            ctx.count('outcome.session_raised' if res['raised'] else 'outcome.session_swallowed_fault')
            if plan.get('f2') and res['n_fired'] == 2: ctx.count('two_fault_plans_hit')
        if res['problems']:
            fresh_env()
        else:
            ctx.count('followup_pairs_ok')
        return res

    def enough():
        return hangs[0] >= MAX_HANGS or ctx.counters.get('violations_seen', 0) >= 300

    for shape, cold in shapes:
        if enough(): ctx.count('enumeration_cut_short'); break
        clean = do(shape, cold, {}, 'clean')
        if clean is None: continue
        if clean['problems']:
            continue
        ctx.count('clean_runs')
        ctx.count('boundary_calls_in_clean_runs', clean['n_call'])
        for k in clean['kinds']: ctx.count('clean_kind.' + k)
        # a connection that dies at call k and stays dead (every later call on that connection object fails)
        for k in range(1, clean['n_call'] + 1):
            if enough(): break
            do(shape, cold, {'dead': k}, 'dead_connection')
        for ph, n in (('call', clean['n_call']), ('ret', clean['n_ret'])):
            for k in range(1, n + 1):
                if enough(): break
                excs = ['OperationalError']
                if exc_classes and ph == 'call': excs = exc_classes
                for xi, exc in enumerate(excs):
                    plan = {'f1': (k, ph), 'exc': exc}
                    res = do(shape, cold, plan, 'single_fault')
                    if res is None or not res.get('n_fired') or xi: continue
                    if not two_fault: continue
                    phases2 = ('call', 'ret') if two_fault == 'full' else ('call',)
                    for ph2 in phases2:
                        m = res['calls_after_first'] if ph2 == 'call' else res['rets_after_first']
                        for j in range(1, m + 1):
                            do(shape, cold, {'f1': (k, ph), 'f2': (j, ph2), 'exc': 'OperationalError'}, 'two_faults')


def run(ctx):
    from vlib.faults import Runner
    tier = ctx.tier
    items = [(name, cold) for name, _ in SHAPES for cold in (False, True)]
    mine = [it for i, it in enumerate(items) if i % ctx.nshards == ctx.shard]
    if tier == 'quick':
        two_fault, exc_classes = 'call', None
        mt_sched, mt_free = 14, 2
    else:
        two_fault, exc_classes = 'full', EXC_CLASSES
        mt_sched, mt_free = 400, 24

    runner_holder = [Runner()]
    env_holder = [make_env(ctx.tmp(), 's%d' % ctx.shard, 0.5)]
    single_thread_part(ctx, env_holder, runner_holder, mine, two_fault, exc_classes)
    runner_holder[0].stop()

    # ---- multi-thread part -------------------------------------------------------------------------------
    rng = ctx.rng
    env = make_env(ctx.tmp(), 'mt%d' % ctx.shard, 0.02)
    for i in range(mt_sched + mt_free):
        scheduled = i < mt_sched
        nworkers = rng.choice((2, 2, 3))
        nsess = rng.choice((1, 2, 3))
        p = rng.choice((0.0, 0.02, 0.05, 0.1))
        res = run_mt_case(ctx, env, rng, nworkers, nsess, p, scheduled)
        if res.get('status') in ('watchdog',) and not res['problems']:
            ctx.count('mt_watchdog_without_lock')
            env = make_env(ctx.tmp(), 'mt%d-%d' % (ctx.shard, i), 0.02)
            continue
        if res.get('status') == 'deadlock' and not res['problems']:
            ctx.count('mt_deadlock_not_on_lock')
            env = make_env(ctx.tmp(), 'mt%d-%d' % (ctx.shard, i), 0.02)
            continue
        ctx.case(['mt', res.get('programs'), res.get('signature'), res.get('fault_events')], nontrivial=True,
                 sample={'programs': res.get('programs'), 'scheduled': scheduled, 'faults': res.get('fault_events'),
                         'switches': res.get('switches'), 'lock_waits': res.get('lock_waits')} if i < 2 else None)
        ctx.count('mt_cases')
        ctx.count('mt_scheduled' if scheduled else 'mt_free_running')
        ctx.count('mt_faults_fired', res.get('faults_fired', 0))
        ctx.count('mt_events', res.get('events', 0))
        ctx.count('mt_thread_switches', res.get('switches', 0) or 0)
        ctx.count('mt_lock_waits', res.get('lock_waits', 0) or 0)
        ctx.count('mt_sessions_raised', res.get('raised', 0))
        record(ctx, res, 'multi_thread')
        if res['problems'] and classify(res): ctx.count('mt_cases_classified_as_listed_finding')
        if res['problems']:
            env = make_env(ctx.tmp(), 'mt%d-%d' % (ctx.shard, i), 0.02)
    if ctx.counters.get('mt_watchdog_without_lock', 0) > 2:
        ctx.inconclusive.append('multi-thread watchdog fired %d times' % ctx.counters['mt_watchdog_without_lock'])

    # floors are per shard: every shard owns at least one (shape, pool state) item
    ctx.floor('fault_points_hit', 20 if mine else 0)
    ctx.floor('dead_connection_plans_hit', 10 if mine else 0)
    ctx.floor('followup_pairs_ok', 20 if mine else 0)
    ctx.floor('mt_cases', (mt_sched + mt_free) // 2)


def replay(ctx, witness):
    from vlib.faults import Runner
    if witness.get('kind') == 'multi_thread':
        print('multi-thread witnesses are re-run from the seed: run the tier again with the same VERIF_SEED')
        return
    runner = Runner()
    env = make_env(ctx.tmp(), 'replay', None)
    plan = witness.get('plan') or {}
    plan = {k: (tuple(v) if isinstance(v, list) else v) for k, v in plan.items()}
    st, val = runner.call(lambda: run_case(env, witness['shape'], witness['cold'], plan), WATCHDOG, progress=lambda: len(env.rec.events))
    if st == 'hang':
        ctx.violation({'replayed': witness, 'problems': lock_problems(env)}, mechanism='session_blocked')
    elif st == 'exc':
        raise val
    else:
        print(json.dumps({k: val[k] for k in ('raised', 'fired', 'problems')}, indent=1, default=repr))
        record(ctx, val, 'replay')

"""C31 -- serialised and pickled objects reflect current state and round-trip.

Runtime monitor.  One generated database per round (scalars of every simple type incl. Decimal/date/datetime/bool/
float, nullable and lazy attributes, one-to-one, many-to-one, one-to-many, many-to-many, a composite primary key
(str, int|str), a composite key containing a reference (3 raw columns), a single-attribute key that is a reference
to the composite entity, references to all of them) is filled with objects whose key parts are drawn from a hostile
domain (',', '*', '**', '*,', ',*', digit strings ...).  The oracle is a plain-data model of the objects.

  (1) obj.to_dict(): the complete option matrix  only x exclude x with_collections x with_lazy x related_objects
      (lists, tuples, comma / space strings, unknown names) on objects in the states loaded / pk-only seed /
      modified-unflushed / created-unflushed / partially loaded collection / modified-and-flushed / loaded object that
      references (to-one) and contains (one-to-many, many-to-many) brand-new unflushed objects of AUTO-key entities /
      such a new object itself; expected value computed from the model and the option semantics of
      EntityMeta._get_attrs_ (keys of new objects are resolved after the call: the call must have flushed).
  (2) serialization.Bag / to_dict / to_json: every object put in appears exactly once under its entity and key
      with the configured attributes; related objects according to related_objects; composite keys encoded
      injectively (bounded-exhaustive enumeration of key tuples + a reference decoder inverting the encoding).
  (3) Database.to_json / obj.to_json / QueryResult.to_json under a trivial view-permission for everybody.
      (2) and (3) also run on the 'references / contains unflushed auto-key objects' state, with and without everything
      else preloaded (an incidental query flushes); positions that may then read None are exactly those of the new keys
      (deviation rule of F_BAG_NOFLUSH / F_JSON_NOFLUSH).
  (4) pickling of loaded objects, lists / dicts, SetInstance collections, QueryResult / Query, query results of every
      producer (slice, limit / offset, page, fetch) in every materialisation state (untouched, len(), partially
      iterated, indexed, `in`, repr, fully iterated), partially loaded
      objects and seeds in one session and unpickling in the next: loaded values equal the model, unloaded ones load
      correctly, identity with Entity[pk], collections equal the model; created / modified objects must refuse.

Findings are classified by mechanism (deviation rules re-evaluated by the oracle); see F_*.
"""
import os, sys, json, pickle, copy, itertools
from decimal import Decimal
from datetime import date, datetime

META = {
    'level': 'exploration',
    'engine': 'E2-lite (fixed diagram, generated keys/data/states) + bounded-exhaustive key enumeration',
    'technique': 'runtime monitor: serialisation / pickling outputs compared with a plain-data reference model; '
                 'reference decoder + exhaustive pair enumeration for the composite key encoding',
    'level_text': 'Exploration: one diagram family (variants by seed), generated hostile key values, data and object '
                  'states; within a database the to_dict option matrix is enumerated completely for every object '
                  'and state, and the composite-key encoding is checked on ALL tuples over the hostile domain (arity 2 '
                  'and 3, every str/int signature).  Bags, to_json inputs and pickling scenarios are sampled (seeded).',
    'level_note': 'Trusted: the reference model and its link bookkeeping; obj._vals_ is read (never written) to know '
                  'what is loaded at pickling time; bag.objects is read to know the iteration order for the deviation '
                  'rule of F_BAG_TRUNC.',
    'rule': 'one case = (diagram variant, state, entity, option combination) for to_dict; (bag configuration, set of '
            'objects put) for bags; (data shape, include/exclude) for to_json; (scenario, entity) for pickling; one '
            'case per key tuple for the encoding enumeration.  Non-trivial: the object has at least one relationship or '
            'the options select / exclude something.',
    'assumptions': [
        'SQLite only, single thread.',
        'Option semantics are those of EntityMeta._get_attrs_: `only` (list, tuple or comma/space separated string) '
        'selects exactly the named attributes (collections and lazy ones included), otherwise all non-collection '
        'non-lazy attributes plus collections / lazy ones when asked; `exclude` removes names; unknown names raise '
        'AttributeError.  only=[] raising TypeError (unhashable) or behaving like None are both accepted.',
        'Bag: objects reached only as related objects are serialised without their collections and are not followed '
        'further (documented by the code); a to-one value is reported as the raw key (scalar or list), a collection '
        'as the sorted list of item keys in the same encoding as the result keys.',
        'Database.to_json is exercised only with a rule granting `view` to group anybody on every entity (C34 owns the '
        'permission semantics).',
        'Pickling an object and unpickling it after the row was changed by another session is outside C31.',
        'Decimal values are generated with the declared scale, datetimes without microseconds (C07 owns conversions).',
        'The diagram has no entity inheritance: to_dict() of a pk-only seed of a polymorphic entity inherits the C27 seed '
        'finding (attribute list of the declared class) and is left to C27.',
        'pickle.dumps of a created / modified object is expected to raise OrmError; a silent success is only counted '
        '(bracket.pending_object_pickled_silently).  RecursionError from pickle.dumps is reported as F_PICKLE_CYCLE only '
        'when the loaded values reachable from the pickled objects really contain a cycle of to-one references.',
    ],
    'shims': [],
    'exhaustive_tiers': [],
}
SHARDS = {'quick': 1, 'thorough': 16}
SHARD_TIMEOUT = {'quick': 300, 'thorough': 2400}

F_BAG_TRUNC = 'C31-BAG-PUT-OBJECT-TRUNCATED-WHEN-ALSO-RELATED'
F_BAG_FIRSTCOL = 'C31-BAG-COLLECTION-KEY-FIRST-COLUMN-ONLY'
F_PICKLE_M2M = 'C31-PICKLE-M2M-COLLECTION-UNPICKLES-EMPTY'
F_PICKLE_CYCLE = 'C31-PICKLE-REFERENCE-CYCLE-RECURSION'
F_BAG_NOFLUSH = 'C31-BAG-UNFLUSHED-AUTO-PK-NONE'
F_JSON_NOFLUSH = 'C31-TO-JSON-UNFLUSHED-AUTO-PK-NONE'

HOSTILE = [',', '*', '**', '*,', ',*', 'a', '1', '1,2', '*,*', 'a*', ',a', '12', '*,,', 'a,b']

# ---------------------------------------------------------------------------------------------------------------
# diagram.  SCHEMA[entity] = ordered list of (name, kind, extra); kinds: pk / scalar / lazy / ref / set

def schema(variant):
    tagpk = 'str' if variant['tag_pk'] == 'str' else 'int'
    btype = 'str' if variant['item_b'] == 'str' else 'int'
    S = {
        'Person': [('id', 'pk', 'int'), ('name', 'scalar', 'str'), ('age', 'scalar', 'int'), ('w', 'scalar', 'float'),
                   ('ok', 'scalar', 'bool'), ('money', 'scalar', 'decimal'), ('born', 'scalar', 'date'),
                   ('seen', 'scalar', 'datetime'), ('bio', 'lazy', 'str'), ('nick', 'scalar', 'nstr'),
                   ('passport', 'ref', 'Passport'), ('group', 'ref', 'Group'), ('tags', 'set', 'Tag'),
                   ('items', 'set', 'Item'), ('best', 'ref', 'Item'), ('details', 'set', 'Detail'),
                   ('memo', 'ref', 'Memo'), ('notes', 'set', 'Note'), ('labels', 'set', 'Label')],
        'Passport': [('id', 'pk', 'int'), ('person', 'ref', 'Person'), ('code', 'scalar', 'str')],
        'Group': [('id', 'pk', 'int'), ('title', 'scalar', 'str'), ('note', 'lazy', 'str'), ('members', 'set', 'Person')],
        'Tag': [('id', 'pk', tagpk), ('people', 'set', 'Person')],
        'Item': [('a', 'pk', 'str'), ('b', 'pk', btype), ('q', 'scalar', 'int'), ('owner', 'ref', 'Person'),
                 ('fans', 'set', 'Person'), ('subs', 'set', 'Sub'), ('marks', 'set', 'Mark'), ('detail', 'ref', 'Detail'),
                 ('inotes', 'set', 'Note')],
        'Sub': [('item', 'pkref', 'Item'), ('n', 'pk', 'str'), ('v', 'scalar', 'int')],
        'Mark': [('id', 'pk', 'int'), ('items', 'set', 'Item')],
        'Detail': [('item', 'pkref', 'Item'), ('person', 'ref', 'Person'), ('v', 'scalar', 'int')],
        # entities with an AUTO primary key: objects created inside a session have no key until the first flush
        'Memo': [('id', 'pk', 'int'), ('text', 'scalar', 'str'), ('holders', 'set', 'Person')],
        'Note': [('id', 'pk', 'int'), ('text', 'scalar', 'str'), ('person', 'ref', 'Person'), ('item', 'ref', 'Item')],
        'Label': [('id', 'pk', 'int'), ('text', 'scalar', 'str'), ('people', 'set', 'Person')],
    }
    return S

# (entity, attr) -> (reverse entity, reverse attr)
REV = {('Person', 'passport'): ('Passport', 'person'), ('Person', 'group'): ('Group', 'members'),
       ('Person', 'tags'): ('Tag', 'people'), ('Person', 'items'): ('Item', 'owner'), ('Person', 'best'): ('Item', 'fans'),
       ('Person', 'details'): ('Detail', 'person'), ('Item', 'subs'): ('Sub', 'item'), ('Item', 'marks'): ('Mark', 'items'),
       ('Item', 'detail'): ('Detail', 'item'), ('Person', 'memo'): ('Memo', 'holders'), ('Person', 'notes'): ('Note', 'person'),
       ('Person', 'labels'): ('Label', 'people'), ('Item', 'inotes'): ('Note', 'item')}
for (e, a), (e2, a2) in list(REV.items()): REV[(e2, a2)] = (e, a)

SOURCE = '''
class Person(db.Entity):
    id = PrimaryKey(int)
    name = Required(str)
    age = Optional(int)
    w = Optional(float)
    ok = Optional(bool)
    money = Optional(Decimal, 10, 2)
    born = Optional(date)
    seen = Optional(datetime)
    bio = Optional(str, lazy=True)
    nick = Optional(str, nullable=True)
    passport = Optional('Passport')
    group = Optional('Group')
    tags = Set('Tag')
    items = Set('Item', reverse='owner')
    best = Optional('Item', reverse='fans')
    details = Set('Detail')
    memo = Optional('Memo')
    notes = Set('Note')
    labels = Set('Label')
class Passport(db.Entity):
    id = PrimaryKey(int)
    person = Required(Person)
    code = Optional(str)
class Group(db.Entity):
    id = PrimaryKey(int)
    title = Optional(str)
    note = Optional(str, lazy=True)
    members = Set(Person)
class Tag(db.Entity):
    id = PrimaryKey(%(tagpk)s)
    people = Set(Person)
class Item(db.Entity):
    a = Required(str)
    b = Required(%(btype)s)
    PrimaryKey(a, b)
    q = Optional(int)
    owner = Optional(Person, reverse='items')
    fans = Set(Person, reverse='best')
    subs = Set('Sub')
    marks = Set('Mark')
    detail = Optional('Detail')
    inotes = Set('Note')
class Sub(db.Entity):
    item = Required(Item)
    n = Required(str)
    PrimaryKey(item, n)
    v = Optional(int)
class Mark(db.Entity):
    id = PrimaryKey(int)
    items = Set(Item)
class Detail(db.Entity):
    item = PrimaryKey(Item)
    person = Optional(Person)
    v = Optional(int)
class Memo(db.Entity):
    id = PrimaryKey(int, auto=True)
    text = Optional(str)
    holders = Set(Person)
class Note(db.Entity):
    id = PrimaryKey(int, auto=True)
    text = Optional(str)
    person = Optional(Person)
    item = Optional(Item)
class Label(db.Entity):
    id = PrimaryKey(int, auto=True)
    text = Optional(str)
    people = Set(Person)
'''

ENTS = ['Person', 'Passport', 'Group', 'Tag', 'Item', 'Sub', 'Mark', 'Detail', 'Memo', 'Note', 'Label']
AUTO = ('Memo', 'Note', 'Label')


class Env(object):
    def __init__(self, ctx, variant, tag):
        from pony import orm
        self.variant = variant
        self.S = schema(variant)
        self.file = os.path.join(ctx.tmp(), 'c31-%s.sqlite' % tag)
        if os.path.exists(self.file): os.remove(self.file)
        self.db = db = orm.Database()
        ns = {'db': db, 'PrimaryKey': orm.PrimaryKey, 'Required': orm.Required, 'Optional': orm.Optional, 'Set': orm.Set,
              'Decimal': Decimal, 'date': date, 'datetime': datetime}
        exec(SOURCE % {'tagpk': 'str' if variant['tag_pk'] == 'str' else 'int',
                       'btype': 'str' if variant['item_b'] == 'str' else 'int'}, ns)
        self.E = {n: ns[n] for n in ENTS}
        mod = sys.modules[__name__]
        for n, cls in self.E.items():
            cls.__module__, cls.__qualname__ = __name__, n
            setattr(mod, n, cls)
        db.bind('sqlite', self.file, create_db=True)
        db.generate_mapping(create_tables=True)
        with db.set_perms_for(*self.E.values()):
            orm.perm('view', group='anybody')

# ---------------------------------------------------------------------------------------------------------------
# model: objs[(entity, rawpk tuple)] = {'vals': {scalar/lazy/pk name: value}, 'refs': {name: key|None}, 'sets': {name: set(keys)}}

class Model(object):
    def __init__(self, S):
        self.S = S
        self.objs = {}
    def add(self, ent, raw, vals):
        d = {'vals': {}, 'refs': {}, 'sets': {}}
        for name, kind, extra in self.S[ent]:
            if kind in ('pk', 'scalar', 'lazy'): d['vals'][name] = vals.get(name, default_of(extra) if kind != 'pk' else None)
            elif kind in ('ref', 'pkref'): d['refs'][name] = None
            else: d['sets'][name] = set()
        self.objs[(ent, raw)] = d
        return (ent, raw)
    def kind(self, ent, attr):
        for name, kind, extra in self.S[ent]:
            if name == attr: return kind, extra
        raise KeyError(attr)
    def link(self, key, attr, target):
        """to-one assignment (target may be None) with reverse maintenance."""
        ent = key[0]
        old = self.objs[key]['refs'][attr]
        rent, rattr = REV[(ent, attr)]
        rkind = self.kind(rent, rattr)[0]
        if old is not None:
            if rkind == 'set': self.objs[old]['sets'][rattr].discard(key)
            else: self.objs[old]['refs'][rattr] = None
        self.objs[key]['refs'][attr] = target
        if target is not None:
            if rkind == 'set': self.objs[target]['sets'][rattr].add(key)
            else:
                prev = self.objs[target]['refs'][rattr]
                if prev is not None and prev != key: self.objs[prev]['refs'][attr] = None
                self.objs[target]['refs'][rattr] = key
    def coll_add(self, key, attr, item):
        ent = key[0]
        rent, rattr = REV[(ent, attr)]
        if self.kind(rent, rattr)[0] == 'set':
            self.objs[key]['sets'][attr].add(item); self.objs[item]['sets'][rattr].add(key)
        else: self.link(item, rattr, key)
    def coll_remove(self, key, attr, item):
        ent = key[0]
        rent, rattr = REV[(ent, attr)]
        if self.kind(rent, rattr)[0] == 'set':
            self.objs[key]['sets'][attr].discard(item); self.objs[item]['sets'][rattr].discard(key)
        else: self.link(item, rattr, None)
    def of(self, ent):
        return sorted(k for k in self.objs if k[0] == ent)


def default_of(t):
    return '' if t == 'str' else None          # 'nstr' (nullable str) and every other type default to None


def rawval(raw):
    return raw[0] if len(raw) == 1 else tuple(raw)


def pony_obj(env, key):
    """Entity[pk] through the public API."""
    ent, raw = key
    E = env.E[ent]
    if ent == 'Sub': return E[env.E['Item'][raw[0], raw[1]], raw[2]]
    if ent == 'Detail': return E[env.E['Item'][raw[0], raw[1]]]
    return E[raw] if len(raw) > 1 else E[raw[0]]


def key_of(obj):
    return (type(obj).__name__, tuple(obj._get_raw_pkval_()))


def populate(env, M, rng):
    from pony.orm import db_session, flush
    v = env.variant
    hs = list(HOSTILE); rng.shuffle(hs)
    bdom = hs if v['item_b'] == 'str' else [0, 1, -1, 12, 7]
    item_keys = set()
    while len(item_keys) < 6:
        item_keys.add((rng.choice(hs[:5]), rng.choice(bdom[:4])))          # few values -> shared parts, near-collisions
    item_keys = sorted(item_keys, key=repr)
    tag_ids = hs[:3] if v['tag_pk'] == 'str' else [1, 2, 3]
    with db_session:
        live = {}
        def mk(ent, raw, **vals):
            k = M.add(ent, raw, vals); return k
        groups = [mk('Group', (i,), id=i, title='g%d' % i, note='note%d' % i) for i in (1, 2)]
        tags = [mk('Tag', (t,), id=t) for t in tag_ids]
        marks = [mk('Mark', (i,), id=i) for i in (1, 2)]
        persons = []
        for i in range(1, 5):
            vals = {'id': i, 'name': 'p%d' % i}
            if rng.random() < 0.7: vals['age'] = rng.choice([0, 3, 40])
            if rng.random() < 0.6: vals['w'] = rng.choice([0.0, 1.5, -2.25])
            if rng.random() < 0.6: vals['ok'] = rng.choice([True, False])
            if rng.random() < 0.6: vals['money'] = rng.choice([Decimal('0.00'), Decimal('1.50'), Decimal('-12.34')])
            if rng.random() < 0.6: vals['born'] = rng.choice([date(2000, 1, 2), date(1999, 12, 31)])
            if rng.random() < 0.6: vals['seen'] = rng.choice([datetime(2000, 1, 2, 3, 4, 5), datetime(2020, 2, 29, 0, 0, 0)])
            if rng.random() < 0.7: vals['bio'] = 'bio%d' % i
            if rng.random() < 0.5: vals['nick'] = 'n%d' % i
            persons.append(mk('Person', (i,), **vals))
        items = [mk('Item', ik, a=ik[0], b=ik[1], q=rng.choice([None, 1, 2])) for ik in item_keys]
        subs = []
        for j in range(5):
            it = rng.choice(items[:3]); n = rng.choice(hs[:4])
            raw = it[1] + (n,)
            if ('Sub', raw) in M.objs: continue
            subs.append(mk('Sub', raw, n=n, v=rng.choice([None, 5])))
        details = [mk('Detail', it[1], v=rng.choice([None, 9])) for it in rng.sample(items, 3)]
        passports = [mk('Passport', (i,), id=i, code='c%d' % i) for i in (1, 2)]
        memos = [mk('Memo', (i,), id=i, text='memo%d' % i) for i in (1, 2)]
        notes = [mk('Note', (i,), id=i, text='note%d' % i) for i in (1, 2, 3)]
        labels = [mk('Label', (i,), id=i, text='label%d' % i) for i in (1, 2)]
        # links in the model
        for s in subs: M.link(s, 'item', ('Item', s[1][:2]))
        for d in details: M.link(d, 'item', ('Item', d[1]))
        for i, pp in enumerate(passports): M.link(pp, 'person', persons[i])
        for p in persons:
            if rng.random() < 0.75: M.link(p, 'group', rng.choice(groups))
            for t in tags:
                if rng.random() < 0.5: M.coll_add(p, 'tags', t)
            if rng.random() < 0.6: M.link(p, 'best', rng.choice(items))
        for it in items:
            if rng.random() < 0.6: M.link(it, 'owner', rng.choice(persons))
            for mk_ in marks:
                if rng.random() < 0.5: M.coll_add(it, 'marks', mk_)
        for d in details:
            if rng.random() < 0.7: M.link(d, 'person', rng.choice(persons))
        for p in persons:
            if rng.random() < 0.5: M.link(p, 'memo', rng.choice(memos))
            for lb in labels:
                if rng.random() < 0.4: M.coll_add(p, 'labels', lb)
        for nt in notes:
            if rng.random() < 0.7: M.link(nt, 'person', rng.choice(persons))
            if rng.random() < 0.5: M.link(nt, 'item', rng.choice(items))
        # create in pony from the model (principals first)
        order = ['Group', 'Tag', 'Mark', 'Memo', 'Label', 'Person', 'Passport', 'Item', 'Sub', 'Detail', 'Note']
        for ent in order:
            for key in M.of(ent):
                create_from_model(env, M, key, live)
            flush()
        # second pass for links whose target did not exist yet (Person.best -> Item)
        for key in M.of('Person'):
            b = M.objs[key]['refs']['best']
            if b is not None: live[key].best = live[b]
    return M


def create_from_model(env, M, key, live, skip=('best',)):
    ent = key[0]
    o = M.objs[key]
    kw = {}
    for name, kind, extra in env.S[ent]:
        if kind in ('pk', 'scalar', 'lazy'):
            val = o['vals'][name]
            if val is not None and val != '': kw[name] = val
        elif kind in ('ref', 'pkref'):
            t = o['refs'][name]
            if t is not None and name not in skip and t in live: kw[name] = live[t]
        else:
            its = [live[t] for t in o['sets'][name] if t in live]
            if its: kw[name] = its
    obj = env.E[ent](**kw)
    live[key] = obj
    return obj

# ---------------------------------------------------------------------------------------------------------------
# (1) Entity.to_dict

def attr_names(S, ent, only, exclude, wc, wl):
    """Reference for EntityMeta._get_attrs_: list of names or ('raise', AttributeError)."""
    names_all = [n for n, k, x in S[ent]]
    def split(x):
        return x.replace(',', ' ').split() if isinstance(x, str) else list(x)
    if only:
        names = split(only)
        for n in names:
            if n not in names_all: return ('raise', 'AttributeError')
    else:
        names = []
        for n, k, x in S[ent]:
            if k == 'set':
                if wc: names.append(n)
            elif k == 'lazy':
                if wl: names.append(n)
            else: names.append(n)
    if exclude:
        ex = split(exclude)
        for n in ex:
            if n not in names_all: return ('raise', 'AttributeError')
        names = [n for n in names if n not in ex]
    return names


def expected_value(M, key, name, related):
    ent = key[0]
    kind, extra = M.kind(ent, name)
    o = M.objs[key]
    if kind in ('pk', 'scalar', 'lazy'): return o['vals'][name]
    if kind in ('ref', 'pkref'):
        t = o['refs'][name]
        if t is None: return None
        return ('E',) + t if related else rawval(t[1])
    items = sorted(o['sets'][name], key=lambda k: k[1])
    return [('E',) + t for t in items] if related else [rawval(t[1]) for t in items]


def norm_result(v):
    from pony.orm.core import Entity
    if isinstance(v, Entity): return ('E',) + key_of(v)
    if isinstance(v, list): return [norm_result(i) for i in v]
    return v


class AutoId(int):
    """Key of an object that was created WITHOUT a key inside the session under test (auto primary key): the value is
    only known after the first flush; serialisers that read it before a flush see None."""


class AutoKey(str):
    """str(AutoId) used as a JSON object key."""


def same(a, b):
    """Equality that distinguishes bool from int and Decimal from float/int, keeps tuple vs list apart only for keys."""
    if isinstance(a, AutoId): a = int(a)
    if isinstance(b, AutoId): b = int(b)
    if type(a) != type(b):
        if isinstance(a, (list, tuple)) and isinstance(b, (list, tuple)): pass
        else: return False
    if isinstance(a, (list, tuple)): return len(a) == len(b) and all(same(x, y) for x, y in zip(a, b))
    if isinstance(a, dict): return set(a) == set(b) and all(same(a[k], b[k]) for k in a)
    return a == b


def lenient_same(g, w):
    """Deviation rule of F_*_NOFLUSH: like same(), but every position of the reference that holds the key of an object
    created without a key in this session (AutoId / AutoKey) may read None / 'null' (it was read before any flush)."""
    if isinstance(w, AutoId): return g is None or (type(g) is int and g == int(w))
    if isinstance(w, dict):
        if not isinstance(g, dict): return False
        used = set()
        for wk, wv in w.items():
            cands = [wk]
            if isinstance(wk, (AutoId, AutoKey)): cands += [None, 'null']
            for c in cands:
                if c in g and lenient_same(g[c], wv): used.add(c); break
            else: return False
        return len(used) == len(g)
    if isinstance(w, (list, tuple)):
        if not isinstance(g, (list, tuple)) or len(g) != len(w): return False
        if all(lenient_same(a, b) for a, b in zip(g, w)): return True
        rest = list(g)                       # a None sorts elsewhere than the key it stands for
        for b in w:
            for i, a in enumerate(rest):
                if lenient_same(a, b): del rest[i]; break
            else: return False
        return True
    return same(g, w)


def has_auto(x):
    if isinstance(x, (AutoId, AutoKey)): return True
    if isinstance(x, dict): return any(has_auto(k) or has_auto(v) for k, v in x.items())
    if isinstance(x, (list, tuple)): return any(has_auto(i) for i in x)
    return False


def rekey(M, old, new):
    """Give a model object its real key (everywhere it is mentioned)."""
    o = M.objs.pop(old)
    M.objs[new] = o
    if 'id' in o['vals']: o['vals']['id'] = new[1][0]
    for k, d in M.objs.items():
        for a, t in d['refs'].items():
            if t == old: d['refs'][a] = new
        for a, ts in d['sets'].items():
            if old in ts: ts.discard(old); ts.add(new)


def preload(env, obj, key):
    """Load everything a serialiser may read from obj and from its directly related objects, so that the call under test
    has no reason to run a query (a query would flush pending changes as a side effect)."""
    for name, kind, extra in env.S[key[0]]:
        v = getattr(obj, name)
        if kind in ('ref', 'pkref') and v is not None: v.load()
        elif kind == 'set':
            for i in list(v): i.load()


def add_unflushed(env, M2, obj, key, rng, want_all=False):
    """State 'loaded object referencing / containing created-unflushed objects with auto keys': obj (Person or Item,
    loaded) gets a to-one reference to, and collections containing, brand-new objects of auto-key entities.  Nothing is
    flushed here.  Returns (new, resolve): new = [[placeholder model key, pony object]...]; resolve() flushes if the
    call under test did not, replaces the placeholders in M2 by the real keys (AutoId) and says whether it had to flush."""
    from pony.orm import flush
    ent = key[0]
    new = []
    def mk(ent2, **kw):
        ph = (ent2, ('?%d' % len(new),))
        M2.add(ent2, ph[1], {'id': None, 'text': kw.get('text', '')})
        o = env.E[ent2](**kw)
        new.append([ph, o])
        return ph, o
    if ent == 'Person':
        if want_all or rng.random() < 0.8:
            ph, m = mk('Memo', text='newmemo'); obj.memo = m; M2.link(key, 'memo', ph)
        if want_all or rng.random() < 0.6:
            ph, n = mk('Note', text='newnote', person=obj); M2.link(ph, 'person', key)
        if want_all or rng.random() < 0.5:
            ph, n = mk('Note', text='newnote2'); obj.notes.add(n); M2.coll_add(key, 'notes', ph)
        if want_all or rng.random() < 0.6:
            ph, lb = mk('Label', text='newlabel'); obj.labels.add(lb); M2.coll_add(key, 'labels', ph)
        if not new:
            ph, m = mk('Memo', text='newmemo'); obj.memo = m; M2.link(key, 'memo', ph)
    elif ent == 'Item':
        ph, n = mk('Note', text='inote', item=obj); M2.link(ph, 'item', key)
        if want_all or rng.random() < 0.5:
            ph, n = mk('Note', text='inote2'); obj.inotes.add(n); M2.coll_add(key, 'inotes', ph)
    def resolve():
        had_to = any(o._pkval_ is None for ph, o in new)
        if had_to: flush()
        for pair in new:
            ph, o = pair
            if ph[1][0].__class__ is str and ph[1][0].startswith('?'):
                real = (ph[0], (AutoId(o._pkval_),))
                rekey(M2, ph, real); pair[0] = real
        return had_to
    return new, resolve


def option_matrix(S, ent, rng):
    names = [n for n, k, x in S[ent]]
    L1 = rng.sample(names, min(len(names), rng.randint(1, 3)))
    L2 = rng.sample(names, min(len(names), rng.randint(2, 4)))
    X1 = rng.sample(names, min(len(names), rng.randint(1, 2)))
    onlys = [None, list(L1), tuple(L1), ', '.join(L1), ' '.join(L2), ' , '.join(L2) + ' ']
    excludes = [None, list(X1), ','.join(X1), tuple(X1)]
    combos = []
    for o in onlys:
        for x in excludes:
            for wc in (False, True):
                for wl in (False, True):
                    for ro in (False, True):
                        combos.append((o, x, wc, wl, ro))
    extra = [(['nope'], None, False, False, False), ('id zzz', None, True, False, False), (None, 'zzz', False, False, False),
             (None, ['name', 'zz top'], False, True, False), ((), None, False, False, False), ('', None, True, True, False),
             ([], None, False, False, False), (None, [], True, False, True), (None, '', False, False, False)]
    return combos, extra


def check_to_dict(ctx, env, M, obj, key, state, combos, tag='', post=None):
    keyref = key if isinstance(key, list) else [key]         # [model key, ...]: the key may be resolved by post()
    for (only, exclude, wc, wl, ro) in combos:
        key = keyref[0]
        exp_names = attr_names(env.S, key[0], only, exclude, wc, wl)
        kw = {}
        if only is not None: kw['only'] = copy.copy(only)
        if exclude is not None: kw['exclude'] = copy.copy(exclude)
        if wc: kw['with_collections'] = True
        if wl: kw['with_lazy'] = True
        if ro: kw['related_objects'] = True
        desc = {'only': only, 'exclude': exclude, 'with_collections': wc, 'with_lazy': wl, 'related_objects': ro}
        nontrivial = bool(only or exclude or wc or wl or ro)
        ctx.case([env.vfp, 'to_dict', state, key[0], repr(only), repr(exclude), wc, wl, ro], nontrivial=nontrivial,
                 sample={'state': state, 'entity': key[0], 'options': desc})
        ctx.count('to_dict.calls'); ctx.count('to_dict.state.' + state)
        try:
            got = obj.to_dict(**kw)
            exc = None
        except Exception as e:
            got, exc = None, e
        if post is not None and post(): ctx.count('to_dict.call_left_new_objects_unflushed')
        key = keyref[0]
        w = lambda **k: dict(dict(quick=env.quick, variant=env.variant, pop=env.pop, check='to_dict', state=state, key=key, options=desc), **k)
        if (isinstance(only, list) and not only) or (isinstance(exclude, list) and not exclude):
            if isinstance(exc, TypeError): ctx.count('bracket.empty_list_option_typeerror'); continue
        if isinstance(exp_names, tuple):
            if exc is not None and type(exc).__name__ == 'AttributeError': ctx.count('to_dict.unknown_name_raised')
            else: ctx.violation(w(got=repr(got), exc=repr(exc), want='AttributeError'), mechanism='to_dict-unknown-name-not-refused')
            continue
        if exc is not None:
            ctx.violation(w(exc=repr(exc)), mechanism='to_dict-raised')
            continue
        want = {n: expected_value(M, key, n, ro) for n in exp_names}
        gotn = {n: norm_result(v) for n, v in got.items()}
        if same(gotn, want): ctx.count('outcome.agree')
        else:
            diff = {n: [repr(gotn.get(n, '<absent>')), repr(want.get(n, '<absent>'))] for n in set(gotn) | set(want)
                    if n not in gotn or n not in want or not same(gotn[n], want[n])}
            ctx.violation(w(diff=diff), mechanism='to_dict-value')


NEWVAL = {'int': 77, 'float': 6.25, 'bool': True, 'decimal': Decimal('9.75'), 'date': date(2011, 11, 11),
          'datetime': datetime(2011, 11, 11, 11, 11, 11), 'str': 'changed', 'nstr': 'nn'}


def apply_mods(env, M2, obj, key, rng):
    """Unflushed modifications on obj (pony) and M2 (model copy)."""
    ent = key[0]
    o = M2.objs[key]
    changed = []
    for name, kind, extra in env.S[ent]:
        if kind in ('scalar', 'lazy'):
            if rng.random() < 0.6:
                nv = NEWVAL[extra]
                if o['vals'][name] == nv: nv = {'int': 78, 'float': 7.5, 'bool': False, 'decimal': Decimal('8.25'),
                                                'date': date(2012, 12, 12), 'datetime': datetime(2012, 12, 12, 12, 12, 12),
                                                'str': 'changed2', 'nstr': 'nn2'}[extra]
                setattr(obj, name, nv); o['vals'][name] = nv; changed.append(name)
        elif kind == 'ref' and (ent, name) in (('Person', 'group'), ('Person', 'best'), ('Item', 'owner'), ('Detail', 'person')):
            if rng.random() < 0.6:
                cands = [k for k in M2.of(extra) if k != o['refs'][name]] + [None]
                t = rng.choice(cands)
                if t is None and o['refs'][name] is None: continue
                setattr(obj, name, pony_obj(env, t) if t is not None else None)
                M2.link(key, name, t); changed.append(name)
        elif kind == 'set' and (ent, name) in (('Person', 'tags'), ('Item', 'marks'), ('Group', 'members'), ('Person', 'items'),
                                               ('Tag', 'people'), ('Mark', 'items'), ('Item', 'fans')):
            if rng.random() < 0.7:
                cur = sorted(o['sets'][name]); others = [k for k in M2.of(extra) if k not in o['sets'][name]]
                if cur and rng.random() < 0.5:
                    t = rng.choice(cur); getattr(obj, name).remove(pony_obj(env, t)); M2.coll_remove(key, name, t)
                    changed.append('-' + name)
                if others:
                    t = rng.choice(others); getattr(obj, name).add(pony_obj(env, t)); M2.coll_add(key, name, t)
                    changed.append('+' + name)
    return changed


def new_object_spec(env, M2, ent, rng):
    """Model entry for a brand-new object of `ent` (returns key) -- relationships to existing objects included."""
    hs = HOSTILE
    if ent == 'Person':
        k = M2.add('Person', (50,), {'id': 50, 'name': 'fresh', 'age': 5, 'money': Decimal('3.25'), 'bio': 'fresh bio', 'nick': None})
        M2.link(k, 'group', rng.choice(M2.of('Group')))
        for t in M2.of('Tag')[:2]: M2.coll_add(k, 'tags', t)
        M2.link(k, 'best', rng.choice(M2.of('Item')))
    elif ent == 'Item':
        b = 'z*,' if env.variant['item_b'] == 'str' else 99
        k = M2.add('Item', ('*,new', b), {'a': '*,new', 'b': b, 'q': 4})
        M2.link(k, 'owner', rng.choice(M2.of('Person')))
        for t in M2.of('Mark')[:1]: M2.coll_add(k, 'marks', t)
    elif ent == 'Sub':
        it = rng.choice(M2.of('Item'))
        k = M2.add('Sub', it[1] + ('new,*',), {'n': 'new,*', 'v': 3})
        M2.link(k, 'item', it)
    elif ent == 'Tag':
        tid = 'new*' if env.variant['tag_pk'] == 'str' else 90
        k = M2.add('Tag', (tid,), {'id': tid})
        for p in M2.of('Person')[:2]: M2.coll_add(k, 'people', p)
    elif ent == 'Group':
        k = M2.add('Group', (90,), {'id': 90, 'title': 'newg', 'note': ''})
        M2.coll_add(k, 'members', M2.of('Person')[0])
    else: return None
    return k


def section_to_dict(ctx, env, M, rng, quick):
    from pony.orm import db_session, rollback, flush
    for ent in ENTS:
        combos, extra = option_matrix(env.S, ent, rng)
        keys = M.of(ent)
        # loaded: every object, complete matrix
        for key in keys:
            with db_session:
                obj = pony_obj(env, key)
                check_to_dict(ctx, env, M, obj, key, 'loaded', combos + extra)
        sample = keys[:2] if quick else keys[:4]
        # pk-only seed reached through a reference
        for key in sample:
            holder = next(((k, a) for k, o in sorted(M.objs.items()) for a, t in o['refs'].items()
                           if t == key and k[0] not in ('Sub', 'Detail')), None)
            if holder is None: continue
            for chunk in (combos[::3], combos[1::3], combos[2::3]):
                with db_session:
                    h = pony_obj(env, holder[0])
                    obj = h._vals_.get(getattr(type(h), holder[1]))
                    if obj is None: obj = getattr(h, holder[1])
                    ctx.count('to_dict.seed_state_is_seed' if obj in obj._session_cache_.seeds[type(obj)._pk_attrs_] else 'to_dict.seed_state_loaded')
                    check_to_dict(ctx, env, M, obj, key, 'seed', chunk)
        # partially loaded collections
        for key in sample:
            sets = [n for n, k, x in env.S[ent] if k == 'set']
            if not sets: continue
            for how in ('contains', 'count', 'is_empty'):
                with db_session:
                    obj = pony_obj(env, key)
                    for n in sets:
                        coll = getattr(obj, n)
                        if how == 'contains':
                            cands = M.of(M.kind(ent, n)[1])
                            if cands: pony_obj(env, cands[0]) in coll
                        elif how == 'count': coll.count()
                        else: coll.is_empty()
                    check_to_dict(ctx, env, M, obj, key, 'partial_' + how, [c for c in combos if c[2] or c[0]][::2])
        # modified, unflushed: a new session per option combination (to_dict flushes)
        for key in sample:
            mrng_seed = rng.random()
            sub = combos if not quick else combos[::2]
            for i, combo in enumerate(sub):
                import random
                mr = random.Random(mrng_seed)
                with db_session:
                    M2 = copy.deepcopy(M)
                    obj = pony_obj(env, key)
                    changed = apply_mods(env, M2, obj, key, mr)
                    if i % 7 == 3: flush(); st = 'modified_flushed'
                    else: st = 'modified_unflushed'
                    if changed: ctx.count('to_dict.objects_with_pending_changes')
                    check_to_dict(ctx, env, M2, obj, key, st, [combo])
                    # the other end of a changed relationship must show the current state as well
                    if i % 5 == 0:
                        for name in {c.lstrip('+-') for c in changed}:
                            kind, tent = M2.kind(ent, name)
                            if kind in ('ref', 'set'):
                                for t in (M2.of(tent)[:2]):
                                    check_to_dict(ctx, env, M2, pony_obj(env, t), t, 'modified_other_end', [(None, None, True, False, False)])
                    rollback()
        # created, unflushed
        sub = combos[::2] if quick else combos
        for i, combo in enumerate(sub):
            import random
            cr = random.Random(i // 4)
            with db_session:
                M2 = copy.deepcopy(M)
                k = new_object_spec(env, M2, ent, cr)
                if k is None: break
                live = {}
                class L(dict):
                    def __missing__(s, kk): s[kk] = pony_obj(env, kk); return s[kk]
                    def __contains__(s, kk): return True
                obj = create_from_model(env, M2, k, L(), skip=())
                ctx.count('to_dict.created_objects')
                check_to_dict(ctx, env, M2, obj, k, 'created_unflushed', [combo])
                if i % 6 == 0:
                    for name, kind, tent in env.S[ent]:
                        if kind in ('ref', 'set'):
                            for t in (list(M2.objs[k]['sets'].get(name, ())) + [M2.objs[k]['refs'].get(name)])[:2]:
                                if t is not None:
                                    check_to_dict(ctx, env, M2, pony_obj(env, t), t, 'created_other_end', [(None, None, True, False, False)])
                rollback()
        # loaded object referencing / containing created-unflushed objects with AUTO keys (nothing flushed before the call)
        if ent in ('Person', 'Item'):
            for key in sample:
                for i, combo in enumerate(combos):
                    import random
                    ar = random.Random('%s/%d' % (ent, i // 8))
                    with db_session:
                        M2 = copy.deepcopy(M)
                        obj = pony_obj(env, key)
                        new, resolve = add_unflushed(env, M2, obj, key, ar, want_all=(i % 3 == 0))
                        ctx.count('to_dict.objects_referencing_unflushed_auto')
                        if i % 6 == 3:      # the new object itself first (it has no key yet), then the loaded one
                            check_to_dict(ctx, env, M2, new[0][1], new[0], 'created_auto_unflushed', [combo], post=resolve)
                            check_to_dict(ctx, env, M2, obj, key, 'refs_auto_after_flush', [combo])
                        else:
                            check_to_dict(ctx, env, M2, obj, key, 'refs_unflushed_auto', [combo], post=resolve)
                            if i % 6 == 0:
                                for pair in new: check_to_dict(ctx, env, M2, pair[1], pair, 'new_auto_after', [(None, None, True, False, False)])
                        rollback()

# ---------------------------------------------------------------------------------------------------------------
# (2) composite key encoding + Bag

def ref_encode_part(s):
    return s.replace('*', '**').replace(',', '*,')


def ref_decode(s):
    """Inverse of the documented encoding: '**' -> '*', '*,' -> ',', bare ',' separates parts.
    Returns list of parts or None if s is not a valid encoding."""
    parts, cur, i = [], [], 0
    while i < len(s):
        c = s[i]
        if c == '*':
            if i + 1 >= len(s): return None
            n = s[i + 1]
            if n not in '*,': return None
            cur.append(n); i += 2
        elif c == ',':
            parts.append(''.join(cur)); cur = []; i += 1
        else:
            cur.append(c); i += 1
    parts.append(''.join(cur))
    return parts


def section_encoding(ctx, env, quick):
    from pony.orm.serialization import Bag
    bag = Bag(env.db)
    sdom = HOSTILE + ['', '*' * 3, ',,', '*a', '**,']
    idom = [0, 1, -1, 12]
    sigs = [('s', 's'), ('s', 'i'), ('i', 's'), ('i', 'i'), ('s', 's', 's'), ('s', 'i', 's'), ('i', 's', 'i')]
    for sig in sigs:
        doms = [sdom if (t == 's') else idom for t in sig]
        if len(sig) == 3: doms = [d[:9] if d is sdom else d for d in doms]
        seen = {}
        for tup in itertools.product(*doms):
            enc = bag._reduce_composite_pk(tup)
            ctx.case(['encoding', sig, repr(tup)], nontrivial=any(isinstance(p, str) and (',' in p or '*' in p) for p in tup))
            ctx.count('encoding.tuples')
            dec = ref_decode(enc)
            if dec != [str(p) for p in tup]:
                ctx.violation({'check': 'encoding', 'sig': sig, 'tuple': list(tup), 'encoded': enc, 'decoded': dec},
                              mechanism='composite-key-encoding-not-invertible')
            if enc in seen and seen[enc] != tup:
                ctx.violation({'check': 'encoding', 'sig': sig, 'pair': [list(seen[enc]), list(tup)], 'encoded': enc},
                              mechanism='composite-key-encoding-collision')
            seen[enc] = tup
        n = len(seen)
        ctx.count('encoding.pairs', n * (n - 1) // 2)


def bag_config_ref(S, ent, cfg):
    """(attr names, related_objects) for an entity under cfg (None = defaults of Bag.config)."""
    if cfg is None: return attr_names(S, ent, None, None, True, False), True
    names = attr_names(S, ent, cfg.get('only'), cfg.get('exclude'), cfg.get('with_collections', True), cfg.get('with_lazy', False))
    return names, cfg.get('related_objects', True)


def enc_key(raw):
    return rawval(raw) if len(raw) == 1 else ','.join(ref_encode_part(str(p)) for p in raw)


def bag_value(M, key, name, firstcol_dev):
    ent = key[0]
    kind, extra = M.kind(ent, name)
    o = M.objs[key]
    if kind in ('pk', 'scalar', 'lazy'): return o['vals'][name]
    if kind in ('ref', 'pkref'):
        t = o['refs'][name]
        return None if t is None else rawval(t[1])
    items = o['sets'][name]
    if firstcol_dev and extra == 'Detail': return sorted(t[1][0] for t in items)
    return sorted(enc_key(t[1]) for t in items)


def bag_reference(S, M, put, cfgs, order=None, firstcol_dev=False):
    """Intended result (order=None) or pony's order-dependent result (order = iteration order of the put objects)."""
    def one(key, full):
        names, rel = bag_config_ref(S, key[0], cfgs.get(key[0]))
        d = {}
        for n in names:
            kind = M.kind(key[0], n)[0]
            if kind == 'set' and not full: continue
            d[n] = bag_value(M, key, n, firstcol_dev)
        return d
    def related_of(key):
        names, rel = bag_config_ref(S, key[0], cfgs.get(key[0]))
        out = []
        if not rel: return out
        for n in names:
            kind = M.kind(key[0], n)[0]
            if kind == 'set': out += sorted(M.objs[key]['sets'][n])
            elif kind in ('ref', 'pkref') and M.objs[key]['refs'][n] is not None: out.append(M.objs[key]['refs'][n])
        return out
    dicts = {}
    if order is None:
        for key in put: dicts[key] = one(key, True)
        for key in put:
            for t in related_of(key):
                if t not in dicts: dicts[t] = one(t, False)
    else:
        for key in order:
            if key in dicts: continue
            for t in related_of(key): dicts[t] = one(t, False)      # overwrites / pre-empts full entries (the deviation)
            dicts[key] = one(key, True)
    res = {}
    for key, d in dicts.items(): res.setdefault(key[0], {})[enc_key(key[1])] = d
    return res


def jsonify(x):
    if isinstance(x, dict): return {(AutoKey(int(k)) if isinstance(k, AutoId) else str(k)) if not isinstance(k, bool) else json.dumps(k): jsonify(v)
                                    for k, v in x.items()}
    if isinstance(x, (list, tuple)): return [jsonify(i) for i in x]
    if isinstance(x, (Decimal, date, datetime)): return str(x)
    return x


def random_cfg(S, ent, rng):
    names = [n for n, k, x in S[ent]]
    r = rng.random()
    if r < 0.35: return None
    cfg = {}
    if rng.random() < 0.3: cfg['only'] = rng.sample(names, rng.randint(1, len(names)))
    if rng.random() < 0.3: cfg['exclude'] = ', '.join(rng.sample(names, rng.randint(1, 2)))
    if rng.random() < 0.4: cfg['with_collections'] = rng.random() < 0.5
    if rng.random() < 0.4: cfg['with_lazy'] = rng.random() < 0.5
    if rng.random() < 0.5: cfg['related_objects'] = rng.random() < 0.5
    return cfg


def section_bag(ctx, env, M, rng, quick):
    from pony.orm import db_session, rollback
    from pony.orm import serialization
    keys_all = sorted(M.objs)
    rounds = 120 if quick else 400
    for r in range(rounds):
        mode = ('bag', 'bag_json', 'to_dict', 'to_json')[r % 4]
        n = rng.choice([1, 1, 2, 2, 3, 4, 6])
        put = rng.sample(keys_all, min(n, len(keys_all)))
        if r % 9 == 0: put = rng.sample(M.of('Item') + M.of('Sub') + M.of('Detail'), 3)
        cfgs = {}
        if mode.startswith('bag'):
            for ent in ENTS:
                c = random_cfg(env.S, ent, rng)
                if c is not None: cfgs[ent] = c
        modified = (r % 5 == 4)
        unflushed = (r % 6 == 5 and not modified)
        if unflushed:
            put = [rng.choice(M.of('Person') + M.of('Item')[:2])] + [k for k in put[1:]]
            put = [k for i, k in enumerate(put) if k not in put[:i]]
            ctx.count('bag.unflushed_auto')
        with db_session:
            M2, resolve = M, None
            objs = [pony_obj(env, k) for k in put]
            putrefs = list(put)
            if modified:
                M2 = copy.deepcopy(M)
                k0 = put[0]
                apply_mods(env, M2, objs[0], k0, rng)
            if unflushed:
                M2 = copy.deepcopy(M)
                if (r // 6) % 2 == 0: preload(env, objs[0], put[0]); desc_pre = True
                else: desc_pre = False
                new, resolve = add_unflushed(env, M2, objs[0], put[0], rng, want_all=(r % 12 == 11))
                if r % 4 < 2:                                  # a brand-new object put into the bag as well
                    putrefs.append(new[0]); objs.append(new[0][1])
            desc = {'mode': mode, 'put': put, 'cfgs': cfgs, 'modified': modified, 'unflushed_auto': unflushed,
                    'preloaded': unflushed and desc_pre}
            ctx.case([env.vfp, 'bag', mode, sorted(map(repr, put)), json.dumps(cfgs, sort_keys=True, default=repr), modified],
                     nontrivial=True, sample=desc)
            ctx.count('bag.calls'); ctx.count('bag.mode.' + mode)
            order = None
            try:
                if mode.startswith('bag'):
                    bag = serialization.Bag(env.db)
                    for ent, c in cfgs.items(): bag.config(env.E[ent], **c)
                    if r % 2: bag.put(objs)
                    else:
                        for o in objs: bag.put(o)
                    order = [o for ent_, os_ in bag.objects.items() for o in os_]
                    got = bag.to_dict() if mode == 'bag' else json.loads(bag.to_json())
                elif mode == 'to_dict': got = serialization.to_dict(objs if len(objs) > 1 or r % 2 else objs[0])
                else: got = json.loads(serialization.to_json(objs))
            except Exception as e:
                if unflushed and isinstance(e, TypeError) and mode in ('bag_json', 'to_json'):
                    # json.dumps(sort_keys=True) cannot order a None key (unflushed object) with int keys: loud
                    ctx.count('outcome.pony_raised.bag_json_unflushed_TypeError'); rollback(); continue
                ctx.violation(dict(quick=env.quick, variant=env.variant, pop=env.pop, check='bag', desc=desc, exc=repr(e)), mechanism='bag-raised')
                rollback(); continue
            if order is None:
                # module-level functions build Bag(db); put(first); put(rest): the same insertions into a probe bag give the
                # same dict / set iteration order
                probe = serialization.Bag(env.db)
                probe.put(objs[0]); probe.put(objs[1:])
                order = [o for ent_, os_ in probe.objects.items() for o in os_]
            if resolve is not None and resolve(): ctx.count('bag.call_left_new_objects_unflushed')
            put = [k[0] if isinstance(k, list) else k for k in putrefs]
            order = [key_of(o) for o in order]
            judge_bag(ctx, env, M2, put, cfgs, got, mode, desc, order, objs, auto=unflushed)
            rollback()


def judge_bag(ctx, env, M2, put, cfgs, got, mode, desc, order, objs, auto=False):
    js = mode in ('bag_json', 'to_json')
    conv = jsonify if js else (lambda x: x)
    got = {e: dict(d) for e, d in dict(got).items()}
    if js: got_cmp = got
    else: got_cmp = {e: {k: d for k, d in ds.items()} for e, ds in got.items()}
    want = conv(bag_reference(env.S, M2, put, cfgs))
    w = dict(quick=env.quick, variant=env.variant, pop=env.pop, check='bag', desc=desc)
    # every object put in appears exactly once under its entity name and key
    for k in put:
        kk = enc_key(k[1]); kk = str(kk) if js else kk
        if auto and isinstance(k[1][0], AutoId): continue          # judged by the content comparison below
        if k[0] not in got_cmp or kk not in got_cmp[k[0]]:
            ctx.violation(dict(w, missing=k), mechanism='bag-object-missing'); return
    if same_bag(got_cmp, want): ctx.count('outcome.agree'); return
    # deviation rules, alone and combined
    orders = [order]
    for fc in (False, True):
        for od in [None] + orders:
            if od is None and not fc: continue
            dev = conv(bag_reference(env.S, M2, put, cfgs, order=od, firstcol_dev=fc))
            if same_bag(got_cmp, dev):
                if od is not None:
                    ctx.count('finding.bag_truncated'); ctx.finding(F_BAG_TRUNC, dict(w, got=jsonify(got_cmp), want=jsonify(want)))
                if fc:
                    ctx.count('finding.bag_first_column'); ctx.finding(F_BAG_FIRSTCOL, dict(w, got=jsonify(got_cmp), want=jsonify(want)))
                return
    if auto and lenient_same(got_cmp, want):
        ctx.count('finding.bag_unflushed_auto_none')
        ctx.finding(F_BAG_NOFLUSH, dict(w, got=jsonify(got_cmp), want=jsonify(want)))
        return
    ctx.violation(dict(w, got=jsonify(got_cmp), want=jsonify(want)), mechanism='bag-content')


def same_bag(a, b):
    return same(a, b)

# ---------------------------------------------------------------------------------------------------------------
# (3) Database.to_json

def tojson_reference(S, M, roots, include, exclude):
    """objects part: closure over included relationship attributes."""
    todo = list(roots); seen = set(roots)
    out = {}
    while todo:
        key = todo.pop(0)
        ent = key[0]
        d = out.setdefault(ent, {})
        for p in key[1]: d = d.setdefault(AutoKey(int(p)) if isinstance(p, AutoId) else str(p), {})
        for name, kind, extra in S[ent]:
            if (ent, name) in exclude: continue
            inc = (ent, name) in include
            if not inc and kind in ('set', 'lazy'): continue
            if kind == 'set':
                items = sorted(M.objs[key]['sets'][name], key=lambda k: k[1])
                for t in items:
                    if t not in seen: seen.add(t); todo.append(t)
                d[name] = jsonify(sorted(rawval(t[1]) for t in items))
            elif kind in ('ref', 'pkref'):
                t = M.objs[key]['refs'][name]
                if t is not None and inc and t not in seen: seen.add(t); todo.append(t)
                d[name] = None if t is None else jsonify(rawval(t[1]))
            else: d[name] = jsonify(M.objs[key]['vals'][name])
    return out


def section_to_json(ctx, env, M, rng, quick):
    from pony.orm import db_session, select, rollback
    keys_all = sorted(M.objs)
    relattrs = [(e, n) for e in ENTS for n, k, x in env.S[e] if k in ('set', 'lazy', 'ref')]
    allattrs = [(e, n) for e in ENTS for n, k, x in env.S[e] if k != 'pk' and k != 'pkref']
    for r in range(60 if quick else 200):
        n = rng.choice([1, 1, 2, 3, 5])
        roots = rng.sample(keys_all, n)
        include = rng.sample(relattrs, rng.choice([0, 0, 1, 2, 4, 7]))
        exclude = rng.sample(allattrs, rng.choice([0, 0, 1, 3]))
        shape = ('obj', 'list', 'dict', 'method', 'queryresult')[r % 5]
        desc = {'roots': roots, 'include': include, 'exclude': exclude, 'shape': shape}
        ctx.case([env.vfp, 'to_json', shape, sorted(map(repr, roots)), sorted(include), sorted(exclude)], nontrivial=True, sample=desc)
        ctx.count('to_json.calls')
        w = dict(quick=env.quick, variant=env.variant, pop=env.pop, check='to_json', desc=desc)
        unflushed = (r % 4 == 3 and shape != 'queryresult')
        if unflushed:
            roots = [rng.choice(M.of('Person') + M.of('Item')[:2])] + [k for k in roots[1:]]
            roots = [k for i, k in enumerate(roots) if k not in roots[:i]]
            desc['roots'] = roots; desc['unflushed_auto'] = True
            ctx.count('to_json.unflushed_auto')
        with db_session:
            inc = [getattr(env.E[e], a) for e, a in include]
            exc = [getattr(env.E[e], a) for e, a in exclude]
            M2, resolve = M, None
            rootrefs = list(roots)                              # model keys, or [placeholder, obj] pairs of new objects
            try:
                if shape == 'queryresult':
                    ent = roots[0][0]
                    res = env.E[ent].select()[:]
                    text = res.to_json(include=inc, exclude=exc, with_schema=False)
                    rootrefs = [key_of(o) for o in res]
                    if sorted(rootrefs) != sorted(M.of(ent)):
                        ctx.violation(dict(w, got=rootrefs), mechanism='to_json-queryresult'); continue
                    build = lambda ks: [ref_data(k) for k in ks]
                else:
                    if shape in ('obj', 'method'): rootrefs = rootrefs[:1]
                    objs = [pony_obj(env, k) for k in rootrefs]
                    if unflushed:
                        M2 = copy.deepcopy(M)
                        if (r // 4) % 2 == 0: preload(env, objs[0], rootrefs[0]); desc['preloaded'] = True
                        new, resolve = add_unflushed(env, M2, objs[0], rootrefs[0], rng, want_all=(r % 8 == 7))
                        if shape in ('list', 'dict') and r % 3 == 0:          # a brand-new object given directly as well
                            rootrefs.append(new[0]); objs.append(new[0][1])
                    if shape == 'obj':
                        data = objs[0]; build = lambda ks: ref_data(ks[0])
                        text = env.db.to_json(data, include=inc, exclude=exc, with_schema=False)
                    elif shape == 'list':
                        data = list(objs); build = lambda ks: [ref_data(k) for k in ks]
                        text = env.db.to_json(data, include=inc, exclude=exc, with_schema=False)
                    elif shape == 'dict':
                        data = {'a': list(objs), 'n': 5, 'nested': {'first': objs[0]}}
                        build = lambda ks: {'a': [ref_data(k) for k in ks], 'n': 5, 'nested': {'first': ref_data(ks[0])}}
                        text = env.db.to_json(data, include=inc, exclude=exc, with_schema=False)
                    else:
                        build = lambda ks: ref_data(ks[0])
                        text = objs[0].to_json(include=inc, exclude=exc, with_schema=(r % 2 == 0))
            except Exception as e:
                if unflushed and isinstance(e, TypeError) and 'NoneType' in str(e):
                    # sorting a collection's keys with a None (unflushed object) among them: loud
                    ctx.count('outcome.pony_raised.to_json_unflushed_TypeError'); rollback(); continue
                ctx.violation(dict(w, exc=repr(e)), mechanism='to_json-raised'); rollback(); continue
            try: got = json.loads(text)
            except ValueError as e:
                ctx.violation(dict(w, text=text[:500], exc=repr(e)), mechanism='to_json-invalid-json'); rollback(); continue
            if resolve is not None and resolve(): ctx.count('to_json.call_left_new_objects_unflushed')
            keys = [k[0] if isinstance(k, list) else k for k in rootrefs]
            want_data = jsonify(build(keys))
            want_objects = tojson_reference(env.S, M2, keys, set(include) - set(exclude), set(exclude))
            if got.get('data') == want_data and got.get('objects') == want_objects: ctx.count('outcome.agree')
            elif unflushed and lenient_same(got.get('data'), want_data) and lenient_same(got.get('objects'), want_objects):
                ctx.count('finding.to_json_unflushed_auto_none')
                ctx.finding(F_JSON_NOFLUSH, dict(w, got=got, want={'data': want_data, 'objects': want_objects}))
            elif got.get('data') != want_data:
                ctx.violation(dict(w, got=got.get('data'), want=want_data), mechanism='to_json-data')
            else:
                ctx.violation(dict(w, got=got.get('objects'), want=want_objects), mechanism='to_json-objects')
            if shape == 'method' and r % 2 == 0 and 'schema' not in got:
                ctx.violation(dict(w, keys=sorted(got)), mechanism='to_json-schema-missing')
            rollback()


def ref_data(key):
    return {'class': key[0], 'pk': jsonify(rawval(key[1]))}

# ---------------------------------------------------------------------------------------------------------------
# (4) pickling

def record(obj):
    """What is loaded right now (never triggers a load): {attr name: normalised value} for non-collection attrs,
    and fully loaded collections."""
    from pony.orm.core import Entity
    out, colls = {}, {}
    for attr, v in obj._vals_.items():
        if attr.is_collection:
            if v is not None and v.is_fully_loaded: colls[attr.name] = sorted(key_of(i) for i in v)
        else: out[attr.name] = ('E',) + key_of(v) if isinstance(v, Entity) else v
    return out, colls


def has_ref_cycle(objs):
    """Is there a cycle of to-one references among the loaded values reachable from objs (walks _vals_ only)?"""
    from pony.orm.core import Entity
    color = {}
    def dfs(o):
        color[o] = 1
        for attr, v in (o._vals_ or {}).items():
            if attr.is_collection or not isinstance(v, Entity): continue
            c = color.get(v)
            if c == 1: return True
            if c is None and dfs(v): return True
        color[o] = 2
        return False
    return any(color.get(o) is None and dfs(o) for o in objs)


def entities_in(x):
    from pony.orm.core import Entity, SetInstance, QueryResult
    if isinstance(x, Entity): return [x]
    if isinstance(x, SetInstance): return [x._obj_] + list(x._obj_._vals_.get(x._attr_) or ())
    if isinstance(x, dict): return [e for v in x.values() for e in entities_in(v)]
    if isinstance(x, (list, tuple, QueryResult)): return [e for v in x for e in entities_in(v)]
    return []


def check_unpickled_object(ctx, env, M, obj, key, rec, w, identity=True):
    """obj: unpickled in the current (new) session; rec: what was loaded at pickling time."""
    vals, colls = rec
    o = M.objs[key]
    ctx.count('pickle.objects_checked')
    loaded_now = {a.name for a in obj._vals_ if not a.is_collection}
    for name, v in vals.items():
        kind = M.kind(key[0], name)[0]
        want = o['vals'][name] if kind in ('pk', 'scalar', 'lazy') else (None if o['refs'][name] is None else ('E',) + o['refs'][name])
        if name not in loaded_now:
            ctx.violation(dict(w, key=key, attr=name, problem='attribute loaded at pickling time is not loaded after unpickling'),
                          mechanism='unpickle-dropped-attribute'); continue
        got = norm_result(obj._vals_[getattr(type(obj), name)])
        ctx.count('pickle.loaded_attr_checks')
        if not same(got, want) or not same(norm_result(v), want):
            ctx.violation(dict(w, key=key, attr=name, got=repr(got), pickled=repr(v), want=repr(want)), mechanism='unpickle-attribute-value')
    # everything (loaded or not) must read correctly through the public API
    for name, kind, extra in env.S[key[0]]:
        got = norm_result(getattr(obj, name) if kind != 'set' else sorted(getattr(obj, name), key=lambda x: x._get_raw_pkval_()))
        want = expected_value(M, key, name, True)
        ctx.count('pickle.attr_reads')
        if not same(got, want):
            ctx.violation(dict(w, key=key, attr=name, got=repr(got), want=repr(want)), mechanism='unpickle-read-value')
    if identity and pony_obj(env, key) is not obj:
        ctx.violation(dict(w, key=key, problem='unpickled object is not Entity[pk] of the session'), mechanism='unpickle-identity')


def REVKIND(M, ent, name):
    rent, rattr = REV[(ent, name)]
    return M.kind(rent, rattr)[0]


def section_pickle(ctx, env, M, rng, quick):
    from pony.orm import db_session, select, desc as pdesc, commit, flush
    from pony.orm.core import OrmError
    keys_all = sorted(M.objs)
    W = lambda **k: dict(dict(quick=env.quick, variant=env.variant, pop=env.pop, check='pickle'), **k)

    def dumps(x, w):
        """pickle.dumps with the cycle finding classified.  Returns bytes or None."""
        try: return pickle.dumps(x)
        except RecursionError as e:
            ctx.count('pickle.recursion_errors')
            if has_ref_cycle(entities_in(x)):
                ctx.count('finding.pickle_cycle'); ctx.finding(F_PICKLE_CYCLE, dict(w, error='RecursionError'))
            else: ctx.violation(dict(w, error='RecursionError without a reference cycle'), mechanism='pickle-raised')
            return None

    # a. single objects, in three load states
    for key in keys_all:
        for how in ('getitem', 'lazy_loaded', 'seed'):
            blob = rec = None
            w = W(scenario='object.' + how, key=key)
            with db_session:
                if how == 'seed':
                    holder = next(((k, a) for k, o in sorted(M.objs.items()) for a, t in o['refs'].items() if t == key), None)
                    if holder is None: continue
                    h = pony_obj(env, holder[0])
                    obj = h._vals_.get(getattr(type(h), holder[1]))
                    if obj is None: continue
                else:
                    obj = pony_obj(env, key)
                    if how == 'lazy_loaded':
                        for n, k, x in env.S[key[0]]:
                            if k == 'lazy': getattr(obj, n)
                rec = record(obj)
                ctx.case([env.vfp, 'pickle', 'object', how, key[0]], nontrivial=True, sample={'scenario': 'object.' + how, 'entity': key[0]})
                ctx.count('pickle.dumps')
                blob = dumps(obj, w)
            if blob is None: continue
            for first in (False, True):
                with db_session:
                    if first: pony_obj(env, key)                 # the new session already knows the object
                    try: obj2 = pickle.loads(blob)
                    except Exception as e:
                        ctx.violation(dict(w, exc=repr(e), session_knows_object=first), mechanism='unpickle-raised'); continue
                    ctx.count('pickle.loads')
                    check_unpickled_object(ctx, env, M, obj2, key_of(obj2), rec, w)
                    if key_of(obj2) != key: ctx.violation(dict(w, got=key_of(obj2)), mechanism='unpickle-identity')

    # b. lists / dicts of objects, c. collections, d. query results
    for r in range(40 if quick else 150):
        kind = ('list', 'dict', 'coll', 'queryresult', 'query', 'coll', 'scalar_query', 'tuple_query')[r % 8]
        w = W(scenario=kind, round=r)
        blob = None
        with db_session:
            ctx.count('pickle.dumps'); ctx.count('pickle.kind.' + kind)
            if kind in ('list', 'dict'):
                ent = rng.choice(['Person', 'Group', 'Tag', 'Mark', 'Item', 'Sub', 'Person'])
                ks = rng.sample(M.of(ent), min(3, len(M.of(ent))))
                objs = [pony_obj(env, k) for k in ks]
                recs = [record(o) for o in objs]
                data = objs if kind == 'list' else {'x': objs[0], 'rest': objs[1:]}
                w.update(keys=ks)
                ctx.case([env.vfp, 'pickle', kind, ent, len(ks)], sample={'scenario': kind, 'entity': ent})
                blob = dumps(data, w)
            elif kind == 'coll':
                ent = rng.choice(['Person', 'Group', 'Tag', 'Item', 'Mark'])
                key = rng.choice(M.of(ent))
                name = rng.choice([n for n, k, x in env.S[ent] if k == 'set'])
                obj = pony_obj(env, key)
                coll = getattr(obj, name)
                if r % 3 == 0: list(coll)
                w.update(key=key, attr=name, rel='m2m' if REVKIND(M, ent, name) == 'set' else 'o2m')
                ctx.case([env.vfp, 'pickle', 'coll', ent, name], sample={'scenario': 'collection', 'entity': ent, 'attr': name})
                blob = dumps(coll, w)
            else:
                ent = rng.choice(['Person', 'Group', 'Tag', 'Mark', 'Item', 'Sub'])
                E = env.E[ent]
                pkattrs = [getattr(E, a.name) for a in E._pk_attrs_]
                w.update(entity=ent)
                ctx.case([env.vfp, 'pickle', kind, ent], sample={'scenario': kind, 'entity': ent})
                if kind in ('queryresult', 'query'):
                    q = E.select().order_by(*[pdesc(a) for a in pkattrs]) if r % 2 else E.select().order_by(*pkattrs)
                    order = [key_of(o) for o in q]
                    w.update(order=order)
                    blob = dumps(q[:] if kind == 'queryresult' else q, w)
                elif kind == 'scalar_query':
                    q = select(p.name for p in env.E['Person']).order_by(1)
                    order = list(q); blob = dumps(q[:], w)
                else:
                    q = select((p, p.group) for p in env.E['Person']).order_by(1)
                    order = [(key_of(a), key_of(b) if b is not None else None) for a, b in q]
                    blob = dumps(q[:], w)
        if blob is None: continue
        with db_session:
            try: got = pickle.loads(blob)
            except Exception as e:
                ctx.violation(dict(w, exc=repr(e)), mechanism='unpickle-raised'); continue
            ctx.count('pickle.loads')
            if kind in ('list', 'dict'):
                objs2 = got if kind == 'list' else [got['x']] + got['rest']
                if [key_of(o) for o in objs2] != ks:
                    ctx.violation(dict(w, got=[key_of(o) for o in objs2]), mechanism='unpickle-container'); continue
                for o2, k, rec in zip(objs2, ks, recs): check_unpickled_object(ctx, env, M, o2, k, rec, w)
            elif kind == 'coll':
                want = sorted(M.objs[key]['sets'][name])
                try:
                    items = sorted(key_of(i) for i in got)
                    owner_ok = key_of(got._obj_) == key and got._attr_.name == name
                except Exception as e:
                    ctx.violation(dict(w, exc=repr(e)), mechanism='unpickle-collection-unusable'); continue
                ctx.count('pickle.collection_checks')
                if items == want and owner_ok: ctx.count('outcome.agree')
                elif items == [] and want and w['rel'] == 'm2m' and owner_ok:
                    ctx.count('finding.pickle_m2m_empty'); ctx.finding(F_PICKLE_M2M, dict(w, got=items, want=want))
                else: ctx.violation(dict(w, got=items, want=want, owner_ok=owner_ok), mechanism='unpickle-collection-content')
            elif kind in ('queryresult', 'query'):
                got_order = [key_of(o) for o in got]
                ctx.count('pickle.queryresult_checks')
                if got_order != order: ctx.violation(dict(w, got=got_order), mechanism='unpickle-queryresult-order')
                else:
                    ctx.count('outcome.agree')
                    for o2 in list(got)[:3]: check_unpickled_object(ctx, env, M, o2, key_of(o2), ({}, {}), w)
            elif kind == 'scalar_query':
                if list(got) != order: ctx.violation(dict(w, got=list(got)), mechanism='unpickle-queryresult-order')
                else: ctx.count('outcome.agree')
            else:
                g = [(key_of(a), key_of(b) if b is not None else None) for a, b in got]
                if g != order: ctx.violation(dict(w, got=g), mechanism='unpickle-queryresult-order')
                else: ctx.count('outcome.agree')

    # d2. query results of every producer (slice, limit / offset, page, fetch) in every materialisation state
    STATES = ('untouched', 'len', 'partial_iter', 'index', 'contains', 'bool_repr', 'full')
    for ent in ('Person', 'Item', 'Note', 'Sub') if not quick else ('Person', 'Item', 'Note'):
        E = env.E[ent]
        pkattrs = [getattr(E, a.name) for a in E._pk_attrs_]
        n = len(M.of(ent))
        producers = [('limit', 2, 0), ('limit', 2, 1), ('limit', 3, n - 2), ('limit', 2, n), ('limit', None, 2), ('page', 1, 2), ('page', 2, 2),
                     ('page', 2, 3), ('page', 3, 1), ('slice', 1, 3), ('slice', 0, 2), ('slice', 2, None), ('fetch', 2, 1), ('fetch', None, None)]
        for pi, (prod, x, y) in enumerate(producers):
            for st in STATES:
                for projection in (('entity', 'scalar') if (pi + len(st)) % 3 == 0 else ('entity',)):
                    w = W(scenario='result_state', entity=ent, producer=[prod, x, y], state=st, projection=projection)
                    blob = None
                    with db_session:
                        if projection == 'entity':
                            q = E.select().order_by(*pkattrs)
                            full = [key_of(o) for o in E.select().order_by(*pkattrs)]
                            norm = key_of
                        else:
                            q = select(p.id for p in env.E['Person']).order_by(-1)
                            full = sorted((k[1][0] for k in M.of('Person')), reverse=True)
                            norm = lambda v: v
                        if prod == 'limit': res = q.limit(x, offset=y) if x is not None else q.limit(None, offset=y); want = full[y:] if x is None else full[y:y + x]
                        elif prod == 'page': res = q.page(x, y); want = full[(x - 1) * y:(x - 1) * y + y]
                        elif prod == 'slice': res = q[x:y]; want = full[x:y]
                        else: res = q.fetch(x, y); want = full[(y or 0):] if x is None else full[(y or 0):(y or 0) + x]
                        if st == 'len': len(res)
                        elif st == 'partial_iter':
                            it = iter(res)
                            try: next(it)
                            except StopIteration: pass
                        elif st == 'index':
                            try: res[0]
                            except IndexError: pass
                        elif st == 'contains': (full[0] if projection == 'scalar' else pony_obj(env, full[0])) in res
                        elif st == 'bool_repr': repr(res)
                        elif st == 'full': list(res)
                        ctx.case([env.vfp, 'pickle', 'result_state', ent, prod, x, y, st, projection], nontrivial=True,
                                 sample={'scenario': 'result_state', 'entity': ent, 'producer': [prod, x, y], 'state': st})
                        ctx.count('pickle.result_state'); ctx.count('pickle.result_state.' + st); ctx.count('pickle.result_producer.' + prod)
                        if y and prod in ('limit', 'page') and st == 'untouched': ctx.count('pickle.result_state.lazy_untouched_with_offset')
                        blob = dumps(res, w)
                    if blob is None: continue
                    with db_session:
                        try: got = [norm(v) for v in pickle.loads(blob)]
                        except Exception as e:
                            ctx.violation(dict(w, exc=repr(e)), mechanism='unpickle-raised'); continue
                        ctx.count('pickle.loads')
                        if got == want: ctx.count('outcome.agree')
                        else: ctx.violation(dict(w, got=got, want=want), mechanism='unpickle-queryresult-content')

    # e. objects loaded only partially through raw SQL (pk columns only)
    for ent in ('Person', 'Group', 'Item'):
        E = env.E[ent]
        blob = None
        w = W(scenario='partial_by_sql', entity=ent)
        with db_session:
            cols = ', '.join('"%s"' % c for c in E._pk_columns_)
            objs = E.select_by_sql('SELECT %s FROM "%s"' % (cols, E._table_))
            recs = [record(o) for o in objs]; ks = [key_of(o) for o in objs]
            ctx.case([env.vfp, 'pickle', 'partial_by_sql', ent])
            ctx.count('pickle.dumps')
            blob = dumps(list(objs), w)
        if blob is None: continue
        with db_session:
            objs2 = pickle.loads(blob)
            for o2, k, rec in zip(objs2, ks, recs): check_unpickled_object(ctx, env, M, o2, k, rec, w)

    # f. created / modified objects must refuse
    from pony.orm import rollback
    for ent, attr, val in (('Person', 'age', 123), ('Group', 'title', 'zzz'), ('Item', 'q', 55)):
        with db_session:
            obj = pony_obj(env, M.of(ent)[0])
            setattr(obj, attr, val)
            new = env.E['Mark'](id=77)
            for what, x in (('modified', obj), ('created', new)):
                ctx.case([env.vfp, 'pickle', 'refuse', what, ent])
                try: pickle.dumps(x); refused = False
                except OrmError: refused = True
                ctx.count('pickle.refused' if refused else 'bracket.pending_object_pickled_silently')
            rollback()

# ---------------------------------------------------------------------------------------------------------------

def run_variant(ctx, variant, pop, quick, sections=None):
    import random
    env = Env(ctx, variant, '%d-%d' % (ctx.shard, pop))
    env.pop = pop
    env.quick = quick
    env.vfp = '%s/%s' % (variant['tag_pk'], variant['item_b'])
    rng = ctx.subrng('pop', pop, env.vfp)
    M = Model(env.S)
    try: populate(env, M, rng)
    except Exception:
        import traceback
        ctx.violation({'quick': quick, 'variant': variant, 'pop': pop, 'section': 'populate', 'error': traceback.format_exc()[-1800:]},
                      mechanism='unexpected-exception-in-populate')
        clean_session(); env.db.disconnect()
        return
    ctx.count('databases')
    steps = [('encoding', lambda: section_encoding(ctx, env, quick)),
             ('to_dict', lambda: section_to_dict(ctx, env, M, rng, quick)),
             ('bag', lambda: section_bag(ctx, env, M, rng, quick)),
             ('to_json', lambda: section_to_json(ctx, env, M, rng, quick)),
             ('pickle', lambda: section_pickle(ctx, env, M, rng, quick))]
    for name, f in steps:
        if sections and name not in sections: continue
        if name == 'encoding' and pop % 4: continue
        try: f()
        except Exception:
            import traceback
            ctx.violation({'quick': quick, 'variant': variant, 'pop': pop, 'section': name, 'error': traceback.format_exc()[-1800:]},
                          mechanism='unexpected-exception-in-' + name)
            clean_session()
    env.db.disconnect()
    try: os.remove(env.file)
    except OSError: pass


def clean_session():
    from pony.orm import core, rollback
    try: rollback()
    except Exception: pass
    core.local.db_context_counter = 0; core.local.db_session = None; core.local.db2cache.clear()


VARIANTS = [{'tag_pk': 'int', 'item_b': 'int'}, {'tag_pk': 'str', 'item_b': 'str'},
            {'tag_pk': 'int', 'item_b': 'str'}, {'tag_pk': 'str', 'item_b': 'int'}]


def run(ctx):
    quick = ctx.tier == 'quick'
    n = 6 if quick else 8
    for i in range(n):
        pop = ctx.shard * 100 + i
        run_variant(ctx, VARIANTS[(i + ctx.shard) % 4], pop, quick)
    k = 1.0 if quick else 1.5
    ctx.floor('databases', n)
    ctx.floor('to_dict.calls', int(40000 * k))
    ctx.floor('to_dict.objects_with_pending_changes', int(300 * k))
    ctx.floor('to_dict.created_objects', int(300 * k))
    ctx.floor('bag.calls', int(300 * k))
    ctx.floor('to_json.calls', int(150 * k))
    ctx.floor('encoding.tuples', 1500)
    ctx.floor('pickle.loads', int(500 * k))
    ctx.floor('outcome.agree', int(40000 * k))
    ctx.floor('pickle.loaded_attr_checks', int(1000 * k))
    ctx.floor('to_dict.objects_referencing_unflushed_auto', int(1500 * k))
    ctx.floor('bag.unflushed_auto', int(40 * k))
    ctx.floor('to_json.unflushed_auto', int(30 * k))
    ctx.floor('pickle.result_state', int(1000 * k))
    ctx.floor('pickle.result_state.lazy_untouched_with_offset', int(60 * k))
    ctx.floor('pickle.collection_checks', int(20 * k))
    ctx.floor('pickle.queryresult_checks', int(20 * k))


def replay(ctx, witness):
    if 'variant' not in witness:            # encoding enumeration: independent of the database contents
        run_variant(ctx, VARIANTS[0], 0, True, sections=['encoding'])
    else: run_variant(ctx, witness['variant'], witness['pop'], witness.get('quick', ctx.tier == 'quick'))

META = {
    'level': 'exploration',
    'engine': 'E2+E3',
    'technique': 'conflict-outcome oracle (now-or-at-flush) + raw duplicate scan + commit observer',
    'level_text': 'Every primary/unique/composite key conflict the reference model sees must be reported at the call or at the next flush/commit; a flush-time conflict must leave the raw database equal to the last committed reference state; raw rows are scanned for duplicates after every commit. Held on the generated histories only: fixed templates covering every relationship kind alternate with random 2-4 entity diagrams; violating histories are shrunk by re-running the real code.',
    'level_note': 'Trusted: the reference model in vlib/hmodel.py (documented assignment / collection / cascade semantics, conflict timing free), SQLite as the only backend, single-threaded sessions. Loud unexpected errors are counted, not judged. One-to-one self links are out of scope.',
    'rule': 'one case = one generated history (diagram + operation list, up to N operations over several sessions); distinct = distinct (diagram, operation list); non-trivial = at least two applied modifications and at least one event judged by the deciding monitor',
    'assumptions': ['SQLite only', 'reference model semantics as documented in DESIGN.md 2.2', 'histories are single-threaded'],
    'design_ref': 'DESIGN.md 2.2, 3 C14',
}
SHARDS = {'quick': 4, 'thorough': 16}
SHARD_TIMEOUT = {'quick': 300, 'thorough': 1500}

CFG = {
    'monitors': ['conflict', 'commit'],
    'deciding_counters': ['conflict.judged'],
    'n': {'quick': 900, 'thorough': 1000},
    'ops': {'quick': 30, 'thorough': 60},
    'invalid_rate': 0.2,
    'weights': {'create': 16, 'set': 16, 'setmany': 8, 'add': 3, 'remove': 2, 'assign': 1, 'clear': 1, 'delete': 6, 'flush': 8, 'commit': 5, 'read': 2, 'coll': 2, 'bykey': 6, 'bypk': 4},
}


def run(ctx):
    from vlib import hcheck
    hcheck.run_histories(ctx, CFG)
    ctx.floor('conflict.judged', 150)


def replay(ctx, witness):
    from vlib import hcheck
    hcheck.replay(ctx, witness, CFG)

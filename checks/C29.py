"""C29 — JSON and array operations in queries match Python semantics (SQLite, JSON1 functions on and off).

Runtime differential monitor (engine E1, JSON/array specific generator).  Two real Pony `Database`s are bound to
SQLite in the same process: one as-is (JSON1 functions: json_extract, json_array_length), one with
`db.provider.json1_available = False` set right after bind (SQLiteBuilder reads the flag from the provider every
time it builds a statement), which routes the same queries through the py_json_* fallbacks.  Both hold the same
generated rows.  Every generated query runs on both; each (query, row) pair is judged against an oracle that applies
the same operation to the decoded Python value.

Oracle reading (bracketed where the statement is ambiguous):
  * a path that leaves the document (missing key, index out of range, step into a scalar) gives None / absent;
    indexing *into a string* has no reference (Python would index the text) and is skipped;
  * comparisons with a scalar: Python's result when both sides are present and comparable; a None / missing left side
    makes `==` false and `!=` either (SQL unknown vs Python True); ordering with None or across str/number has no
    reference; bool-vs-number and int-vs-float equalities accept both the Python and the type-strict answer;
  * `is None` / `== None` are exact (null and absent are both None);
  * `len()` of a list exact, of a dict/str Python's len; of anything else no reference;
  * truthiness is Python's bool(), absent is falsy;
  * `key in container`: Python's `in` for dict/list containers, otherwise no reference;
  * arrays: Python indexing/slicing (index out of range -> None), `in`, subset for list operands (as TrackedArray
    documents), len, truthiness, equality with a list parameter.
A whole-query exception is loud, hence allowed by the property (counted per mode and class).

Besides single operations, ~18% of the queries contain several JSON path expressions at once: a tuple in the select
list, a conjunction or disjunction of conditions, or conditions plus an order_by key.  Equal parameter values share one
external variable, and in 60% of these queries the further paths are siblings of the first one (same length, same
parameters in the same positions, a different constant key/index), so that every expression must still read its own
path.  The rows of a data set store the same objects with different key orders, and sub-document operands
(`== {...}`, `!= Json(...)`, parameters) are written with their keys in yet another order (Python dict equality
ignores order).  An order_by key is judged only where Python can order the present keys (all numbers / all strings).

Deviation rules (known-finding discipline): a row that disagrees is re-evaluated with exactly one rule switched on;
it is classified only if that rule reproduces Pony's answer for the row exactly.
"""
import ast, json, os, re, sqlite3

META = {
    'level': 'exploration',
    'engine': 'E1+E3',
    'technique': 'query differential: generated JSON-path / array query operations on generated documents vs the same '
                 'operation on the decoded Python value, per row, on SQLite with JSON1 functions and with the '
                 'py_json_* fallbacks; per-rule deviation re-evaluation',
    'level_text': 'Exploration: real translator (Json*/Array* monads), SQLiteBuilder JSON_*/ARRAY_* builders, '
                  'build_json_path/eval_json_path, json1 and py_json_*/py_array_* functions run on seeded random '
                  'documents (nesting <= 3, hostile keys and values) and queries; results are compared row by row. '
                  'Nothing is proved beyond the executed (query, row) pairs.',
    'level_note': 'Trusted base: the ~150-line reference evaluator in this file, CPython json, and (for the CAST '
                  'deviation rule only) the sqlite3 module evaluating `CAST(? AS t) op ?`. SQLite library 3.40.1.',
    'rule': 'A case = (data set of 8 rows derived from one random base document + int/str/float arrays, operation '
            'kind, path with constant and parameter keys/indexes incl. negative and missing ones, operand; or 2-3 such '
            'path expressions combined in one query as tuple / and / or / order_by, sharing parameters). '
            'Fingerprint = operation kind + path shape (key classes, index signs, const/param) + operand type + '
            'per-row value-class vector; non-trivial if the reference answers of the rows are not all the same '
            '(a filter selects a proper non-empty subset of the rows, a value query yields at least two values).',
    'assumptions': [
        'PostgreSQL cannot run here: its jsonb operators are not executed; only the text produced by the real '
        'PGSQLBuilder.eval_json_path (extracted from source, psycopg2 is not importable) is decoded with a parser of '
        'the documented text[] literal syntax',
        'SQLite 3.40.1 JSON1 semantics (no escape processing in quoted path labels); newer SQLite may differ',
        'documents are JSON-representable, keys are str; the Json/array columns are never SQL NULL',
        'out-of-range array/JSON index is read as None (Pony returns NULL); Python would raise',
        'a whole-query exception is loud and allowed; it is counted per mode, never compared',
    ],
    'shims': [],
    'exhaustive_tiers': [],
}
SHARDS = {'quick': 1, 'thorough': 16}
SHARD_TIMEOUT = {'quick': 300, 'thorough': 1500}

R_KEYESC = 'C29-PATH-KEY-ESCAPING'          # keys with '"' (both modes) / backslash or control chars (JSON1) unreachable
R_CAST = 'C29-COMPARE-CAST-COERCION'        # path OP scalar evaluates CAST(extracted AS type-of-constant)
R_LEN0 = 'C29-LEN-NON-ARRAY-ZERO'           # len() of an object or string is 0
R_FLOAT0 = 'C29-NONZERO-FLOAT-ZERO'         # 0.0 / -0.0 are truthy
R_INTEXT = 'C29-IN-LIST-COMPARES-JSON-TEXT' # path in (consts) compares the JSON text, uncast
R_DWRAP = 'C29-ARRAY-NEG-INDEX-DOUBLE-WRAP' # array index/slice bound < -len wraps a second time
R_PGBS = 'C29-PG-PATH-BACKSLASH'
R_PGNULL = 'C29-PG-PATH-NULL-KEY'
ALL_RULES = (R_KEYESC, R_CAST, R_LEN0, R_FLOAT0, R_INTEXT, R_DWRAP)

MISSING = type('Missing', (), {'__repr__': lambda s: 'MISSING'})()
NOREF = type('NoRef', (), {'__repr__': lambda s: 'NOREF'})()

KEYS_PLAIN = ['a', 'b', 'c', 'd', 'n', 'k']
KEYS_HOSTILE = ['k 1', 'x.y', '', '0', '1', '1', '2', '007', '-1', 'é', '中😀', '$', '$.a', "it's", 'br[0]', '[0]', '*', '#', '.',
                'q"', '"', 'a"b"c', 'back\\slash', '\\', 'nl\nx', 'tab\t', '\x01', '%s', ':p1', '?', 'null', 'NULL',
                ' ', 'a b', "''", 'A' * 70]
SCALARS = [None, None, True, False, 0, 1, 1, 2, -1, 7, 2 ** 31, 2 ** 53 + 1, -2 ** 63, 10 ** 20, 0.0, -0.0, 1.0, 1.5,
           -2.25, 1e100, 0.1, '', 'a', 'abc', 'abd', 'B', '1', '1.5', '0', 'true', 'null', 'é中', 'x y', '"q"',
           "it's", '[]', '{}', ' ']
INT_ITEMS = [0, 1, 2, 3, -1, 7, 2 ** 31, -5]
STR_ITEMS = ['', 'a', 'b', 'abc', 'é', 'x y', '"q"', "it's", 'NULL', '1']
FLT_ITEMS = [0.0, 1.5, -2.25, 1e100, 3.0, 0.1, 2.0]
NROWS = 8


def canon(v):
    return json.dumps(v, sort_keys=True, ensure_ascii=True)


def jtext(v):
    """The JSON text Pony's SQLite converter stores / json_extract returns for v."""
    return json.dumps(v, separators=(',', ':'), sort_keys=True, ensure_ascii=False)


def vclass(v):
    if v is MISSING: return 'missing'
    if v is NOREF: return 'noref'
    if v is None: return 'null'
    if isinstance(v, bool): return 'bool'
    if isinstance(v, int): return 'int'
    if isinstance(v, float): return 'float'
    if isinstance(v, str): return 'str'
    if isinstance(v, list): return 'list' if v else 'elist'
    return 'dict' if v else 'edict'


def kclass(k):
    if isinstance(k, int): return 'i+' if k >= 0 else 'i-'
    if '"' in k: return 'kq'
    if any(ch == '\\' or ord(ch) < 0x20 for ch in k): return 'kesc'
    if re.match(r'^[A-Za-z_]\w*$', k, re.ASCII): return 'kid'
    return 'kodd'


# ----------------------------------------------------------------------------------------------------------------
# reference evaluator

def key_breaks(k, mode, for_contains):
    if '"' in k: return True
    if mode == 'json1' and not for_contains and any(ch == '\\' or ord(ch) < 0x20 for ch in k): return True
    return False


def walk(doc, path, mode, rules, for_contains=False):
    cur = doc
    for k in path:
        if isinstance(k, str):
            if R_KEYESC in rules and key_breaks(k, mode, for_contains): return MISSING
            if isinstance(cur, dict) and k in cur: cur = cur[k]
            else: return MISSING
        else:
            if isinstance(cur, list):
                if -len(cur) <= k < len(cur): cur = cur[k]
                else: return MISSING
            elif isinstance(cur, str): return NOREF          # Python would index into the text
            else: return MISSING
    return cur


def num_bracket(py, v, c, op):
    """Admissible answers for a comparison of two present scalars of numeric/bool kind."""
    if type(v) is type(c): return [py]
    strict = {'==': False, '!=': True}.get(op, py)
    return [py] if strict == py else [py, strict]


PYOPS = {'==': lambda a, b: a == b, '!=': lambda a, b: a != b, '<': lambda a, b: a < b, '<=': lambda a, b: a <= b,
         '>': lambda a, b: a > b, '>=': lambda a, b: a >= b}


def scalar_cmp(v, op, c):
    """v: value from the document (None for null/absent), c: scalar operand. -> NOREF or list of admissible bools."""
    if c is None:
        return [v is None] if op == '==' else [v is not None] if op == '!=' else NOREF
    if v is None:
        return [False] if op == '==' else [False, True] if op == '!=' else NOREF
    if isinstance(v, (list, dict)):
        return [False] if op == '==' else [True] if op == '!=' else NOREF
    vs, cs = isinstance(v, str), isinstance(c, str)
    if vs != cs:
        return [False] if op == '==' else [True] if op == '!=' else NOREF
    py = PYOPS[op](v, c)
    if vs: return [py]
    return num_bracket(py, v, c, op)


class SqlEval(object):
    """SQLite itself evaluates the CAST deviation rule: CAST(<what json_extract returns> AS <type of constant>) op const."""
    def __init__(self):
        self.con = sqlite3.connect(':memory:')
        self.cache = {}

    def extracted(self, v):
        if v is None or v is MISSING: return None
        if isinstance(v, bool): return int(v)
        if isinstance(v, int):
            if not -2 ** 63 <= v < 2 ** 63: return float(v)  # JSON1 turns it into a REAL (the fallback raises: not judged)
            return v
        if isinstance(v, (float, str)): return v
        return jtext(v)

    def cmp(self, v, op, c):
        x = self.extracted(v)
        if x is NOREF: return NOREF
        if isinstance(c, int) and not isinstance(c, bool) and not -2 ** 63 <= c < 2 ** 63: return NOREF
        t = 'text' if isinstance(c, str) else 'real' if isinstance(c, float) else 'integer'
        sqlop = {'==': '=', '!=': '<>'}.get(op, op)
        key = (t, sqlop, type(x).__name__, x, type(c).__name__, c)
        if key not in self.cache:
            r = self.con.execute('select CAST(? AS %s) %s ?' % (t, sqlop), (x, int(c) if isinstance(c, bool) else c)).fetchone()[0]
            self.cache[key] = bool(r) if r is not None else False
        return [self.cache[key]]


def eff(i, n):
    return i if i is None or i >= 0 else n + i


def expected(q, row, mode, rules, sqlev):
    """-> NOREF or list of admissible results for this row."""
    kind = q['kind']
    if kind == 'multi':
        parts = q['parts'][:-1] if q['comb'] == 'order' else q['parts']
        subs = [expected(c, row, mode, rules, sqlev) for c in parts]
        if any(x is NOREF for x in subs): return NOREF
        combos = [()]
        for x in subs: combos = [c + (v,) for c in combos for v in x][:64]
        if q['comb'] == 'tuple':
            out = []
            for c in combos:
                if c not in out: out.append(c)
            return out
        fn = any if q['comb'] == 'or' else all
        return sorted({fn(c) for c in combos})
    if kind.startswith('arr_'):
        arr = row[q['attr']]
        n = len(arr)
        def val(x):            # operand: ('c', v) constant/param or ('attr', name)
            return row[x[1]] if x[0] == 'attr' else x[1]
        if kind in ('arr_index', 'arr_index_cmp'):
            i = val(q['index'])
            if R_DWRAP in rules:
                try: v = arr[eff(i, n)]
                except IndexError: v = None
            else:
                v = arr[i] if -n <= i < n else None
            if kind == 'arr_index': return [v]
            return scalar_cmp(v, q['op'], q['operand'])
        if kind == 'arr_slice':
            a = None if q['start'] is None else val(q['start'])
            b = None if q['stop'] is None else val(q['stop'])
            if R_DWRAP in rules: return [arr[eff(a, n):eff(b, n)]]
            return [arr[a:b]]
        if kind == 'arr_in':
            r = val(q['item']) in arr
            return [r != q['neg']]
        if kind == 'arr_subset':
            r = set(q['items']).issubset(set(arr))
            return [r != q['neg']]
        if kind == 'arr_len': return [n]
        if kind == 'arr_truth': return [bool(arr) != q['neg']]
        if kind == 'arr_eq':
            r = arr == q['operand']
            return [r if q['op'] == '==' else not r]
        raise AssertionError(kind)
    doc = row['data']
    v = walk(doc, q['path'], mode, rules, for_contains=(kind == 'contains'))
    if v is NOREF: return NOREF
    pv = None if v is MISSING else v
    if kind == 'val':
        return [pv]
    if kind == 'cmp':
        if R_CAST in rules and q['operand'] is not None: return sqlev.cmp(v, q['op'], q['operand'])
        return scalar_cmp(pv, q['op'], q['operand'])
    if kind == 'cmp_json':
        c = q['operand']
        py = pv == c
        strict = canon(pv) == canon(c)
        out = [py] if py == strict else [py, strict]
        return out if q['op'] == '==' else [not x for x in out]
    if kind == 'contains':
        if not isinstance(pv, (list, dict)):
            # Python would raise; under a deviation rule the path may be (wrongly) absent: Pony then answers "not in"
            return NOREF if not rules else [False != q['neg']]
        key = q['key']
        py = key in pv
        if isinstance(pv, list) and not isinstance(key, str):
            strict = any(canon(x) == canon(key) for x in pv)
            out = [py] if py == strict else [py, strict]
        else: out = [py]
        return [x != q['neg'] for x in out]
    if kind == 'len':
        if isinstance(pv, list): return [len(pv)]
        if isinstance(pv, (dict, str)): return [0] if R_LEN0 in rules else [len(pv)]
        return NOREF if not rules else [0]      # absent (only reachable under a deviation rule): Pony answers 0
    if kind == 'truth':
        r = bool(pv)
        if R_FLOAT0 in rules and isinstance(pv, float) and pv == 0.0: r = True
        return [r != q['neg']]
    if kind == 'in_consts':
        consts = q['consts']
        if R_INTEXT in rules:
            r = jtext(pv) in [c for c in consts if isinstance(c, str)]
            return [r != q['neg']]
        if pv is None:                       # Python: None in (...) is False; SQL: unknown, also under NOT IN
            return [False, True] if q['neg'] else [False]
        if isinstance(pv, (list, dict)): out = [False]
        else:
            py = any(pv == c for c in consts)
            strict = any(canon(pv) == canon(c) for c in consts)
            out = [py] if py == strict else [py, strict]
        return [x != q['neg'] for x in out]
    raise AssertionError(kind)


def match(got, admissible):
    """Python equality against any admissible answer (True == 1 and 1 == 1.0 are type-only differences, accepted)."""
    for e in admissible:
        try:
            if e == got: return True
        except Exception: pass
    return False


# ----------------------------------------------------------------------------------------------------------------
# data generation

def gen_scalar(rng):
    return rng.choice(SCALARS)


def gen_key(rng):
    return rng.choice(KEYS_PLAIN) if rng.random() < 0.55 else rng.choice(KEYS_HOSTILE)


def gen_doc(rng, depth, kind=None):
    kind = kind or rng.choice(('dict', 'dict', 'list'))
    n = rng.choice((1, 2, 3, 3, 4, 5))
    def child():
        if depth > 1 and rng.random() < 0.55: return gen_doc(rng, depth - 1)
        if rng.random() < 0.12: return rng.choice(([], {}))
        return gen_scalar(rng)
    if kind == 'list': return [child() for _ in range(n)]
    keys = []
    while len(keys) < n:
        k = gen_key(rng)
        if k not in keys: keys.append(k)
    return {k: child() for k in keys}


def vary(rng, node, hetero, top=True):
    """A row's variant of the base document: same shape, values redrawn, parts dropped/replaced."""
    r = rng.random()
    if not top:
        if r < 0.10: return gen_scalar(rng)
        if r < 0.14 and isinstance(node, (list, dict)): return type(node)()
        if r < 0.18 and hetero and isinstance(node, (list, dict)):
            return gen_doc(rng, 1, 'list' if isinstance(node, dict) else 'dict')
    if isinstance(node, dict):
        out = {}
        items = list(node.items())
        if rng.random() < 0.6: rng.shuffle(items)           # rows store the same object with different key orders
        for k, v in items:
            if rng.random() < 0.12: continue
            out[k] = vary(rng, v, hetero, False)
        return out
    if isinstance(node, list):
        out = [vary(rng, v, hetero, False) for v in node]
        r = rng.random()
        if r < 0.15 and out: out.pop()
        elif r < 0.3: out.append(gen_scalar(rng))
        return out
    # scalar leaf: keep the base value half of the time so that equalities hit
    return node if rng.random() < 0.5 else gen_scalar(rng)


def gen_dataset(rng):
    depth = rng.choice((1, 2, 2, 3, 3))
    top = 'list' if rng.random() < 0.12 else 'dict'
    base = gen_doc(rng, depth, top)
    hetero = rng.random() < 0.25
    rows = []
    for i in range(NROWS):
        doc = base if i == 0 else vary(rng, base, hetero)
        if hetero and i == NROWS - 1 and rng.random() < 0.5:
            doc = gen_doc(rng, 1, 'list' if top == 'dict' else 'dict')
        def arr(items):
            return [rng.choice(items) for _ in range(rng.choice((0, 1, 2, 3, 3, 4, 5)))]
        rows.append({'id': i, 'data': doc, 'ia': arr(INT_ITEMS), 'sa': arr(STR_ITEMS), 'fa': arr(FLT_ITEMS),
                     'n': rng.choice((-7, -3, -2, -1, 0, 0, 1, 2, 3, 6)), 'm': rng.choice((-2, -1, 0, 1, 2, 3, 4))})
    return {'base': base, 'hetero': hetero, 'rows': rows}


def all_paths(node, path=()):
    yield path
    if isinstance(node, dict):
        for k, v in node.items():
            for p in all_paths(v, path + (k,)): yield p
    elif isinstance(node, list):
        for i, v in enumerate(node):
            for p in all_paths(v, path + (i,)): yield p


def gen_path(rng, ds, want=None, minlen=1):
    base = ds['base']
    paths = [p for p in all_paths(base) if len(p) >= minlen]
    if want is not None:
        w = [p for p in paths if isinstance(walk(base, p, 'py', ()), want)]
        if w and rng.random() < 0.8: paths = w
    if not paths: paths = [(gen_key(rng),)]
    path = list(rng.choice(paths))
    r = rng.random()
    if r < 0.10:                                   # one step further than the base document goes
        path.append(rng.choice((0, 1, -1, gen_key(rng))))
    elif r < 0.18 and path:                        # a sibling key / index that may not exist
        path[-1] = rng.choice((gen_key(rng), 0, 5, -1, -2, -6)) if rng.random() < 0.7 else path[-1]
    # digit-only keys vs indexes: spell a digit key as an index or an index as a digit key (must select nothing)
    if rng.random() < 0.15:
        js = [j for j, k in enumerate(path) if isinstance(k, int) or (isinstance(k, str) and re.match(r'^-?\d+$', k))]
        if js:
            j = rng.choice(js)
            path[j] = str(path[j]) if isinstance(path[j], int) else int(path[j])
    # negative spelling of list indexes
    cur = base
    for j, k in enumerate(path):
        if isinstance(k, int) and isinstance(cur, list) and 0 <= k < len(cur) and rng.random() < 0.3:
            path[j] = k - len(cur)
        try: cur = cur[k]
        except Exception: break
    return path


def column_values(ds, path):
    out = []
    for row in ds['rows']:
        v = walk(row['data'], path, 'py', ())
        if v is not MISSING and v is not NOREF: out.append(v)
    return out


def confusable(rng, v):
    if isinstance(v, bool): return rng.choice((int(v), v, not v))
    if isinstance(v, int): return rng.choice((v, v, v + 1, float(v), str(v), v + 0.5, bool(v) if v in (0, 1) else v))
    if isinstance(v, float): return rng.choice((v, v, int(v) if abs(v) < 1e15 else v, repr(v), v + 1))
    if isinstance(v, str): return rng.choice((v, v, v + 'x', v.upper(), 0, 1))
    return v


def gen_scalar_operand(rng, ds, path, allow_none=True):
    vals = [v for v in column_values(ds, path) if not isinstance(v, (list, dict)) and v is not None]
    r = rng.random()
    if vals and r < 0.75:
        c = confusable(rng, rng.choice(vals))
    elif r < 0.82 and allow_none: c = None
    else:
        c = rng.choice([s for s in SCALARS if s is not None])
    if isinstance(c, int) and not isinstance(c, bool) and not -2 ** 63 <= c < 2 ** 63: c = 7
    if isinstance(c, float) and c != c: c = 1.5
    return c


JSON_KINDS = ['val', 'val', 'val', 'cmp', 'cmp', 'cmp', 'cmp', 'cmp_json', 'contains', 'contains', 'len', 'truth', 'truth',
              'in_consts', 'concat']
ARR_KINDS = ['arr_index', 'arr_index', 'arr_slice', 'arr_slice', 'arr_in', 'arr_subset', 'arr_len', 'arr_truth',
             'arr_eq', 'arr_index_cmp']


def gen_query(rng, ds):
    q = gen_query0(rng, ds)
    q['form_src'] = 'gen' if rng.random() < 0.75 or (q['kind'] == 'multi' and q['comb'] == 'order') else 'str'
    return q


def shuffled(rng, v):
    """The same JSON value with the keys of every object written in another order."""
    if isinstance(v, dict):
        ks = list(v)
        rng.shuffle(ks)
        return {k: shuffled(rng, v[k]) for k in ks}
    if isinstance(v, list): return [shuffled(rng, x) for x in v]
    return v


FILTER_KINDS = ('cmp', 'cmp', 'cmp', 'truth', 'contains', 'cmp_json', 'in_consts')
VALUE_KINDS = ('val', 'val', 'val', 'len')


def sibling_path(rng, ds, path, params):
    """Another path of the same length with the same parameter positions (and values) that differs from `path` in a
    constant element: a sibling key/index at that level of the base document, or an arbitrary one."""
    consts = [j for j, isp in enumerate(params) if not isp]
    if not consts: return None
    j = rng.choice(consts)
    cur = ds['base']
    try:
        for k in path[:j]: cur = cur[k]
    except Exception: cur = None
    if isinstance(cur, dict): cands = [k for k in cur if k != path[j]]
    elif isinstance(cur, list): cands = [i for i in range(len(cur)) if i != path[j]]
    else: cands = []
    new = list(path)
    if cands and rng.random() < 0.85: new[j] = rng.choice(cands)
    else: new[j] = (rng.choice([k for k in KEYS_PLAIN if k != path[j]]) if isinstance(path[j], str)
                    else rng.choice([i for i in (0, 1, 2, 3) if i != path[j]]))
    return new


def gen_multi(rng, ds):
    """One query with several JSON path expressions: a tuple in the select list, a conjunction/disjunction of
    conditions, or a condition plus an order_by key.  Half of the time the further expressions are siblings of the
    first one: same length, same parameters in the same positions, different constant keys/indexes."""
    comb = rng.choice(('tuple', 'tuple', 'and', 'and', 'or', 'order'))
    n = rng.choice((2, 2, 3))
    kinds = VALUE_KINDS if comb == 'tuple' else FILTER_KINDS
    first = gen_json_q(rng, ds, rng.choice(kinds))
    related = rng.random() < 0.6 and len(first['path']) >= 2
    if related:
        # at least one parameter and one constant position
        m = first['params']
        if all(m) or not any(m):
            j = rng.randrange(len(m))
            m = [(i == j) for i in range(len(m))] if not any(m) else [i != j for i in range(len(m))]
            first['params'] = m
    parts = [first]
    while len(parts) < n:
        kind = rng.choice(kinds)
        if comb == 'order' and len(parts) == n - 1: kind = 'val'
        c = None
        if related:
            sp = sibling_path(rng, ds, first['path'], first['params'])
            if sp is not None: c = gen_json_q(rng, ds, kind, path=sp, params=list(first['params']))
        if c is None and comb == 'order' and kind == 'val':
            c = gen_json_q(rng, ds, 'val', path=gen_path(rng, ds, want=(int, float, str), minlen=1))
        parts.append(c or gen_json_q(rng, ds, kind))
    if comb == 'order' and parts[-1]['kind'] != 'val':
        parts[-1] = gen_json_q(rng, ds, 'val', path=parts[-1]['path'], params=parts[-1]['params'])
    return {'kind': 'multi', 'comb': comb, 'parts': parts, 'related': related}


def gen_query0(rng, ds):
    r = rng.random()
    if r < 0.27: return gen_arr_query(rng, ds)
    if r < 0.45: return gen_multi(rng, ds)
    return gen_json_q(rng, ds, rng.choice(JSON_KINDS))


def gen_json_q(rng, ds, kind, path=None, params=None):
    q = {'kind': kind}
    if path is not None:
        q['path'] = list(path)
    elif kind in ('contains', 'len'):
        q['path'] = gen_path(rng, ds, want=(list, dict), minlen=0)
    elif kind == 'cmp_json':
        q['path'] = gen_path(rng, ds, want=(list, dict), minlen=1)
    elif kind == 'concat':
        q['path'] = gen_path(rng, ds, want=(list, dict), minlen=0)
    else:
        q['path'] = gen_path(rng, ds, minlen=1)
    # which path steps are passed as parameters
    q['params'] = list(params) if params is not None else [rng.random() < 0.3 for _ in q['path']]
    if kind == 'cmp':
        q['op'] = rng.choice(('==', '==', '!=', '<', '<=', '>', '>='))
        q['operand'] = gen_scalar_operand(rng, ds, q['path'])
        if q['operand'] is None: q['op'] = rng.choice(('==', '!=', 'is', 'is not'))
        q['operand_param'] = rng.random() < 0.3 and q['operand'] is not None
    elif kind == 'cmp_json':
        vals = [v for v in column_values(ds, q['path']) if isinstance(v, (list, dict))]
        c = rng.choice(vals) if vals and rng.random() < 0.8 else gen_doc(rng, 1)
        if rng.random() < 0.25 and c:
            c = json.loads(json.dumps(c))
            if isinstance(c, list): c[rng.randrange(len(c))] = gen_scalar(rng)
            else: c[rng.choice(list(c))] = gen_scalar(rng)
        # the operand is written with its object keys in another order than any stored document has them
        q['operand'] = shuffled(rng, json.loads(json.dumps(c)))
        q['op'] = rng.choice(('==', '!='))
        q['form'] = rng.choice(('Json', 'Json', 'param') if isinstance(c, list) else ('literal', 'Json', 'param'))
    elif kind == 'contains':
        cont = [v for v in column_values(ds, q['path']) if isinstance(v, (list, dict))]
        pool = []
        for c in cont:
            pool.extend(c.keys() if isinstance(c, dict) else [x for x in c if isinstance(x, (str, int, float)) and not isinstance(x, bool)])
        key = rng.choice(pool) if pool and rng.random() < 0.7 else rng.choice((gen_key(rng), 1, 'abc', 1.5))
        if isinstance(key, int) and not -2 ** 63 <= key < 2 ** 63: key = 1
        q['key'] = key
        q['key_param'] = not isinstance(key, str) or rng.random() < 0.3      # non-string keys must be parameters
        q['neg'] = rng.random() < 0.3
    elif kind == 'truth':
        q['neg'] = rng.random() < 0.4
    elif kind == 'in_consts':
        vals = [v for v in column_values(ds, q['path']) if not isinstance(v, (list, dict)) and v is not None]
        consts = []
        for _ in range(rng.choice((1, 2, 3))):
            c = confusable(rng, rng.choice(vals)) if vals and rng.random() < 0.7 else rng.choice([s for s in SCALARS if s is not None])
            if isinstance(c, bool): c = int(c)
            if isinstance(c, int) and not -2 ** 63 <= c < 2 ** 63: c = 7
            consts.append(c)
        q['consts'] = consts
        q['neg'] = rng.random() < 0.3
    elif kind == 'concat':
        q['operand'] = gen_doc(rng, 1, 'dict')
    return q


def gen_arr_query(rng, ds):
    kind = rng.choice(ARR_KINDS)
    attr = rng.choice(('ia', 'ia', 'sa', 'fa'))
    items = {'ia': INT_ITEMS, 'sa': STR_ITEMS, 'fa': FLT_ITEMS}[attr]
    q = {'kind': kind, 'attr': attr}
    def idx():
        r = rng.random()
        if r < 0.2: return ('attr', rng.choice(('n', 'm')))
        return ('p' if r < 0.45 else 'c', rng.choice((0, 0, 1, 2, 3, 4, 5, 8, -1, -1, -2, -3, -4, -5, -6, -9)))
    if kind in ('arr_index', 'arr_index_cmp'):
        q['index'] = idx()
        if kind == 'arr_index_cmp':
            q['op'] = rng.choice(('==', '!=', '<', '>='))
            q['operand'] = rng.choice(items)
    elif kind == 'arr_slice':
        q['start'] = None if rng.random() < 0.3 else idx()
        q['stop'] = None if rng.random() < 0.3 else idx()
    elif kind == 'arr_in':
        q['item'] = ('attr', 'n') if attr == 'ia' and rng.random() < 0.2 else (rng.choice(('c', 'p')), rng.choice(items))
        q['neg'] = rng.random() < 0.3
    elif kind == 'arr_subset':
        q['items'] = [rng.choice(items) for _ in range(rng.choice((0, 1, 2, 2, 3)))]
        q['form'] = rng.choice(('c', 'p'))
        q['neg'] = rng.random() < 0.3
    elif kind == 'arr_truth':
        q['neg'] = rng.random() < 0.4
    elif kind == 'arr_eq':
        rows = ds['rows']
        q['operand'] = list(rng.choice(rows)[attr]) if rng.random() < 0.7 else [rng.choice(items)]
        q['op'] = rng.choice(('==', '!='))
    return q


# ----------------------------------------------------------------------------------------------------------------
# query text

def same_value(a, b):
    return type(a) is type(b) and canon(a) == canon(b)


def render(q):
    """-> (query source, locals dict, is_filter, suffix).  Equal parameter values share one name, so several path
    expressions of one query naturally use the same external variable."""
    loc = {}
    def param(v, prefix='x'):
        for name, old in loc.items():
            if name.startswith(prefix) and same_value(old, v): return name
        name = '%s%d' % (prefix, len(loc) + 1)
        loc[name] = v
        return name
    if q['kind'] == 'multi':
        parts = [render_part(c, param) for c in q['parts']]
        comb = q['comb']
        if comb == 'tuple':
            return '(p.id, %s) for p in P' % ', '.join(t for t, f in parts), loc, False, ''
        if comb in ('and', 'or'):
            return 'p.id for p in P if %s' % (' %s ' % comb).join('(%s)' % t for t, f in parts), loc, True, ''
        if comb == 'order':
            cond = ' and '.join('(%s)' % t for t, f in parts[:-1])
            return 'p for p in P if %s' % cond, loc, True, '.order_by(lambda p: %s)' % parts[-1][0]
        raise AssertionError(comb)
    text, is_filter = render_part(q, param)
    if is_filter: return 'p.id for p in P if %s' % text, loc, True, ''
    return '(p.id, %s) for p in P' % text, loc, False, ''


def render_part(q, param):
    """-> (expression text, is it a condition)."""
    kind = q['kind']
    if kind.startswith('arr_'):
        a = 'p.%s' % q['attr']
        def operand(x):
            if x is None: return ''
            if x[0] == 'attr': return 'p.%s' % x[1]
            if x[0] == 'p': return param(x[1], 'i')
            return repr(x[1])
        if kind == 'arr_index': return '%s[%s]' % (a, operand(q['index'])), False
        if kind == 'arr_index_cmp': return '%s[%s] %s %r' % (a, operand(q['index']), q['op'], q['operand']), True
        if kind == 'arr_slice': return '%s[%s:%s]' % (a, operand(q['start']), operand(q['stop'])), False
        if kind == 'arr_in': return '%s %s %s' % (operand(q['item']), 'not in' if q['neg'] else 'in', a), True
        if kind == 'arr_subset':
            items = repr(q['items']) if q['form'] == 'c' else param(q['items'], 'z')
            return '%s %s %s' % (items, 'not in' if q['neg'] else 'in', a), True
        if kind == 'arr_len': return 'len(%s)' % a, False
        if kind == 'arr_truth': return '%s%s' % ('not ' if q['neg'] else '', a), True
        if kind == 'arr_eq': return '%s %s %s' % (a, q['op'], param(q['operand'], 'z')), True
        raise AssertionError(kind)
    e = 'p.data' + ''.join('[%s]' % (param(k, 'k') if isp else repr(k)) for k, isp in zip(q['path'], q['params']))
    if kind == 'val': return e, False
    if kind == 'cmp':
        c = q['operand']
        cs = param(c, 'c') if q.get('operand_param') else repr(c)
        return '%s %s %s' % (e, q['op'], cs), True
    if kind == 'cmp_json':
        c = q['operand']
        if q['form'] == 'literal': cs = repr(c)
        elif q['form'] == 'Json': cs = 'Json(%r)' % (c,)
        else: cs = param(c, 'j')
        return '%s %s %s' % (e, q['op'], cs), True
    if kind == 'contains':
        ks = param(q['key'], 'key') if q['key_param'] else repr(q['key'])
        return '%s %s %s' % (ks, 'not in' if q['neg'] else 'in', e), True
    if kind == 'len': return 'len(%s)' % e, False
    if kind == 'truth': return '%s%s' % ('not ' if q['neg'] else '', e), True
    if kind == 'in_consts':
        return '%s %s (%s,)' % (e, 'not in' if q['neg'] else 'in', ', '.join(repr(c) for c in q['consts'])), True
    if kind == 'concat': return '%s | %s' % (e, param(q['operand'], 'j')), False
    raise AssertionError(kind)


def shape_fp(q):
    kind = q['kind']
    if kind == 'multi':
        return ['multi', q['comb'], q.get('related'), q.get('form_src'), [shape_fp(c) for c in q['parts']]]
    if kind.startswith('arr_'):
        def o(x):
            if x is None: return None
            return (x[0], ('neg' if x[1] < 0 else 'pos') if isinstance(x[1], int) and x[0] != 'attr' else x[1] if x[0] == 'attr' else type(x[1]).__name__)
        return [kind, q.get('form_src'), q['attr'], o(q.get('index')), o(q.get('start')), o(q.get('stop')), q.get('op'), q.get('neg'),
                q.get('form'), len(q.get('items', ())), o(q.get('item'))]
    return [kind, q.get('form_src'), [kclass(k) for k in q['path']], q.get('params'), q.get('op'), vclass(q.get('operand')) if 'operand' in q else None,
            q.get('operand_param'), q.get('form'), q.get('neg'), vclass(q.get('key')) if 'key' in q else None, q.get('key_param'),
            [vclass(c) for c in q.get('consts', ())]]


# ----------------------------------------------------------------------------------------------------------------
# environment

FUNC_RE = re.compile(r'(?<![A-Za-z0-9_])(py_json_\w+|py_array_\w+|py_make_array|json_extract|json_array_length)\s*\(')


class Env(object):
    def __init__(self, ctx):
        from pony import orm
        from vlib.dbapi import Recorder
        self.orm = orm
        self.modes = {}
        for mode in ('json1', 'py'):
            rec = Recorder()
            db = orm.Database()

            class P(db.Entity):
                id = orm.PrimaryKey(int)
                data = orm.Optional(orm.Json)
                ia = orm.Optional(orm.IntArray)
                sa = orm.Optional(orm.StrArray)
                fa = orm.Optional(orm.FloatArray)
                n = orm.Required(int)
                m = orm.Required(int)
            fn = os.path.join(ctx.tmp(), 'c29-%d-%s.sqlite' % (ctx.shard, mode))
            db.bind('sqlite', fn, create_db=True, factory=rec.factory())
            if mode == 'py':
                # SQLiteProvider.inspect_connection sets the flag at bind time; SQLiteBuilder.__init__ copies it from
                # the provider for every statement it builds, so it is switched before the first query is translated
                db.provider.json1_available = False
            db.generate_mapping(create_tables=True)
            self.modes[mode] = {'db': db, 'P': P, 'rec': rec}
        assert self.modes['json1']['db'].provider.json1_available is True, 'JSON1 not available in this SQLite build'
        assert self.modes['py']['db'].provider.json1_available is False

    def load(self, ds):
        orm = self.orm
        for mode, m in self.modes.items():
            P = m['P']
            with orm.db_session:
                P.select().delete(bulk=True)
                for r in ds['rows']:
                    P(id=r['id'], data=json.loads(json.dumps(r['data'])), ia=list(r['ia']), sa=list(r['sa']),
                      fa=list(r['fa']), n=r['n'], m=r['m'])

    def run_query(self, mode, src, loc, form='gen', suffix=''):
        """form 'gen': the query is a real generator expression (compiled Python, decompiled by Pony; numeric literals
        incl. negative ones are constants); form 'str': query text with globals/locals (there `-1` is an external
        expression, i.e. a parameter)."""
        m = self.modes[mode]
        orm = self.orm
        mark = m['rec'].mark()
        g = {'P': m['P'], 'Json': orm.Json, 'len': len, 'select': orm.select}
        try:
            with orm.db_session:
                if form == 'gen':
                    g.update(loc)
                    res = eval('select(%s)%s[:]' % (src, suffix), g)
                else:
                    assert not suffix
                    res = orm.select(src, g, dict(loc))[:]
                res = [r.id if isinstance(r, m['P']) else r for r in res]
                res = [tuple(json.loads(json.dumps(x)) if isinstance(x, (list, dict)) else x for x in r)
                       if isinstance(r, tuple) else r for r in res]
            err = None
        except Exception as e:
            res, err = None, e
        sqls = [e['sql'] for e in m['rec'].statements(since=mark) if e['sql'].lstrip().upper().startswith('SELECT')]
        m['rec'].clear()
        return res, err, sqls

    def close(self):
        for m in self.modes.values():
            try: m['db'].disconnect()
            except Exception: pass


# ----------------------------------------------------------------------------------------------------------------
# judging

def judge_query(ctx, env, sqlev, ds, q, counts_only=False):
    src, loc, is_filter, suffix = render(q)
    kind = q['kind'] if q['kind'] != 'multi' else 'multi_' + q['comb']
    verdicts = {}
    form = q.get('form_src', 'gen')
    ctx.count('queries.form.' + form)
    if kind.startswith('multi'):
        ctx.count('multi.queries')
        if q.get('related'): ctx.count('multi.sibling_paths_sharing_params')
    for mode in ('json1', 'py'):
        res, err, sqls = env.run_query(mode, src, loc, form, suffix)
        for s in sqls:
            for f in FUNC_RE.findall(s):
                ctx.count('sqlfunc.%s.%s' % (mode, f))
            if mode == 'py' and re.search(r'(?<![A-Za-z0-9_])(json_extract|json_array_length)\s*\(', s):
                ctx.count('py_mode_used_json1_function')
            if mode == 'json1' and re.search(r'py_json_(extract|array_length)\s*\(', s):
                ctx.count('json1_mode_used_fallback_function')
        if err is not None:
            name = type(err).__name__
            msg = str(err)
            if name == 'OperationalError':
                name += ':' + ('json_path_error' if 'JSON path error' in msg else 'udf_raised' if 'user-defined function' in msg
                               else re.sub(r'[^A-Za-z ]', '', msg)[:30].strip().replace(' ', '_'))
            ctx.count('outcome.pony_raised')
            ctx.count('raised.%s.%s.%s' % (mode, kind, name))
            verdicts[mode] = ('raised', name, str(err)[:120])
            continue
        ctx.count('executed.%s' % mode)
        ctx.count('executed_kind.%s.%s' % (mode, kind))
        if is_filter:
            ids = set(res)
            got = {r['id']: (r['id'] in ids) for r in ds['rows']}
            extra = ids - set(got)
        else:
            got = {}
            extra = set()
            for t in res:
                if t[0] in got: extra.add(('dup', t[0]))
                got[t[0]] = t[1] if len(t) == 2 else tuple(t[1:])
            for r in ds['rows']:
                if r['id'] not in got: extra.add(('absent', r['id']))
        rows_out = []
        if extra:
            rows_out.append({'row': None, 'problem': 'result rows do not correspond to table rows: %r' % sorted(map(repr, extra))[:5],
                             'verdict': 'violation'})
        vec = []
        refvals = []
        for r in ds['rows']:
            if r['id'] not in got: continue
            g = got[r['id']]
            exp = expected(q, r, mode, frozenset(), sqlev)
            if exp is not NOREF: refvals.append(canon(exp[0]))
            if exp is NOREF:
                ctx.count('rows.noref'); vec.append('n'); continue
            ctx.count('rows.judged')
            ctx.count('rows.judged.%s' % mode)
            if match(g, exp):
                ctx.count('rows.agree'); ctx.count('rows.agree.%s' % kind)
                if len(exp) > 1: ctx.count('rows.agree_bracketed')
                vec.append('a'); continue
            explained = None
            for rule in ALL_RULES:
                e2 = expected(q, r, mode, frozenset((rule,)), sqlev)
                if e2 is not NOREF and e2 != exp and match(g, e2):      # the rule changes the answer set so that it admits Pony's
                    explained = (rule,); break
            if explained is None:
                e3 = expected(q, r, mode, frozenset(ALL_RULES), sqlev)
                if e3 is not NOREF and e3 != exp and match(g, e3):
                    need = tuple(rule for rule in ALL_RULES
                                 if not match(g, _or_empty(expected(q, r, mode, frozenset(set(ALL_RULES) - {rule}), sqlev))))
                    explained = need or None
            w = {'query': src, 'locals': loc, 'mode': mode, 'row': r, 'pony': g, 'admissible': exp, 'q': q, 'form': form}
            if explained:
                vec.append('k')
                rows_out.append({'verdict': 'finding', 'rules': explained, 'w': w})
            else:
                vec.append('V')
                rows_out.append({'verdict': 'violation', 'w': w})
        if kind == 'multi_order' and not any(ro['verdict'] == 'violation' for ro in rows_out):
            oc = order_check(q['parts'][-1], ds, res, mode)
            ctx.count('order_check.' + oc[0])
            if oc[0] in ('finding', 'violation'):
                w = {'query': src + suffix, 'locals': loc, 'mode': mode, 'row': {'id': None, 'data': None}, 'pony': res,
                     'admissible': oc[1], 'q': q, 'form': form}
                rows_out.append({'verdict': oc[0], 'rules': (R_KEYESC,), 'w': w})
        verdicts[mode] = ('ok', vec, rows_out, refvals)
    return src, loc, is_filter, verdicts


def order_check(part, ds, ids, mode):
    """order_by(<json path>): the returned rows, read in order, must have non-decreasing keys.  Only judged when the
    present keys are all numbers or all strings (Python can order those); absent/null keys are left out (their place is
    SQL's choice), ties may come in any order."""
    rows = {r['id']: r for r in ds['rows']}
    def keys(rules):
        out = []
        for i in ids:
            v = walk(rows[i]['data'], part['path'], mode, rules)
            if v is NOREF: return None
            if v is MISSING or v is None: continue
            out.append(v)
        return out
    ks = keys(frozenset())
    if ks is None: return ('noref', None)
    if any(isinstance(v, int) and not isinstance(v, bool) and not -2 ** 53 <= v <= 2 ** 53 for v in ks): return ('noref', None)
    num = all(isinstance(v, (int, float)) and not isinstance(v, bool) for v in ks)
    txt = all(isinstance(v, str) for v in ks)
    if len(ks) < 2 or not (num or txt): return ('noref', None)
    if all(a <= b for a, b in zip(ks, ks[1:])): return ('agree', None)
    k2 = keys(frozenset((R_KEYESC,)))
    if k2 is not None and len(k2) < 2: return ('finding', ks)       # the path resolves to nothing under the listed rule
    return ('violation', ks)


def _or_empty(x):
    return [] if x is NOREF else x


def slim(w):
    """Witness as JSON text plus a few readable fields (vlib.common.jsonable flattens deep nesting)."""
    return {'query': w['query'], 'locals': json.dumps(w['locals'], default=repr), 'mode': w['mode'], 'form': w.get('form'),
            'row_json': json.dumps(w['row']), 'pony_result': json.dumps(w['pony'], default=repr),
            'admissible': json.dumps(w['admissible'], default=repr), 'q_json': json.dumps(w['q'])}


def run_dataset(ctx, env, sqlev, rng, nqueries, sample=False):
    ds = gen_dataset(rng)
    env.load(ds)
    ctx.count('datasets')
    for qi in range(nqueries):
        q = gen_query(rng, ds)
        src, loc, is_filter, verdicts = judge_query(ctx, env, sqlev, ds, q)
        vclasses = []
        if not q['kind'].startswith('arr_') and q['kind'] != 'multi':
            vclasses = sorted({vclass(walk(r['data'], q['path'], 'py', ())) for r in ds['rows']})
        nontrivial = False
        for mode, v in verdicts.items():
            if v[0] != 'ok': continue
            vec = v[1]
            # non-trivial: some row has a reference and the reference column is not constant over the rows
            # (a filter selects a proper non-empty subset; a value query returns at least two different values)
            if len(set(v[3])) >= 2: nontrivial = True
            if v[3]: ctx.count('queries.with_reference.' + mode)
            for ro in v[2]:
                if ro['verdict'] == 'finding':
                    for rule in ro['rules']:
                        ctx.finding(rule, slim(ro['w']))
                        ctx.count('classified.' + rule)
                    ctx.count('rows.known_deviation')
                elif 'w' in ro:
                    ctx.violation(slim(ro['w']), mechanism='%s_row_disagrees' % q['kind'])
                    ctx.count('rows.violation')
                else:
                    ctx.violation({'query': src, 'locals': json.dumps(loc, default=repr), 'mode': mode,
                                   'problem': ro['problem']}, mechanism='result_shape')
        a, b = verdicts['json1'], verdicts['py']
        if a[0] == 'ok' and b[0] == 'ok': ctx.count('queries.both_modes_executed')
        elif a[0] == 'ok' or b[0] == 'ok': ctx.count('queries.one_mode_raised')
        else: ctx.count('queries.both_modes_raised')
        ctx.case([shape_fp(q), vclasses, [v[0] if v[0] != 'ok' else ''.join(sorted(set(v[1]))) for v in (a, b)]],
                 nontrivial=nontrivial,
                 sample={'query': src, 'locals': json.dumps(loc, default=repr), 'row0': json.dumps(ds['rows'][0]['data'])[:300],
                         'json1': a[0] if a[0] != 'ok' else ''.join(a[1]), 'py': b[0] if b[0] != 'ok' else ''.join(b[1])}
                 if sample and qi < 2 else None)


# ----------------------------------------------------------------------------------------------------------------
# PostgreSQL path text (cannot execute): decode what the real PGSQLBuilder.eval_json_path emits

def load_pg_eval_json_path():
    from vlib.common import REPO
    from pony.utils import is_ident
    src = open(os.path.join(REPO, 'pony', 'orm', 'dbproviders', 'postgres.py')).read()
    tree = ast.parse(src)
    for node in ast.walk(tree):
        if isinstance(node, ast.ClassDef) and node.name == 'PGSQLBuilder':
            for f in node.body:
                if isinstance(f, ast.FunctionDef) and f.name == 'eval_json_path':
                    mod = ast.Module(body=[f], type_ignores=[])
                    ns = {'is_ident': is_ident}
                    exec(compile(mod, 'postgres.py:eval_json_path', 'exec'), ns)
                    return ns['eval_json_path']
    return None


def pg_array_decode(text):
    """Parser of PostgreSQL's documented text[] input syntax (one dimension): '{' elem (',' elem)* '}' where elem is
    a double-quoted string with backslash escapes, or an unquoted run (NULL in any case = SQL NULL)."""
    assert text[0] == '{' and text[-1] == '}', text
    s = text[1:-1]
    out, i, n = [], 0, len(s)
    if n == 0: return out
    while True:
        if i < n and s[i] == '"':
            i += 1
            buf = []
            while True:
                if i >= n: raise ValueError('unterminated quoted element')
                ch = s[i]
                if ch == '\\':
                    if i + 1 >= n: raise ValueError('dangling backslash')
                    buf.append(s[i + 1]); i += 2
                elif ch == '"': i += 1; break
                else: buf.append(ch); i += 1
            out.append(''.join(buf))
        else:
            j = i
            buf = []
            while j < n and s[j] != ',':
                if s[j] in '{}"': raise ValueError('bare special character in unquoted element')
                if s[j] == '\\':
                    if j + 1 >= n: raise ValueError('dangling backslash')
                    buf.append(s[j + 1]); j += 2
                else: buf.append(s[j]); j += 1
            raw = ''.join(buf).strip()
            if raw == '': raise ValueError('empty unquoted element')
            out.append(None if s[i:j].strip().upper() == 'NULL' else raw)
            i = j
        if i >= n: break
        if s[i] != ',': raise ValueError('expected comma at %d' % i)
        i += 1
    return out


def pg_path_monitor(ctx, rng, n):
    from pony.utils import is_ident
    fn = load_pg_eval_json_path()
    if fn is None:
        ctx.count('pg_path.function_not_found'); return
    pool = KEYS_PLAIN + KEYS_HOSTILE + ['a,b', '{x}', 'a\\"b', 'Null', 'nul', ' lead', 'trail ', 'ta\\', 'é,"']
    for i in range(n):
        path = [rng.choice(pool) if rng.random() < 0.75 else rng.choice((0, 1, 7, -1, -12)) for _ in range(rng.choice((1, 2, 3)))]
        try: text = fn(None, path)
        except Exception as e:
            ctx.count('pg_path.raised.' + type(e).__name__); continue
        ctx.count('pg_path.evaluated')
        want = [str(k) if isinstance(k, int) else k for k in path]
        try: got = pg_array_decode(text)
        except ValueError as e: got = 'malformed: %s' % e
        ctx.case(['pg_path', [kclass(k) for k in path]], nontrivial=True)
        if got == want:
            ctx.count('pg_path.roundtrip_ok'); continue
        w = {'path': json.dumps(path), 'text': text, 'decoded': json.dumps(got)}
        # deviation rules: (1) backslash in a key is not doubled; (2) the key null/NULL is emitted unquoted
        def emit(keys, bs, nul):
            parts = []
            for k in keys:
                if isinstance(k, int): parts.append(str(k)); continue
                plain = is_ident(k)
                if plain and not (nul is False and k.upper() == 'NULL'): parts.append(k)
                else: parts.append('"%s"' % (k.replace('\\', '\\\\') if bs is False else k).replace('"', '\\"'))
            return '{%s}' % ','.join(parts)
        has_bs = any(isinstance(k, str) and '\\' in k for k in path)
        has_null = any(isinstance(k, str) and k.upper() == 'NULL' for k in path)
        fixed = emit(path, bs=False, nul=False)
        try: ok_fixed = pg_array_decode(fixed) == want
        except ValueError: ok_fixed = False
        if ok_fixed and emit(path, bs=True, nul=True) == text and (has_bs or has_null):
            if has_bs: ctx.finding(R_PGBS, w); ctx.count('classified.' + R_PGBS)
            if has_null: ctx.finding(R_PGNULL, w); ctx.count('classified.' + R_PGNULL)
        else:
            ctx.violation(w, mechanism='pg_path_text_does_not_decode_to_path')


# ----------------------------------------------------------------------------------------------------------------

def run(ctx):
    env = Env(ctx)
    sqlev = SqlEval()
    try:
        rng = ctx.rng
        nds = 100 if ctx.tier == 'quick' else 150
        nq = 70
        for i in range(nds):
            run_dataset(ctx, env, sqlev, rng, nq, sample=(i % 11 == 0))
        pg_path_monitor(ctx, ctx.subrng('pg', ctx.shard), 400 if ctx.tier == 'quick' else 1500)
    finally:
        env.close()
    ctx.extra['executed_on'] = ['sqlite+json1', 'sqlite+py_json_fallback']
    ctx.extra['sqlite_version'] = sqlite3.sqlite_version
    if ctx.counters.get('py_mode_used_json1_function') or ctx.counters.get('json1_mode_used_fallback_function'):
        ctx.inconclusive.append('json1_available flag was not honoured by the generated SQL; the two modes are not distinct')
    # floors are per process (each shard of the thorough tier evaluates them on its own counters)
    k = 1 if ctx.tier == 'quick' else 1.4
    ctx.floor('executed.json1', 2500 * k)
    ctx.floor('executed.py', 2500 * k)
    ctx.floor('rows.agree', 25000 * k)
    ctx.floor('sqlfunc.json1.json_extract', 1500 * k)
    ctx.floor('sqlfunc.py.py_json_extract', 1500 * k)
    ctx.floor('sqlfunc.py.py_json_array_length', 100 * k)
    ctx.floor('sqlfunc.json1.json_array_length', 100 * k)
    for kind in ('val', 'cmp', 'cmp_json', 'contains', 'len', 'truth', 'in_consts', 'arr_index', 'arr_slice', 'arr_in',
                 'arr_subset', 'arr_len', 'arr_truth', 'arr_eq', 'arr_index_cmp'):
        ctx.floor('rows.agree.' + kind, 250 * k)
    ctx.floor('pg_path.evaluated', 300)
    for kind in ('multi_tuple', 'multi_and', 'multi_or', 'multi_order'):
        ctx.floor('rows.agree.' + kind, 150 * k)
    ctx.floor('multi.sibling_paths_sharing_params', 300 * k)
    ctx.floor('order_check.agree', 3)


def replay(ctx, witness):
    env = Env(ctx)
    sqlev = SqlEval()
    try:
        if 'q_json' not in witness:
            print(json.dumps(witness, indent=1)); return
        q = json.loads(witness['q_json'])
        row = json.loads(witness['row_json'])
        ds = {'rows': [row], 'base': row['data'], 'hetero': False}
        env.load(ds)
        src, loc, is_filter, verdicts = judge_query(ctx, env, sqlev, ds, q)
        print('query:', src, 'locals:', loc)
        print('row:', row)
        for mode, v in verdicts.items():
            print(mode, v[0], v[1] if v[0] != 'ok' else ''.join(v[1]))
            if v[0] == 'ok':
                for ro in v[2]:
                    if ro['verdict'] == 'finding':
                        for rule in ro['rules']: ctx.finding(rule, slim(ro['w']))
                    elif 'w' in ro: ctx.violation(slim(ro['w']), mechanism='%s_row_disagrees' % q['kind'])
        ctx.case(['replay', src])
    finally:
        env.close()

"""C02 -- the same query over the same data gives the same answer on every dialect (REDUCED FORM).

Only SQLite executes SQL in this sandbox.  What runs: every E1 query program (vlib/qdiff.py) inside a dialect-neutral
value domain goes through the REAL provider / translator / SQL builder of five dialects:

    sqlite       real pipeline on a FILE database (the data of record; judged against the E1 reference interpreter)
    pg-shim      real PGProvider/PGTranslator/PGSQLBuilder bound through the psycopg2 stub; the connection is an
    mysql-shim   real MySQLProvider/MySQLTranslator/MySQLBuilder (MySQLdb stub)   EXECUTE-MODE connection
                 (vlib/xdialect.py): the statement passes a whitelist rewriter and runs on the SAME SQLite file with the
                 dialect's function semantics registered as user-defined functions; pony then processes the rows with
                 that provider's own converters.  Rows must equal the reference and the SQLite-dialect rows.
    oracle       real Ora* classes (cx_Oracle stub), RECORD mode: SQL is generated, placeholders are checked against the
    cockroach    real CR* classes (psycopg2 stub)    argument object, dialect-only internal errors are flagged; no rows.

A disagreement of an executing dialect is first attributed (SQLite itself disagreeing with the reference is C01's
business), then re-judged with ONE function model switched to the SQLite/Python reading; only if that reproduces the
reference exactly it is the listed finding, otherwise a VIOLATION.
"""
META = {
    'level': 'exploration',
    'engine': 'E1+E5',
    'technique': 'differential oracle across dialects: E1 query programs through the real PostgreSQL/MySQL '
                 'provider+translator+builder, executed by a whitelist-rewriting shim on the SQLite file of the twin '
                 'SQLite-dialect database; rows vs SQLite-dialect rows vs reference interpreter; Oracle/CockroachDB SQL '
                 'recorded and placeholder-checked',
    'level_text': 'Reduced form of C02: runtime differential monitoring of the dialect-specific SQL generation on thousands '
                  'of generated programs (bounded-exhaustive slice + random programs + LIKE, LIMIT/OFFSET, dialect-function and '
                  'date/datetime/timedelta-arithmetic batteries). '
                  'No PostgreSQL/MariaDB/Oracle/CockroachDB server executes anything here, so translation validation '
                  'against real backends is out of reach; the claim is exploration of the generated SQL under a small '
                  'trusted model of the dialects.',
    'level_note': 'Temporal part (vlib/xtemporal.py): SQLite executes natively and is judged against python evaluation of the '
                  'expression tree; the PostgreSQL/MySQL statements are EVALUATED by a typed evaluator of single-table SELECTs '
                  '(execute-mode model of DATE/TIMESTAMP/INTERVAL literals, date+-interval, differences, EXTRACT/year().., ::date/'
                  'DATE(), ADDDATE/SUBDATE/TIMEDIFF); MySQL timedelta parameters, ADDDATE with a TIME column, TIMEDIFF of dates '
                  'and INTERVAL outside date arithmetic are NOT modelled (unsupported; placeholders still checked). '
                  'Trusted base: the E1 reference interpreter, sqlite3, the rewriter whitelist and the UDF models of '
                  'vlib/xdialect.py (substr/length/greatest/least per dialect as in C25, LIKE case-sensitive with backslash '
                  'default escape, concat NULL rules, MySQL TRIM remstr semantics, string_agg/group_concat). The shim is '
                  'more permissive than a real server (no type checking), so it can miss dialect defects but does not '
                  'invent them; statements outside the whitelist are counted unsupported and skipped.',
    'rule': 'case = (query source text, parameter values, front-end form, chain, data set, dialect); distinct = fingerprint '
            'of that tuple; non-trivial = the dialect returned rows that were judged (agree / finding / disagree); floor '
            'counter agree_nontrivial.<dialect> = agreements with reference AND SQLite whose result is neither empty nor '
            'all source rows',
    'assumptions': [
        'REDUCED FORM: executed_on = sqlite, pg-shim, mysql-shim; recorded_only = oracle, cockroach. Real PostgreSQL 16 / '
        'MariaDB 10.11 / Oracle / CockroachDB execution is out of reach in this sandbox (no servers, no drivers).',
        'TRUSTED: the rewriter whitelist of vlib/xdialect.py (placeholder styles incl. %% unescaping by the driver\'s own '
        '%-formatting; identifier quoting; (e)::type and CAST AS SIGNED/CHAR/DOUBLE/UNSIGNED; MySQL trim(.. from ..); LIMIT '
        '18446744073709551615 / LIMIT null; true/false; string_agg / GROUP_CONCAT SEPARATOR; row-value IN lists -> VALUES; '
        'MySQL || = OR; DISCARD ALL / SET .. as no-ops; canned version probes) and the UDF models (substr, length, '
        'greatest/least, like, concat, mysql_trim, string_agg/group_concat). Everything else native SQLite.',
        'NEUTRAL DOMAIN (E1 programs): ints without division/modulo/power, bools, ASCII strings without backslash or '
        'whitespace-only values, NULLs; no Decimals, floats, JSON, arrays in expressions (dates/datetimes: temporal part). String slices with constant/parameter bounds of '
        'either sign; only computed bounds and a stop before the start on the same side (s[3:1], s[-2:-4]) are left to C25.',
        'Strings compare bytewise: PostgreSQL collation "C" and a MySQL *_bin collation are ASSUMED (the default '
        'case-insensitive MySQL collation and locale-aware PostgreSQL collations are data-domain matters not modelled).',
        'NULL placement of ORDER BY (PostgreSQL/Oracle: last, SQLite/MySQL: first) is not modelled; ordered and limited '
        'programs order by non-nullable keys plus the primary key only.',
        'TEMPORAL DOMAIN: one entity with date, datetime, timedelta attributes; whole-second values (no microseconds); '
        'date +- WHOLE-DAY timedeltas only (python floors date + timedelta(hours=5), PostgreSQL/MySQL give a timestamp); '
        'datetime +- timedelta (constant, parameter, column); differences; .year .. .second; datetime.date(); no '
        'date-with-datetime comparisons; nullable attributes only as direct conjuncts or under `is None` guards. The '
        'PostgreSQL/MySQL temporal results come from the typed evaluator of vlib/xtemporal.py (manual-derived typing rules), '
        'not from a server: findings C02-DATE-ARITHMETIC-RETURNS-DATETIME and C02-MYSQL-TIMEDIFF-CLIPPED-TO-TIME-RANGE are '
        'model-derived.',
        'OUT OF REACH: server-side type checking (PostgreSQL would reject some statements the shim runs), JSON/array '
        'operators, Oracle and CockroachDB result comparison, integer division semantics per dialect, MySQL implicit '
        'string->TIME/INTERVAL conversions (timedelta parameters).',
        'Oracle/CockroachDB: generated SQL is checked for placeholder/argument consistency and for dialect-only internal '
        'errors (AssertionError, AttributeError, KeyError, IndexError, AstError ...); documented loud refusals '
        '(TranslationError, NotImplementedError, TypeError) are counted as dialect_only_error, not flagged.',
    ],
    'shims': ['psycopg2', 'MySQLdb', 'cx_Oracle'],
    'exhaustive_tiers': [],
}
SHARDS = {'quick': 1, 'thorough': 16}
SHARD_TIMEOUT = {'quick': 300, 'thorough': 2400}

SIZES = {
    # random = programs per shard (each runs on datasets_per_batch data sets); enum_stride: every n-th enumerated program
    'quick': dict(random=1400, batches=5, datasets_per_batch=6, depth=4, enum_per_type=1, enum_reduced=True, enum_stride=4, limit=480,
                  temporal=480, temporal_datasets=2),
    'thorough': dict(random=2200, batches=8, datasets_per_batch=4, depth=5, enum_per_type=1, enum_reduced=False, enum_stride=1, limit=480,
                     temporal=1200, temporal_datasets=3),
}
EXEC = ('postgres', 'mysql')
RECORD = ('oracle', 'cockroach')
LABEL = {'sqlite': 'sqlite', 'postgres': 'pg-shim', 'mysql': 'mysql-shim', 'oracle': 'oracle', 'cockroach': 'cockroach'}
# deviation rules: (dialect, model variant switched to the SQLite/Python reading, SQL marker that must be present) -> finding
DEVIATIONS = [
    ('mysql', 'trim_charset', ('trim(both ', 'trim(leading ', 'trim(trailing '), 'C02-MYSQL-TRIM-REMSTR-NOT-CHARSET'),
    ('postgres', 'extremes_null', ('greatest(', 'least('), 'C02-PG-GREATEST-LEAST-SKIP-NULL'),
    # the generic (non-PostgreSQL) branch of STRING_SLICE hands a negative start to substr() unchanged: MySQL then
    # answers '' when the string is shorter than |start| and takes a wrong length when the stop is non-negative
    ('mysql', 'substr_negpos_intent', ('substr(',), 'C02-MYSQL-NEGATIVE-SLICE-START'),
]
# exception classes pony raises on purpose (loud refusal, documented); anything else raised by ONE dialect only is an
# internal error of that dialect's code path
LOUD_CLASSES = {'TranslationError', 'NotImplementedError', 'TypeError', 'IncomparableTypesError', 'ExprEvalError',
                'NotSupportedError', 'DecompileError', 'InvalidQuery', 'UnexpectedError', 'ValueError',
                'OperationalError', 'ProgrammingError', 'DatabaseError', 'DataError', 'IntegrityError', 'InternalError',
                'MultipleObjectsFoundError', 'ObjectNotFound', 'RowNotFound', 'MultipleRowsFound'}


def outside_domain(program):
    """Reason why the program leaves the dialect-neutral domain (belongs to another property), else None."""
    import ast
    texts = [program.src]
    for st in program.chain:
        if st[0] in ('order_by', 'sort_by', 'filter', 'where') and st[1] in ('lambda', 'str'): texts.append(st[2])
        elif st[0] == 'iter': texts.append(st[1])
    def bound(node):
        """-> int value | None (omitted) | 'dyn'"""
        if node is None: return None
        if isinstance(node, ast.Constant) and isinstance(node.value, int) and not isinstance(node.value, bool): return node.value
        if isinstance(node, ast.UnaryOp) and isinstance(node.op, ast.USub) and isinstance(node.operand, ast.Constant) \
                and isinstance(node.operand.value, int): return -node.operand.value
        if isinstance(node, ast.Name) and node.id in program.params and type(program.params[node.id]) is int:
            return program.params[node.id]
        return 'dyn'
    for t in texts:
        try: tree = ast.parse('(' + t + ')', mode='eval')
        except SyntaxError: continue
        for n in ast.walk(tree):
            if isinstance(n, ast.Subscript) and isinstance(n.slice, ast.Slice):
                lo, hi = bound(n.slice.lower), bound(n.slice.upper)
                if lo == 'dyn' or hi == 'dyn': return 'slice_computed_bound'
                # negative constant / parameter bounds are inside the domain; only a stop that lies before the start
                # on the same side (s[3:1], s[-2:-4]: PostgreSQL raises 'negative substring length', owned by C25) is not
                if lo is not None and hi is not None and (lo < 0) == (hi < 0) and hi < lo: return 'slice_stop_before_start'
    return None


class Harness(object):
    def __init__(self, ctx):
        import os
        from vlib import qdiff, xdialect
        self.ctx, self.qdiff, self.xd = ctx, qdiff, xdialect
        self.schema = qdiff.SCHEMAS['S1']
        path = os.path.join(ctx.tmp(), 'twin.sqlite')
        xdialect.install_factories()
        self.env = xdialect.make_file_env(self.schema, path)
        self.denvs = {}
        for name in EXEC + RECORD:
            self.denvs[name] = d = xdialect.DialectEnv(self.schema, name, path)
            bad = xdialect.name_mismatches(self.env, d) if name != 'oracle' else []
            if bad: ctx.inconclusive.append('%s: table/column names differ from the SQLite twin: %s' % (name, bad[:4]))
        self.prod_used, self.prod_agree = {}, {}
        self.hist = {n: {} for n in EXEC + RECORD}
        self.examples = {}

    # -- bookkeeping ------------------------------------------------------------------------------------------------
    def note(self, name, outcome, detail=None):
        ctx = self.ctx
        ctx.count('outcome.%s.%s' % (name, outcome))
        h = self.hist[name]; h[outcome] = h.get(outcome, 0) + 1
        if detail: ctx.count('%s.%s.%s' % (outcome, name, detail[:60]))

    def example(self, key, payload):
        if key not in self.examples and len(self.examples) < 40: self.examples[key] = payload

    def load(self, data, data_id):
        self.env.load(data, data_id)
        self.ctx.count('datasets')

    def run_dialect(self, name, program):
        d = self.denvs[name]
        d.log.clear()
        r = self.qdiff.run_program(d, program)
        r.statements = [e for e in d.log.statements() if e['sql'] and not self.xd.SESSION_RE.match(e['sql'])]
        return r

    # -- one program on every dialect ---------------------------------------------------------------------------------
    def evaluate(self, program, dialects=EXEC + RECORD, shrink=True):
        qdiff, ctx, env = self.qdiff, self.ctx, self.env
        v = qdiff.judge(env, program)
        ctx.count('sqlite.' + v.outcome)
        for name in dialects:
            out = self.evaluate_on(name, program, v, shrink=shrink)
            for pr in set(program.prods):
                key = '%s:%s' % (LABEL[name], pr) if name in EXEC else None
                if key is None: continue
                self.prod_used[key] = self.prod_used.get(key, 0) + 1
                if out == 'agree': self.prod_agree[key] = self.prod_agree.get(key, 0) + 1
        return v

    def evaluate_on(self, name, program, v, shrink=True):
        qdiff, ctx = self.qdiff, self.ctx
        r = self.run_dialect(name, program)
        out, detail, extra = self.classify(name, program, v, r)
        nontrivial = out in ('agree', 'finding', 'disagree', 'generated')
        ctx.case(fingerprint=[program.key(), self.env.data_id, name], nontrivial=nontrivial,
                 sample={'dialect': LABEL[name], 'text': program.src, 'form': program.form, 'params': qdiff.enc(program.params),
                         'chain': program.chain, 'outcome': out, 'sql': (r.sql or '')[:400]} if ctx.evaluations % 97 == 0 else None)
        self.note(name, out, detail)
        if out == 'agree':
            rr = v.ref
            if extra.get('lenient'): ctx.count('agree_lenient.' + name)
            elif rr is not None and not rr.aggregated and 0 < sum(rr.must.values()) < rr.nrows_source:
                ctx.count('agree_nontrivial.' + name)
            elif rr is not None and rr.aggregated: ctx.count('agree_aggregated.' + name)
            else: ctx.count('agree_empty_or_full.' + name)
        elif out == 'finding':
            for fid in extra['findings']:
                ctx.count('finding.' + fid)
                ctx.finding(fid, self.witness(name, program, v, r, detail, dict(extra, finding=fid)))
        elif out == 'disagree':
            w = self.witness(name, program, v, r, detail, extra)
            if shrink and ctx.counters.get('violations_seen', 0) < 4:       # shrinking reloads data: first few only
                try: w = self.shrunk_witness(name, program, w)
                except Exception: pass
            ctx.violation(w, mechanism=extra.get('mechanism', 'dialect-disagreement:' + LABEL[name]))
        elif out in ('unsupported', 'shim_sql_error', 'dialect_only_error', 'disagree_noref'):
            self.example('%s.%s.%s' % (out, name, detail), {'text': program.src, 'params': qdiff.enc(program.params),
                                                           'chain': program.chain, 'sql': (r.sql or '')[:600],
                                                           'msg': (r.exc_msg or '')[:200]})
        return out

    def classify(self, name, program, v, r):
        """-> (outcome, detail, extra)"""
        qdiff = self.qdiff
        d = self.denvs[name]
        sq = v.result
        sq_raised = sq is not None and sq.kind == 'raised'
        if r.kind == 'raised':
            if r.exc == 'ShimUnsupported': return 'unsupported', r.exc_msg, {}
            if r.exc == 'PlaceholderMismatch':
                return 'disagree', 'placeholders: ' + (r.exc_msg or ''), {'mechanism': 'placeholder-argument-mismatch:' + LABEL[name]}
            if r.exc == 'ShimSqlError':
                if sq_raised and sq.db_error and (sq.exc_msg or '').split(':')[0][:40] in (r.exc_msg or ''):
                    return 'pony_raised', 'same_db_error', {}
                import re
                return 'shim_sql_error', re.sub(r'[\d"\']+', '#', r.exc_msg or '')[:60], {}
            if sq_raised and sq.exc == r.exc: return 'pony_raised', r.exc, {}
            if r.exc in LOUD_CLASSES: return 'dialect_only_error', r.exc, {}
            return 'disagree', 'internal error %s: %s' % (r.exc, (r.exc_msg or '')[:200]), \
                {'mechanism': 'dialect-only-internal-error:%s:%s' % (LABEL[name], r.exc)}
        if not d.executing:
            bad = self.check_recorded(name, d)
            if bad: return 'disagree', bad, {'mechanism': 'placeholder-argument-mismatch:' + LABEL[name]}
            if sq_raised: return 'sqlite_only_error', sq.exc, {}
            return 'generated', None, {}
        if sq_raised: return 'sqlite_only_error', sq.exc, {}
        rr = v.ref
        if rr is None:
            same = sq is not None and sq.kind == r.kind and self.same_bag(sq, r)
            return ('agree_sqlite_noref' if same else 'disagree_noref'), v.outcome, {}
        st, detail = qdiff.compare(r, rr)
        if st in ('agree', 'lenient_agree'):
            if v.outcome == 'agree': return 'agree', None, {'lenient': st != 'agree' or v.lenient}
            return 'c01_disagreement', 'dialect_matches_reference.sqlite_' + v.outcome, {}
        if st == 'no_reference': return 'no_reference', None, {}
        if v.outcome in ('known', 'disagree'): return 'c01_disagreement', 'sqlite_' + v.outcome, {}
        # SQLite agrees with the reference, this dialect does not: deviation-rule pass
        # accepted when the switched model reproduces the reference, or exactly the rows of the SQLite dialect
        fid, variant = self.deviation_pass(name, program, r, lambda r2: qdiff.compare(r2, rr)[0] in ('agree', 'lenient_agree')
                                           or (sq is not None and sq.kind == r2.kind and self.same_bag(sq, r2)))
        if fid: return 'finding', '+'.join(fid), {'findings': fid, 'variant': variant, 'detail': detail}
        return 'disagree', detail, {}

    def deviation_pass(self, name, program, r, accepts):
        """Re-run the program with function models of the dialect switched to the SQLite/Python reading -- each applicable
        one alone, then all applicable ones together (two mechanisms can meet in one statement); a finding is identified
        only if the statements use that function and the switched run is accepted by `accepts`.  -> (finding ids, variant)"""
        sql = '\n'.join(e['sql'] for e in getattr(r, 'statements', [])).lower()
        cands = [(variant, fid) for dname, variant, markers, fid in DEVIATIONS if dname == name and any(m in sql for m in markers)]
        combos = [[c] for c in cands] + ([cands] if len(cands) > 1 else [])
        for combo in combos:
            variant = '+'.join(v for v, _ in combo)
            self.xd.set_variant(name, variant)
            try: r2 = self.run_dialect(name, program)
            finally: self.xd.set_variant(name, None)
            if r2.kind != 'raised' and accepts(r2): return [fid for _, fid in combo], variant
        return None, None

    def same_bag(self, a, b):
        from collections import Counter
        qdiff = self.qdiff
        if a.kind == 'scalar': return qdiff.canon(a.value) == qdiff.canon(b.value)
        try: return Counter(qdiff.canon(x) for x in a.rows) == Counter(qdiff.canon(x) for x in b.rows)
        except TypeError: return False

    def check_recorded(self, name, d):
        """Placeholder / argument consistency of every statement the record-mode dialect sent (C06 monitor, part 1)."""
        xd, ctx = self.xd, self.ctx
        for e in d.log.statements():
            sql, args = e['sql'], e['args']
            if sql is None or xd.SESSION_RE.match(sql): continue
            try:
                toks = xd.lex_statement(name, d.style, sql, args)
                n = xd.check_placeholders(toks, d.style, args)
            except xd.PlaceholderMismatch as ex:
                return 'placeholders: %s in %s' % (ex, sql[:300])
            except xd.ShimUnsupported as ex:
                ctx.count('recorded.%s.unlexable' % name); continue
            ctx.count('recorded.%s.statements' % name)
            ctx.count('recorded.%s.placeholders' % name, n)
        return None

    # -- witnesses ----------------------------------------------------------------------------------------------------
    def witness(self, name, program, v, r, detail, extra):
        qdiff = self.qdiff
        w = {'dialect': name, 'executed_on': LABEL[name], 'program': program.to_json(), 'text': program.text(),
             'data': self.env.data, 'detail': detail, 'dialect_result': r.summary(), 'dialect_sql': r.sql,
             'sqlite_outcome': v.outcome}
        if v.result is not None: w['sqlite_result'] = v.result.summary(); w['sqlite_sql'] = v.result.sql
        if v.ref is not None: w['reference'] = v.ref.summary()
        w['dialect_statements'] = [{'sql': e['sql'], 'args': repr(e['args'])[:300], 'rewritten_for_sqlite': e.get('rewritten')}
                                   for e in getattr(r, 'statements', [])[:6]]
        w.update({k: val for k, val in extra.items() if k in ('finding', 'variant')})
        return w

    def shrunk_witness(self, name, program, w0):
        qdiff, env = self.qdiff, self.env
        data0, did = env.data, env.data_id
        def still_bad(p2, d2):
            env.load(d2, did)
            v2 = qdiff.judge(env, p2)
            r2 = self.run_dialect(name, p2)
            return self.classify(name, p2, v2, r2)[0] == 'disagree'
        try:
            p2, d2 = qdiff.shrink(env, program, data0, still_bad, budget=40)
            env.load(d2, did)
            v2 = qdiff.judge(env, p2)
            r2 = self.run_dialect(name, p2)
            out, detail, extra = self.classify(name, p2, v2, r2)
            if out == 'disagree':
                w = self.witness(name, p2, v2, r2, detail, extra)
                w['original'] = {'program': program.to_json(), 'detail': w0.get('detail')}
                return w
            return w0
        finally:
            env.load(data0, did)

    # -- LIMIT / OFFSET battery: list equality against the SQLite-dialect result (total order on non-nullable keys) ------
    def evaluate_limited(self, program):
        qdiff, ctx, env = self.qdiff, self.ctx, self.env
        sq = qdiff.run_program(env, program)
        ctx.count('limit.sqlite.' + ('raised' if sq.kind == 'raised' else 'ok'))
        for name in EXEC + RECORD:
            d = self.denvs[name]
            r = self.run_dialect(name, program)
            v = type('V', (), {'result': sq, 'ref': None, 'outcome': 'limit', 'lenient': False})()
            if r.kind == 'raised' or not d.executing or sq.kind == 'raised':
                out, detail, extra = self.classify(name, program, v, r)
                if out in ('agree_sqlite_noref', 'disagree_noref'): out = 'agree'
            else:
                same = sq.kind == r.kind and sq.summary() == r.summary()
                if same: out, detail, extra = 'agree', None, {}
                else:
                    fid, variant = self.deviation_pass(name, program, r, lambda r2: r2.kind == sq.kind and r2.summary() == sq.summary())
                    if fid: out, detail, extra = 'finding', '+'.join(fid), {'findings': fid, 'variant': variant}
                    else: out, detail, extra = 'disagree', 'limited/ordered result differs from the SQLite-dialect result', \
                        {'mechanism': 'limit-offset-disagreement:' + LABEL[name]}
            nonempty = r.kind == 'rows' and len(r.rows) > 0 or r.kind == 'scalar' and r.value is not None
            ctx.case(fingerprint=[program.key(), env.data_id, name, 'limit'], nontrivial=out in ('agree', 'disagree', 'generated'))
            self.note(name, 'limit.' + out, detail)
            if out == 'agree' and nonempty: ctx.count('limit_agree_nonempty.' + name)
            if out == 'finding':
                for fid in extra['findings']:
                    ctx.count('finding.' + fid)
                    ctx.finding(fid, self.witness(name, program, v, r, detail, dict(extra, finding=fid)))
            if out == 'disagree':
                ctx.violation(self.witness(name, program, v, r, detail, extra),
                              mechanism=extra.get('mechanism', 'limit-offset-disagreement:' + LABEL[name]))


def data_domain(datas, base, rng):
    """Constant domain of a batch: the int / str values that occur in its data sets plus three absent ones each."""
    ints, strs = set(), set()
    for data in datas:
        for rows in data.values():
            for row in rows:
                for k, v in row.items():
                    if k in ('id', '_cls') or isinstance(v, bool): continue
                    if isinstance(v, int): ints.add(v)
                    elif isinstance(v, str) and v: strs.add(v)
    d = dict(base)
    d['int'] = sorted(ints | set(rng.sample(base['int'], 3)))
    d['str'] = sorted(strs | set(rng.sample(base['str'], 3)))
    return d


def limit_programs(qdiff, schema, gen, rng, n):
    """`v for v in E if cond` + order_by(non-nullable attrs..., pk) + slice / limit / page / first."""
    out = []
    while len(out) < n:
        p = gen.program(shape='filter')
        if p.lam is None or outside_domain(p): continue
        en, var = p.lam['ent'], p.lam['var']
        e = schema.ents[en]
        keys = [a for a in e.attrs.values() if a.is_scalar and a.kind == 'req' and a.typ in ('int', 'str', 'bool')]
        ks = rng.sample(keys, min(len(keys), rng.choice([0, 1, 1, 2])))
        # the tie-break is the whole primary key (entities of the shared schema may have a composite key)
        pkn = schema.pk(en) if hasattr(schema, 'pk') else ['id']
        pkn = [k for k in pkn if e.attrs.get(k) is None or e.attrs[k].is_scalar]
        if len(pkn) != len(schema.pk(en) if hasattr(schema, 'pk') else ['id']): continue      # a reference inside the key: not ordered here
        desc = rng.random() < 0.3
        spec = [[en, a.name, rng.random() < 0.4] for a in ks] + [[en, k, desc] for k in pkn]
        r = rng.random()
        if r < 0.40:
            a = rng.choice([None, 0, 1, 2, 3]); b = rng.choice([None, 1, 2, 3, 5, 50])
            if a is None and b is None: b = 2
            if a is not None and b is not None and b < a: a, b = b, a
            step = ['slice', a, b]
        elif r < 0.65:
            step = ['limit', rng.choice([1, 2, 3, 5]), rng.choice([0, 1, 2, 4])]
            if rng.random() < 0.3: step = ['limit', step[1]]
        elif r < 0.85: step = ['page', rng.choice([1, 2, 3]), rng.choice([1, 2, 3])]
        else: step = ['first']
        chain = [[rng.choice(['order_by', 'sort_by']) if step[0] != 'first' else 'order_by', 'attrs', spec], step]
        forms = qdiff.forms_of(p)
        out.append(forms[len(out) % len(forms)].clone(chain=chain, prods=p.prods + ['chain.' + step[0]]))
    return out


def like_programs(qdiff, seed):
    patterns = ['%', '_', 'a%', 'a_', '!', '!%', '!_', 'a!', '%a', '_b', 'ab', 'a', '%%', 'a%b', '100%']
    tmpls = ('p.name.startswith({0})', 'p.name.endswith({0})', '{0} in p.name', '{0} not in p.name', 'not p.name.startswith({0})',
             'p.nick.startswith({0})', '{0} in p.nick', '{0} not in p.nick', 'p.name.startswith(p.nick)', 'p.nick in p.name',
             'p.name.endswith(p.nick)', 'p.name.startswith({0} + p.nick)')
    out, k = [], 0
    for pi, pat in enumerate(patterns):
        for tmpl in tmpls:
            for as_param in (False, True):
                if '{0}' not in tmpl and (as_param or pi): continue
                cond = tmpl.format('a0' if as_param else qdiff.lit(pat))
                p = qdiff.Program('p for p in Person if ' + cond, {'a0': pat} if as_param else {}, 'gen', [],
                                  {'ent': 'Person', 'var': 'p', 'cond': cond},
                                  ['like.' + tmpl.split('(')[0].replace('{0}', 'X').replace(' ', '_'), 'shape.filter'])
                forms = qdiff.forms_of(p)
                out.append(forms[(k + seed) % len(forms)]); k += 1
    return out


FUNCTION_BATTERY_NAMES = ['abca', 'xax', '%a%', 'aab', 'baa', 'a%b', 'Ab', 'abcabc', 'b', 'pad', 'x%', 'ba']


def function_programs(qdiff, seed):
    """Deterministic battery: every dialect-specific builder override / translator branch of the neutral domain on data
    that discriminates (leading vs trailing characters, NULL vs value, repeated parameters)."""
    exprs = []
    for c in ('a', 'x', '%', 'b', 'ab'):
        for m in ('strip', 'lstrip', 'rstrip'):
            exprs.append(('p.name.%s(%s)' % (m, qdiff.lit(c)), {}))
            exprs.append(('p.name.%s(a0)' % m, {'a0': c}))
    exprs += [(e, {}) for e in (
        'p.name.upper()', 'p.name.lower()', 'p.name + p.nick', "p.name + '-' + str(p.age)", "concat(p.name, p.age, '!')",
        'concat(p.nick, p.name)', 'f"{p.name}:{p.age}"', 'f"{p.nick}{p.name}"', 'p.name[0]', 'p.name[1]', 'p.name[-1]', 'p.name[-2]',
        'p.name[:2]', 'p.name[1:]', 'p.name[1:3]', 'p.name[0:1]', 'p.name[2:2]', 'p.nick[:1]', 'p.name[-3:]', 'p.name[-2:]',
        'p.name[-1:]', 'p.name[-5:-2]', 'p.name[-3:-1]', 'p.name[:-2]', 'p.name[1:-1]', 'p.name[2:-2]', 'p.name[-4:3]', 'p.name[-2:4]',
        'p.name[-6:]', 'p.nick[-2:]', "(p.name + '-' + p.name)[-4:]", 'p.name.upper()[-3:-1]', 'len(p.name)', 'len(p.name + p.nick)',
        'str(p.age)', 'str(p.score)', 'min(p.age, 3)', 'max(p.age, p.id)', "min(p.name, 'b')", 'max(p.name, p.nick)',
        'max(p.score, 1)', "coalesce(p.nick, 'zz')", 'coalesce(p.score, -1)', 'coalesce(p.score, p.age, 0)', 'p.active + 1',
        'p.active + p.age', 'p.flag + 1', 'p.active + p.flag', 'abs(p.age)', '-p.age', 'p.age * 2 - p.id', 'abs(p.score - p.age)',
        '(p.name if p.active else p.nick)', '(p.age if p.flag else p.id)', "(1 if p.name.startswith('a') else 0)",
        'p.name.strip()', 'p.name.upper().lower()', "p.name.strip('a').upper()", "(p.name + 'a').rstrip('a')")]
    exprs += [('p.name[a0:a1]', {'a0': 1, 'a1': 3}), ('p.name[:a0]', {'a0': 2}), ('p.name[a0:]', {'a0': -3}), ('p.name[a0:a1]', {'a0': -4, 'a1': -1}),
              ('p.name[a0:a1]', {'a0': -3, 'a1': 2}), ('p.name[a0:a1]', {'a0': 1, 'a1': -2}), ('p.name[:a0]', {'a0': -3}), ('p.name[a0]', {'a0': 1}), ('p.name[a0]', {'a0': -1}),
              ('p.age + a0 - a0 * a0', {'a0': 3}), ('concat(a0, p.name, a0)', {'a0': '%'}), ('p.name + a0 + p.name + a0', {'a0': '%s'}),
              ('min(p.age, a0)', {'a0': 2}), ('coalesce(p.nick, a0)', {'a0': 'q%(p1)s'})]
    conds = [(c, {}) for c in (
        'p.active', 'not p.active', 'p.flag', 'not p.flag', 'p.active == True', 'p.flag != True', 'p.flag == False', 'p.flag is None',
        'p.flag is not None', "p.name.startswith('a')", "p.name.endswith('a')", "'a' in p.name", "'%' in p.name", "'%' not in p.name",
        'p.age in (1, 2, p.id)', "p.name in ('abca', 'b')", "p.name not in ('abca', 'b')", "(p.age, p.name) in [(1, 'abca'), (3, 'b')]",
        "(p.id, p.name) == (1, 'abca')", "(p.id, p.name) != (1, 'abca')", 'between(p.age, 1, 5)', "p.name < 'b'", 'p.name >= p.nick',
        'p.score is None', 'p.score == None', 'p.nick != None', "p.name.strip('a') == 'bc'", "p.name.rstrip('a') != p.name",
        "p.name.lstrip('a') != p.name", 'p.active and p.flag', 'p.active or p.flag', 'not (p.active and p.flag)', 'p.active != p.flag',
        'p.age > p.score', 'p.age + p.active > 2', 'len(p.name) > 3', "p.name[0] == 'a'", "p.name[-1] == 'a'", "p.name[:2] == 'ab'",
        'p.age == min(p.age, p.id)', 'p.mentor is None', 'p.mentor is not None and p.mentor.active', 'p.dept.budget is None',
        'exists(t for t in p.tags)', 'p.tags.is_empty()', 'count(p.tags) > 1', "'ab' in p.name and p.name.endswith('a')")]
    conds += [('p.age == a0 or p.id == a0', {'a0': 2}), ('p.name == a0 or p.nick == a0 or p.name.startswith(a0)', {'a0': 'b'}),
              ('p.age > a0 and p.id < a1 and p.age != a1 and p.id >= a0', {'a0': 1, 'a1': 6}), ('p.active == a0', {'a0': True}),
              ('p.flag == a0', {'a0': False}), ('p.name in a0', {'a0': ['abca', 'b', 'x%']}), ('p.age in a0', {'a0': (1, 2, 3)}),
              ("(p.age, p.name) == (a0, a1)", {'a0': 1, 'a1': 'abca'}), ('between(p.age, a0, a1)', {'a0': 0, 'a1': 3}),
              ('p.name.startswith(a0) and a1 in p.name', {'a0': 'a', 'a1': '%'})]
    whole = [
        'count(p) for p in Person', 'count(p.score) for p in Person', 'count(p.name) for p in Person', 'sum(p.age) for p in Person',
        'sum(p.score) for p in Person', 'avg(p.age) for p in Person', 'min(p.name) for p in Person', 'max(p.age) for p in Person',
        'group_concat(p.name) for p in Person', "group_concat(p.name, '|') for p in Person", "group_concat(p.age, '-') for p in Person",
        'group_concat(p.nick) for p in Person', '(count(p), sum(p.active + 0), max(len(p.name))) for p in Person',
        '(p.dept, count(p), sum(p.age), group_concat(p.name)) for p in Person', '(p.active, count(p), min(p.age)) for p in Person',
        '(p.flag, count(p)) for p in Person', '(p.dept.name, count(p.score), avg(p.age)) for p in Person if p.age > 0',
        '(d.id, count(d.persons), sum(d.persons.age), max(p.name for p in d.persons)) for d in Dept',
        "(d.id, group_concat(p.name for p in d.persons), group_concat((p.name for p in d.persons), '|')) for d in Dept",
        '(d.id, sum(p.age for p in d.persons if p.active), count(p for p in d.persons if p.flag)) for d in Dept',
        '(p.id, count(p.tags), count(p.items), sum(i.price for i in p.items)) for p in Person',
        '(t.id, count(t.persons), max(t.persons.age)) for t in Tag', '(p, t) for p in Person for t in p.tags if t.weight is None or t.weight > 0',
        '(p.id, m.id) for p in Person for m in Person if p.mentor == m', 'p.mentor for p in Person if p.mentor is not None',
        '(i.id, i.owner.name) for i in Item if i.owner is not None', 'g for g in Gadget if g.volts is None or g.volts > 0',
        'i for i in Item if isinstance(i, (Gadget, Book))', '(p.id, p.passport.code) for p in Person if p.passport is not None',
    ]
    out, k = [], 0
    def add(src, params, lam, prod):
        nonlocal k
        p = qdiff.Program(src, params, 'gen', [], lam, [prod], 'S1')
        if qdiff.lint_program(src) is None:
            forms = qdiff.forms_of(p)
            out.append(forms[(k + seed) % len(forms)])
        k += 1
    for e, params in exprs:
        add('(p.id, %s) for p in Person' % e, params, None, 'battery.proj')
    for c, params in conds:
        add('p for p in Person if ' + c, params, {'ent': 'Person', 'var': 'p', 'cond': c}, 'battery.filter')
        add('(p.id, p.name) for p in Person if ' + c, params, None, 'battery.filter_proj')
    for src in whole:
        add(src, {}, None, 'battery.whole')
    return out


def run(ctx):
    from vlib import qdiff, xdialect
    sz = SIZES[ctx.tier]
    H = Harness(ctx)
    schema, rng = H.schema, ctx.rng
    gen = qdiff.ProgramGen(schema, rng, max_depth=sz['depth'], neutral_domain=True)

    def admit(p):
        why = outside_domain(p)
        if why: ctx.count('skipped_outside_domain.' + why); return False
        return True

    # ---- part 1: bounded-exhaustive slice (<= 2 operators, reduced leaf set) on two fixed-seed data sets ---------------
    programs = gen.enumerate_small(per_type=sz['enum_per_type'], max_ops=2, ops=gen.REDUCED_OPS if sz['enum_reduced'] else None)
    stride = sz['enum_stride'] * ctx.nshards
    mine = (ctx.shard * sz['enum_stride'] + ctx.seed % sz['enum_stride']) % stride
    batch = []
    for i, p in enumerate(programs):
        if i % stride != mine: continue
        if qdiff.lint_program(p.src) is not None or not admit(p): continue
        forms = qdiff.forms_of(p)
        batch.append(forms[(i + ctx.seed) % len(forms)])
    drng = ctx.subrng('exhaustive-data')
    for j, flavor in enumerate(('mixed', 'dense')):
        H.load(qdiff.gen_data(schema, drng, neutral=True, flavor=flavor), 'X%d' % j)
        for f in batch:
            H.evaluate(f, dialects=(EXEC + RECORD) if j == 0 else EXEC)
    ctx.count('exhaustive.programs', len(batch))

    # ---- part 2: random programs of depth <= D; every batch runs on TWO data sets (executing dialects on both, the ----
    # ---- record-only dialects on the first: their SQL does not depend on the rows); constants are drawn from the ----
    # ---- values present in the batch's data plus a few absent ones, so that filters discriminate ----
    base_dom = dict(gen.dom)
    per_batch = max(1, sz['random'] // sz['batches'])
    for b in range(sz['batches']):
        datas = [qdiff.gen_data(schema, rng, neutral=True, flavor=fl) for fl in (None, 'dense', 'mixed', 'sparse', None, 'mixed')[:sz['datasets_per_batch']]]
        gen.dom = data_domain(datas, base_dom, rng)
        batch = []
        while len(batch) < per_batch:
            p = gen.program()
            if not admit(p): continue
            forms = qdiff.forms_of(p)
            batch.append(forms[len(batch) % len(forms)])
        for j, data in enumerate(datas):
            H.load(data, 'R%d.%d.%d.%d' % (ctx.seed, ctx.shard, b, j))
            for f in batch:
                H.evaluate(f, dialects=(EXEC + RECORD) if j == 0 else EXEC)
    gen.dom = base_dom
    ctx.count('random.programs', per_batch * sz['batches'])

    # ---- part 3: LIKE battery (escape handling, %% doubling in format/pyformat literals, CONCAT forms) ---------------
    data = qdiff.dec(qdiff.gen_data(schema, ctx.subrng('like-data'), neutral=True, flavor='dense'))
    while len(data['Person']) < 7:
        data['Person'].append(dict(data['Person'][0], id=len(data['Person']) + 1, tags=[], mentor=None))
    like_strings = ['a%', 'ab', 'a_', 'a!', '!%', '%', '_', 'abc', 'a%b', 'a_b', 'xa%', '!', 'a!%', 'A%', '%%', '__', 'b', '100%']
    lrng = ctx.subrng('like-fill', ctx.shard)
    pool = list(like_strings); lrng.shuffle(pool)
    for i, row in enumerate(data['Person']):
        row['name'] = pool[i % len(pool)]; row['nick'] = pool[(i * 3 + 1) % len(pool)] if i % 4 else None
    H.load(qdiff.json.loads(qdiff.json.dumps(qdiff.enc(data))), 'LIKE')
    n_like = 0
    for p in like_programs(qdiff, ctx.seed + ctx.shard):
        H.evaluate(p); n_like += 1
    ctx.count('like_battery.programs', n_like)

    # ---- part 4: LIMIT / OFFSET battery -------------------------------------------------------------------------------
    lgen = qdiff.ProgramGen(schema, ctx.subrng('limit', ctx.shard), max_depth=2, neutral_domain=True)
    per = max(1, sz['limit'] // 4)
    for ds in range(4):
        H.load(qdiff.gen_data(schema, lgen.rng, neutral=True, flavor='dense' if ds % 2 else 'mixed'), 'L%d.%d.%d' % (ctx.seed, ctx.shard, ds))
        for p in limit_programs(qdiff, schema, lgen, lgen.rng, per):
            H.evaluate_limited(p)
    ctx.count('limit_battery.programs', per * 4)

    # ---- part 5: dialect function battery (deterministic; data with leading/trailing characters, NULLs) ----------------
    data = qdiff.dec(qdiff.gen_data(schema, ctx.subrng('battery-data'), neutral=True, flavor='mixed'))
    while len(data['Person']) < len(FUNCTION_BATTERY_NAMES):
        data['Person'].append(dict(data['Person'][len(data['Person']) % 3], id=len(data['Person']) + 1, tags=[], mentor=1))
    for i, row in enumerate(data['Person']):
        row['name'] = FUNCTION_BATTERY_NAMES[i % len(FUNCTION_BATTERY_NAMES)]
        row['nick'] = None if i % 4 == 3 else FUNCTION_BATTERY_NAMES[(i * 5 + 2) % len(FUNCTION_BATTERY_NAMES)][:2]
        row['age'] = [1, 2, 3, 5, -1, 0, 7, 2, 10, 3, 1, 12][i % 12]
        row['score'] = None if i % 3 == 1 else [0, 3, -7, 5, 1, 2][i % 6]
        row['active'] = i % 2 == 0
        row['flag'] = None if i % 5 == 2 else i % 3 == 0
    H.load(qdiff.json.loads(qdiff.json.dumps(qdiff.enc(data))), 'FUNC')
    n_fun = 0
    for p in function_programs(qdiff, ctx.seed + ctx.shard):
        if outside_domain(p): continue
        H.evaluate(p); n_fun += 1
    ctx.count('function_battery.programs', n_fun)

    # ---- part 6: date / datetime / timedelta arithmetic (vlib/xtemporal.py: own entity, python reference, typed evaluator ----
    # ---- of the PostgreSQL / MySQL statements, model of the SQLite dialect's text-width / float-days mechanisms) ----
    from vlib import xtemporal
    T = xtemporal.TemporalHarness(ctx, LOUD_CLASSES)
    trng = ctx.subrng('temporal', ctx.shard)
    T.load(xtemporal.gen_rows(ctx.subrng('temporal-battery-data'), 9), 'TB')
    for k, tp in enumerate(xtemporal.battery()):
        if ctx.nshards > 1 and k % 4 != ctx.shard % 4: continue          # thorough: every battery program on 4 of 16 shards
        T.evaluate(tp, ('gen', 'str')[(k + ctx.seed) % 2])
    for ds in range(sz['temporal_datasets']):
        rows = xtemporal.gen_rows(trng, trng.choice([7, 9, 11]))
        T.load(rows, 'T%d.%d.%d' % (ctx.seed, ctx.shard, ds))
        tg = xtemporal.TemporalGen(trng, rows)
        for k in range(sz['temporal'] // sz['temporal_datasets']):
            T.evaluate(tg.program(trng.choice([1, 2, 2, 3])), ('gen', 'str')[k % 2])
    ctx.count('temporal.programs', sz['temporal'])

    # ---- evidence ---------------------------------------------------------------------------------------------------------
    ctx.extra['executed_on'] = ['sqlite', 'pg-shim', 'mysql-shim']
    ctx.extra['recorded_only'] = ['oracle', 'cockroach']
    for name in EXEC + RECORD:
        ctx.extra['outcomes.' + LABEL[name]] = dict(sorted(H.hist[name].items()))
    for name in EXEC:
        st = xdialect.STATS.get(name, {})
        ctx.extra['whitelisted_constructs_seen.' + LABEL[name]] = {k[5:]: v for k, v in sorted(st.items()) if k.startswith('seen:')}
        ctx.extra['session_statements.' + LABEL[name]] = {k[8:]: v for k, v in sorted(st.items()) if k.startswith('session.')}
        ctx.extra['unsupported_constructs.' + LABEL[name]] = {k[12:]: v for k, v in sorted(st.items()) if k.startswith('unsupported:')}
        ctx.extra['shim_sqlite_errors.' + LABEL[name]] = {k[13:]: v for k, v in sorted(st.items()) if k.startswith('sqlite_error:')}
        ctx.extra['statements_executed.' + LABEL[name]] = st.get('statements_executed', 0)
    for name in EXEC:
        st = xdialect.STATS.get('temporal-' + name, {})
        ctx.extra['temporal.constructs_evaluated.' + LABEL[name]] = {k[5:]: v for k, v in sorted(st.items()) if k.startswith('seen:')}
        ctx.extra['temporal.unsupported_constructs.' + LABEL[name]] = {k[12:]: v for k, v in sorted(st.items()) if k.startswith('unsupported:')}
    ctx.extra['temporal.examples_of_skipped_cases'] = [dict(v, key=k) for k, v in sorted(T.examples.items())][:30]
    ctx.extra['prod_used'] = H.prod_used
    ctx.extra['prod_agree'] = H.prod_agree
    ctx.extra['productions_never_agreed'] = sorted(k for k in H.prod_used if not H.prod_agree.get(k))[:60]
    ctx.extra['examples_of_skipped_cases'] = [dict(v, key=k) for k, v in sorted(H.examples.items())][:40]

    # ---- floors (per shard) -------------------------------------------------------------------------------------------------
    for name in EXEC:
        ctx.floor('agree_nontrivial.' + name, 1500)
        ctx.floor('outcome.%s.agree' % name, 4000)
        ctx.floor('limit_agree_nonempty.' + name, 120)
    ctx.floor('temporal_agree_nontrivial.sqlite', 300)
    ctx.floor('temporal_agree_nontrivial.postgres', 300)
    ctx.floor('temporal_agree_nontrivial.mysql', 150)
    for name in RECORD:
        ctx.floor('outcome.%s.temporal.generated' % name, 400)
        ctx.floor('outcome.%s.generated' % name, 2000)
        ctx.floor('recorded.%s.placeholders' % name, 600)


def replay(ctx, witness):
    from vlib import qdiff
    if witness.get('temporal'):
        from vlib import xtemporal
        T = xtemporal.TemporalHarness(ctx, LOUD_CLASSES)
        T.replay(witness)
        print('replay (temporal program): %s' % {k: v for k, v in ctx.counters.items() if k.startswith('outcome.')}); return
    H = Harness(ctx)
    H.load(witness['data'], 'replay')
    p = qdiff.Program.from_json(witness['program'])
    name = witness['dialect']
    if any(st[0] in ('slice', 'limit', 'page', 'first') for st in p.chain):
        H.evaluate_limited(p)
        print('replay (limited program): see violations'); return
    v = qdiff.judge(H.env, p)
    out = H.evaluate_on(name, p, v, shrink=False)
    print('replay outcome on %s: %s (sqlite: %s)' % (LABEL[name], out, v.outcome))

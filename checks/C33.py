META = {
    'level': 'exploration',
    'engine': 'E2+E3',
    'technique': 'offline exactly-once check over the merged log of lifecycle-hook calls and DB-API statements + commit observer with hook edits applied to the reference model',
    'level_text': 'Generated session histories run on diagrams whose entities define all six lifecycle hooks; every hook call and every INSERT/UPDATE/DELETE seen at the DB-API boundary is logged from one counter. Offline: every statement on an entity table is preceded by exactly one matching before_* call for that object (since the previous statement on it) and followed by exactly one after_* call before the next commit. Hook bodies are drawn from noop / read / modify another attribute of the object / create a log object (which has hooks of its own) / modify another loaded object / add or remove a many-to-many link (before_* hooks) and noop / read / bounded modification of the object or of another object (after_* hooks, which makes the flush run another round); their edits are applied to the reference model, so the raw-connection commit observer and the read observers verify that they are saved in the same flush. Held on the generated histories only.',
    'level_note': 'Trusted: statement-to-object matching by table name and primary key parsed from the SQL text pony emits for single-column explicit integer keys; the reference model of vlib/hmodel.py; SQLite only. A before_* call that is followed by no statement (nothing changed) is not judged: the property quantifies over objects written.',
    'rule': 'one case = one generated history with a random hook-body assignment; distinct = distinct (diagram, hook modes, operation list); non-trivial = at least 3 data statements matched with their hooks',
    'assumptions': ['SQLite only', 'entities with single-column explicit integer primary keys', 'hook bodies: noop, read, modify, create, modify_other, link; after hooks: noop, read, modify_once, modify_other_once (at most 2 after-hook edits per pony call)'],
    'design_ref': 'DESIGN.md 3 C33',
}
SHARDS = {'quick': 4, 'thorough': 16}
SHARD_TIMEOUT = {'quick': 300, 'thorough': 1500}
N = {'quick': 400, 'thorough': 1200}
OPS = {'quick': 30, 'thorough': 50}
import re

TEMPLATES = ['m2m', 'o2m_req', 'o2m_req_nocascade', 'o2o_opt', 'o2o_req', 'o2o_req_cascade', 'self', 'inherit', 'rich']
MODES = ['noop', 'read', 'modify', 'create', 'modify_other', 'link']
AFTER_MODES = ['noop', 'read', 'modify_once', 'modify_other_once']
WEIGHTS = {'create': 12, 'set': 16, 'setmany': 6, 'add': 8, 'remove': 5, 'assign': 2, 'clear': 1, 'delete': 8,
           'flush': 8, 'commit': 5, 'rollback': 1, 'end': 4, 'abort': 1,
           'read': 4, 'coll': 4, 'bypk': 2, 'bykey': 1, 'selectall': 2, 'selectcmp': 1, 'count': 1, 'todict': 1}

INS = re.compile(r'^INSERT INTO "(\w+)" \((.*?)\) VALUES')
UPD = re.compile(r'^UPDATE "(\w+)"\s+SET (.*?)\s+WHERE "id" = \?', re.S)
DEL = re.compile(r'^DELETE FROM "(\w+)"\s+WHERE "id" = \?', re.S)


def hooked_spec(spec):
    import copy
    s = copy.deepcopy(spec)
    roots = [e for e in s['entities'] if not e.get('base')]
    for e in roots:
        e['attrs'].append({'name': 'hk', 'kind': 'scalar', 'type': 'int', 'required': False})
        # a many-to-many relationship owned by the hooks (generated operations never touch it)
        e['attrs'].append({'name': 'hklinks', 'kind': 'set', 'target': 'HLog', 'reverse': 'on_' + e['name']})
    s['entities'].append({'name': 'HLog', 'pk': ['id'], 'attrs': [
        {'name': 'id', 'kind': 'scalar', 'type': 'int', 'required': True},
        {'name': 'src', 'kind': 'scalar', 'type': 'str', 'required': False, 'nullable': True},
        {'name': 'hk', 'kind': 'scalar', 'type': 'int', 'required': False}] +
        [{'name': 'on_' + e['name'], 'kind': 'set', 'target': e['name'], 'reverse': 'hklinks'} for e in roots]})
    s['name'] = spec['name'] + '+hooks'
    return s


class HookState(object):
    def __init__(self, modes):
        self.modes = modes          # {(entity name, hook name): mode}
        self.eng = None
        self.log = []               # (seq, hook, table, pk)
        self.effects = []           # ('set', pony obj, value) | ('create', pony obj, pk, src)
        self.counter = 1000
        self.errors = []
        self.after_budget = 0       # after-hook edits left in the current pony call (bounds the flush rounds)


def pick_other(eng, obj, entity=None):
    """another live object of the session that the harness knows (deterministic: smallest handle id)"""
    for oid in sorted(eng.h):
        p = eng.h[oid]
        if p is obj or not isinstance(oid, int) or oid >= 100000 or oid not in eng.working.objs: continue
        if p._status_ in ('marked_to_delete', 'deleted', 'cancelled'): continue
        if entity is not None and eng.working.objs[oid].ent not in eng.rules.ents[entity].subclasses: continue
        return oid, p
    return None, None


def make_hooks(spec, st):
    hooks = {}
    for e in spec['entities']:
        d = {}
        for hook in ('before_insert', 'before_update', 'before_delete', 'after_insert', 'after_update', 'after_delete'):
            def f(obj, hook=hook):
                eng = st.eng
                cls = type(obj)
                table = cls._root_._table_
                st.log.append((next(eng.rec.seq), hook, table if isinstance(table, str) else table[-1], obj._pkval_, cls.__name__))
                if cls.__name__ == 'HLog': mode = 'modify' if hook == 'before_insert' else 'noop'   # the log object has hooks of its own
                else: mode = st.modes.get((cls.__name__, hook), 'noop')
                before = hook.startswith('before')
                n_effects = len(st.effects)
                try:
                    if mode == 'read':
                        obj.hk
                    elif mode == 'modify' and hook in ('before_insert', 'before_update'):
                        st.counter += 1
                        obj.hk = st.counter
                        st.effects.append(('set', obj, st.counter))
                    elif mode == 'create' and before:
                        st.counter += 1
                        h = eng.cls['HLog'](id=st.counter, src='%s:%s' % (hook, obj._pkval_))
                        st.effects.append(('create', h, st.counter, '%s:%s' % (hook, obj._pkval_)))
                    elif mode == 'modify_other' and hook in ('before_insert', 'before_update'):
                        oid, other = pick_other(eng, obj)
                        if other is not None:
                            st.counter += 1
                            other.hk = st.counter
                            st.effects.append(('set', other, st.counter)); eng.c('hooks.modified_other_object')
                    elif mode == 'link' and hook in ('before_insert', 'before_update'):
                        me = eng._peek_oid(obj)
                        if isinstance(me, int) and me in eng.working.objs:
                            cur = sorted(eng.working.objs[me].vals.get('hklinks', ()))
                            st.counter += 1
                            if cur and st.counter % 3 == 0 and eng.h.get(cur[0]) is not None:
                                obj.hklinks.remove(eng.h[cur[0]])
                                st.effects.append(('link', me, 'hklinks', cur[0], 'remove'))
                            elif cur and st.counter % 3 == 1:
                                # link to a log object that already exists (that of another object if there is one)
                                toid = next((o for o in sorted(eng.h) if isinstance(o, int) and o >= 100000 and o not in cur and o in eng.working.objs), None)
                                if toid is not None:
                                    obj.hklinks.add(eng.h[toid])
                                    st.effects.append(('link', me, 'hklinks', toid, 'add'))
                            else:
                                h = eng.cls['HLog'](id=st.counter, src='%s:%s' % (hook, obj._pkval_))
                                st.effects.append(('create', h, st.counter, '%s:%s' % (hook, obj._pkval_)))
                                obj.hklinks.add(h)
                                st.effects.append(('link', me, 'hklinks', 100000 + st.counter, 'add'))
                            eng.c('hooks.m2m_link_changed')
                    elif mode in ('modify_once', 'modify_other_once') and hook in ('after_insert', 'after_update') and st.after_budget > 0:
                        target = obj
                        if mode == 'modify_other_once': target = pick_other(eng, obj)[1]
                        if target is not None and target._status_ not in ('marked_to_delete', 'deleted', 'cancelled'):
                            st.after_budget -= 1
                            st.counter += 1
                            target.hk = st.counter
                            st.effects.append(('set', target, st.counter)); eng.c('hooks.after_hook_edits')
                except Exception as ex:
                    st.errors.append((hook, type(ex).__name__, str(ex)[:120]))
                    # the hook failed (loud; the pony call that triggered the flush fails with it): whatever this hook
                    # call had recorded so far is not applied to the reference model
                    del st.effects[n_effects:]
                    raise
                # hook edits are in-memory changes of the session: they reach the reference model at once; a later
                # rollback discards them together with everything else the session did
                apply_effects(eng, st)
            d[hook] = f
        hooks[e['name']] = d
    return hooks


def apply_effects(eng, st):
    """hook edits -> reference model (working state)"""
    from vlib import hmodel
    states = [eng.working] + ([eng.candidate] if getattr(eng, 'candidate', None) is not None else [])
    for ef in st.effects:
        if ef[0] == 'set':
            oid = eng._peek_oid(ef[1])      # the object need not be one of the harness handles
            for state in states:
                if isinstance(oid, int) and oid in state.objs: state.objs[oid].vals['hk'] = ef[2]
        elif ef[0] == 'link':
            _, me, n, toid, how = ef
            for state in states:
                if me in state.objs and toid in state.objs:
                    try: (state.coll_add if how == 'add' else state.coll_remove)(me, n, [toid])
                    except hmodel.ModelRefuse: eng.c('hooks.model_refused_link')
        else:
            _, h, pk, src = ef
            oid = 100000 + pk
            for state in states:
                if oid not in state.objs: state.create(oid, 'HLog', {'id': pk, 'src': src})
            eng.h[oid] = h; eng.rev[id(h)] = oid
    del st.effects[:]


def check_log(eng, st, tables):
    """offline exactly-once check. returns (violations, matched statement count)"""
    events = []
    for e in eng.rec.events:
        if e['phase'] == 'ret' and e['kind'] in ('execute', 'executemany'):
            # statement finished: use the 'call' record's args
            continue
        if e['phase'] == 'call' and e['kind'] in ('execute', 'executemany'):
            sql = (e['sql'] or '').strip()
            args = e['args']
            arglists = args if e['kind'] == 'executemany' else [args]
            for a in arglists:
                m = INS.match(sql)
                if m and m.group(1) in tables:
                    cols = [c.strip().strip('"') for c in m.group(2).split(',')]
                    if 'id' in cols: events.append((e['seq'], 'stmt', 'insert', m.group(1), a[cols.index('id')]))
                    continue
                m = UPD.match(sql)
                if m and m.group(1) in tables:
                    events.append((e['seq'], 'stmt', 'update', m.group(1), a[m.group(2).count('?')])); continue
                m = DEL.match(sql)
                if m and m.group(1) in tables:
                    events.append((e['seq'], 'stmt', 'delete', m.group(1), a[0])); continue
        elif e['phase'] == 'call' and e['kind'] in ('commit', 'rollback'):
            events.append((e['seq'], 'boundary', e['kind'], None, None))
    for seq, hook, table, pk, cname in st.log:
        if hook == 'step_end':
            events.append((seq, 'step_end', table, None, None)); continue
        when, kind = hook.split('_')
        events.append((seq, when, kind, table, pk))
    events.sort(key=lambda x: x[0])
    viol = []
    before = {}; after = {}
    phase = None
    matched = 0
    for seq, typ, kind, table, pk in events:
        key = (kind, table, pk)
        if typ == 'before':
            # a before_* call that follows after_* calls opens a new flush round (also a nested one, started by a query
            # inside an after hook): the statements of the earlier round are all done, so its before_* calls that were
            # followed by no statement (nothing to write) cannot belong to a statement of this round
            if phase == 'after': before.clear()
            phase = 'before'
            before[key] = before.get(key, 0) + 1
        elif typ == 'stmt':
            phase = 'stmt'
            n = before.pop(key, 0)
            if n != 1: viol.append({'kind': 'statement_with_%d_before_hooks' % n, 'stmt': kind, 'table': table, 'pk': pk, 'seq': seq})
            else: matched += 1
            # a hook that runs a query (e.g. reads a not yet loaded attribute) makes pony flush again from inside the
            # after-hook loop: a second statement for the same object may then precede the after_* call that belongs
            # to the first one.  Every statement must still be followed by one after_* call of its own: count them.
            if after.get(key): eng.c('hooks.nested_flush_statement_before_pending_after_hook')
            after[key] = after.get(key, 0) + 1
        elif typ == 'after':
            phase = 'after'
            # the round that called this object's before_* hook is over; if no statement followed (no column changed)
            # that before_* call is not judged and must not be counted against a statement of the next round
            before.pop(key, None)
            n = after.get(key, 0)
            # n == 0: after_* for an object whose statement was skipped because nothing changed - the property
            # quantifies over objects written, so this is counted, not judged
            if n == 0: eng.c('hooks.after_without_statement')
            elif n == 1: del after[key]
            else: after[key] = n - 1
        elif typ == 'boundary':
            if kind == 'commit':
                for k in list(after):
                    viol.append({'kind': 'statement_without_after_hook_before_commit', 'stmt': k[0], 'table': k[1], 'pk': k[2], 'seq': seq})
            before.clear(); after.clear()
        elif typ == 'step_end':
            # a before_* call without a statement (nothing changed, or the flush failed first) is not judged
            before.clear()
            if kind == 'ok':
                for k in list(after):
                    viol.append({'kind': 'statement_without_after_hook_in_same_call', 'stmt': k[0], 'table': k[1], 'pk': k[2], 'seq': seq})
            after.clear()
    return viol, matched


def run_history(spec, modes, workdir, rng, n_ops, ops=None, force_load=False, name='hk'):
    from vlib import hist, hops
    import random as _random
    st = HookState(modes)
    hs = hooked_spec(spec)
    counts = {}
    eng = hist.Engine(hs, workdir, name=name, count=counts, hooks=make_hooks(hs, st), force_load=force_load)
    st.eng = eng
    # classification replays (deviation rule of the known unloaded-reference finding) must run with the same hooks
    eng.replayer = lambda ops2, fl: run_history(spec, modes, workdir, _random.Random(0), 0, ops=ops2, force_load=fl, name='hkcls')[0].reports
    eng.gen_exclude = {'HLog'}
    eng.followup_rate = 0.3      # obj.flush() of the object just created / changed (with its unsaved principals), often
    eng.gen_exclude_attrs = {'hk', 'hklinks'}      # the hook-owned attribute is written by hooks only
    orig_step = eng.step
    def step(op):
        st.after_budget = 2
        out = orig_step(op)
        apply_effects(eng, st)
        # every harness step is a quiescent point: hooks and their statements happen inside one pony call
        st.log.append((next(eng.rec.seq), 'step_end', 'raised' if out.startswith('raised') or out == 'diverged' else 'ok', None, None))
        return out
    # hook effects must reach the model before the monitors of the same step look at the cache: wrap walk_model
    orig_walk_model = eng.walk_model
    def walk_model():
        apply_effects(eng, st)
        return orig_walk_model()
    eng.walk_model = walk_model
    # reads may flush implicitly: hook edits must reach the model before the expected answer is computed
    orig_learn = eng._learn_auto_pks
    def learn(strict=True):
        apply_effects(eng, st)
        return orig_learn(strict)
    eng._learn_auto_pks = learn
    orig_observe = eng.observe_commit
    def observe_commit(where):
        if where in ('commit', 'end'):
            apply_effects(eng, st)
            eng.committed = eng.working.copy()
        return orig_observe(where)
    eng.observe_commit = observe_commit
    eng.step = step
    try:
        if ops is None:
            ops = hops.random_history(eng, rng, n_ops, weights=WEIGHTS, invalid_rate=0.05, seed_objects=6)
        else:
            hops.run_history(eng, ops)
    finally:
        eng.close()
    tables = set(eng.meta['tables'].values())
    viol, matched = check_log(eng, st, tables)
    return eng, st, ops, viol, matched, counts


def run(ctx):
    import random
    from vlib import hschema, hfindings
    from vlib.common import fp
    workdir = ctx.tmp()
    templates = [t for t in hschema.fixed_templates() if t['name'] in TEMPLATES]
    n = N[ctx.tier]
    start = ctx.shard * n
    for i in range(start, start + n):
        rng = random.Random('%s/%d/%d' % (ctx.pid, ctx.seed, i))
        spec = templates[i % len(templates)]
        modes = {}
        for e in spec['entities']:
            for hook in ('before_insert', 'before_update', 'before_delete', 'after_insert', 'after_update', 'after_delete'):
                modes[(e['name'], hook)] = rng.choice(MODES if hook.startswith('before') else AFTER_MODES)
        try:
            eng, st, ops, viol, matched, counts = run_history(spec, modes, workdir, rng, OPS[ctx.tier])
        except Exception as e:
            ctx.count('harness_error.' + type(e).__name__); continue
        ctx.count('hook_calls', len(st.log)); ctx.count('statements_matched', matched)
        for h in st.log: ctx.count('hook.' + h[1])
        for k, v in counts.items():
            if k.startswith(('commit.', 'outcome.', 'read.judged', 'report.')): ctx.count(k, v)
        mj = {'%s.%s' % k: v for k, v in modes.items()}
        ctx.case(fp([spec['name'], mj, ops]), nontrivial=matched >= 3,
                 sample={'spec': spec['name'], 'modes': mj, 'ops': ops[:8], 'hook_calls': len(st.log), 'statements_matched': matched} if i - start < 2 else None)
        for v in viol[:3]:
            ctx.violation({'spec': spec, 'modes': mj, 'ops': ops, 'log_violation': v, 'hook_errors': st.errors[:3]},
                          mechanism='hooks.' + v['kind'].split('_with_')[0])
        seen = set()
        for r in eng.reports:
            if r.monitor not in ('commit', 'read', 'cachemodel'): continue
            if (r.monitor, r.kind) in seen: continue
            seen.add((r.monitor, r.kind))
            fid = hfindings.classify(ctx.pid, r, eng, ops)
            w = {'spec': spec, 'modes': mj, 'ops': ops, 'report': r.as_dict(), 'hook_errors': st.errors[:3]}
            if fid: ctx.finding(fid, w)
            else: ctx.violation(w, mechanism='hook_edits_not_saved.%s.%s' % (r.monitor, r.kind))
    ctx.floor('statements_matched', 700)
    ctx.floor('hook_calls', 1500)


def replay(ctx, witness):
    import random
    modes = {tuple(k.split('.')): v for k, v in witness['modes'].items()}
    eng, st, ops, viol, matched, counts = run_history(witness['spec'], modes, ctx.tmp(), random.Random(0), 0, ops=witness['ops'])
    for v in viol: ctx.violation({'log_violation': v}, mechanism='hooks.' + v['kind'])
    for r in eng.reports:
        if r.monitor in ('commit', 'read', 'cachemodel'): ctx.violation({'report': r.as_dict()}, mechanism='hook_edits_not_saved')

"""C17 — a session's writes are atomic under crashes and database errors.

Generated write programs (1-3 db_sessions; creates, updates, deletes, cascade deletes, many-to-many changes,
raw db.execute()/db.insert() inside the session, explicit flush()/commit(); optimistic, immediate, serializable
and optimistic=False sessions) run on a FILE-backed SQLite database whose DB-API boundary is the E3 recorder.

 1. clean run: counts the boundary events and records the reference state (plain sqlite3 dump) after every
    commit() that returned: S0 (initial), S1, ... Sm.
 2. crash mode, for EVERY boundary call k, once before the call and once after it returned:
      (real)      a separate process replays the program on a fresh copy of the initial file and os._exit(137)s at
                  that event; it reports every commit() that returned by appending a line to a side file (fsync)
                  before it proceeds;
      (simulated) in-process: at that event the database file and its journal are copied as they are on disk and
                  no later DB-API call reaches SQLite any more (so no cleanup code of pony can touch the file).
    Every program gets the simulated enumeration; a subset additionally gets the real one, and the two must leave
    the same state at every point (harness self-check).  The checker then opens the crashed file with plain
    sqlite3 (hot-journal recovery) and requires
        state == S[a]                      a = number of acknowledged commits
     or state == S[a+1]                    only if the crash happened inside/after the (a+1)-th commit call;
    plus: along increasing k the state index never decreases; integrity_check / foreign_key_check are clean.
 3. error mode, same enumeration in-process: sqlite3.OperationalError raised at event k (before / after the call).
    The state afterwards must be S[j], j = number of commit() calls that reached SQLite, i.e. nothing of a session
    whose commit did not happen is in the file; a following pony session must succeed, must read exactly that
    state, and its own write must be added to it.
 4. interrupt / abort modes: the same oracle when the session is cut short by SystemExit / KeyboardInterrupt /
    GeneratorExit (BaseExceptions that are not Exceptions: the process is being told to stop), raised inside every
    DB-API call and at every operation boundary of every session body; sessions come as `with db_session` blocks and as
    @db_session-decorated functions.
 5. boundary invariant, checked in every in-process run including the clean one: right after a data-modifying
    statement returned, sqlite3's connection.in_transaction must be True (pony binds with isolation_level=None, so a DML
    statement outside BEGIN..COMMIT is committed on the spot).  Programs push single objects with obj.flush() (created,
    updated and deleted objects), also as the very first write of a session.
 6. reconnect sub-mode: the same with a "connection lost" error before every call and a provider whose
    should_reconnect() answers True (as the PostgreSQL/MySQL/Oracle providers do): pony's shared reconnect logic runs;
    the oracle is unchanged.
"""

META = {
    'level': 'fault_enumeration',
    'engine': 'E3',
    'technique': 'runtime monitor: crash (os._exit in a replaying process; file+journal freeze in-process) and sqlite3 error at '
                 'every DB-API boundary event, before and after the call; oracle = set of commit-boundary reference states '
                 'from a clean run + commit acknowledgements; monotone state index; follow-up session',
    'level_text': 'For every generated program every boundary event index is used as a crash point and as an error point '
                  '(before the call and after it returned); the real pony code runs each plan on a file database and the '
                  'file is read back by plain sqlite3.  Programs are sampled from a grammar, the fault points of each '
                  'program are enumerated completely.',
    'level_note': 'Trusted: sqlite3 (journal recovery, commit durability against process death on tmpfs), the recorder '
                  'subclass, the reference states taken from a clean run of the same program on the same tree (so a '
                  'program whose clean run already loses or tears data is not detected here; that is C09). Crashes '
                  'happen at DB-API call boundaries, not inside SQLite; power loss is not modelled. The in-process crash '
                  'simulation (file and journal copied at the crash instant, later DB-API calls cut off) is trusted to '
                  'equal process death; it is cross-checked against real os._exit(137) children on a subset of programs. '
                  'Real crash children are forked from a driver process that has bound the Database (no connection open).',
    'rule': 'case = (program, crash|realcrash|error|interrupt|abort|reconnect, boundary call index k or operation boundary, before|after); k runs over every boundary call of the '
            'clean run; a case is non-trivial if its fault point was reached; programs differ in session count, modes, '
            'operation sequence and raw-statement placement',
    'assumptions': [
        'SQLite only; the PostgreSQL autocommit switching named in the property anchors cannot be executed here',
        'the reconnect sub-mode uses a SQLiteProvider subclass that overrides only should_reconnect(); the dropped '
        'connection is closed by Pool.drop, which rolls its transaction back like a server does for a lost client',
        'a program whose clean run raises is skipped and counted (outcome.clean_run_failed)',
        'a watchdog firing never yields a verdict: in the simulated crash / error enumerations it makes the run inconclusive; '
        'in the real-process cross-check (every point of which is also covered by the simulated mode) it is counted and the '
        'run is inconclusive if fewer real crash points than the floor were judged',
    ],
    'shims': [],
    'exhaustive_tiers': [],
}

SHARDS = {'quick': 3, 'thorough': 16}
SHARD_TIMEOUT = {'quick': 110, 'thorough': 1200}

import os, sys, gc, json, time, shutil, sqlite3, subprocess, threading

CHILD = os.path.join(os.path.dirname(os.path.abspath(__file__)), '_c17_child.py')
MODES = {'optimistic': {}, 'immediate': {'immediate': True}, 'serializable': {'serializable': True},
         'pessimistic': {'optimistic': False}}
WATCHDOG = 20.0


# ----------------------------------------------------------------------------------------------------------
# schema, template database
# ----------------------------------------------------------------------------------------------------------

def define_entities(db):
    from pony.orm import PrimaryKey, Required, Optional, Set
    class Person(db.Entity):
        id = PrimaryKey(int)
        name = Required(str)
        age = Required(int)
        note = Optional(str)
        tags = Set('Tag')
        pets = Set('Pet')
    class Tag(db.Entity):
        id = PrimaryKey(int)
        label = Required(str)
        people = Set(Person)
    class Pet(db.Entity):
        id = PrimaryKey(int)
        name = Required(str)
        owner = Required(Person)
    class Audit(db.Entity):
        id = PrimaryKey(int, auto=True)
        msg = Required(str)
        n = Required(int, default=0)
    return {'Person': Person, 'Tag': Tag, 'Pet': Pet, 'Audit': Audit}


INITIAL = {
    'persons': {1: ('ann', 31), 2: ('bob', 42), 3: ('cy', 53), 4: ('di', 64)},
    'tags': {1: 'red', 2: 'green', 3: 'blue'},
    'pets': {1: ('rex', 1), 2: ('tom', 1), 3: ('kit', 3)},
    'links': [(1, 1), (1, 2), (2, 2), (3, 3)],
}


def build_template(path):
    from pony.orm import Database, db_session
    for sfx in ('', '-journal'):
        if os.path.exists(path + sfx): os.remove(path + sfx)
    db = Database()
    E = define_entities(db)
    db.bind('sqlite', path, create_db=True)
    db.generate_mapping(create_tables=True)
    with db_session:
        tags = {i: E['Tag'](id=i, label=l) for i, l in INITIAL['tags'].items()}
        ps = {i: E['Person'](id=i, name=n, age=a) for i, (n, a) in INITIAL['persons'].items()}
        for i, (n, o) in INITIAL['pets'].items(): E['Pet'](id=i, name=n, owner=ps[o])
        for p, t in INITIAL['links']: ps[p].tags.add(tags[t])
        E['Audit'](msg='init', n=0)
    db.disconnect()
    return path


class ConnectionLost(sqlite3.OperationalError):
    """Injected in the 'reconnect' sub-mode: the error a driver reports when the server connection is gone."""


def open_db(path, rec, reconnecting=False):
    """Bind a fresh Database to an existing file through the recorder; the pool is left empty so that the
    program's first statement has to connect (identical in the clean run, the error runs and the children).

    reconnecting=True binds through a SQLiteProvider subclass whose ONLY difference is should_reconnect(): it answers
    True for ConnectionLost, the way PGProvider / MySQLProvider / OraProvider answer True for their "connection lost"
    errors.  The reconnect logic itself (SessionCache.reconnect/connect, DBAPIProvider.drop) is shared core code."""
    from pony.orm import Database
    db = Database()
    E = define_entities(db)
    if reconnecting:
        from pony.orm.dbproviders.sqlite import SQLiteProvider
        class ReconnectingProvider(SQLiteProvider):
            def should_reconnect(provider, exc):
                return isinstance(exc, ConnectionLost)
        db.bind(ReconnectingProvider, path, create_db=False, factory=rec.factory(), timeout=1.0)
    else:
        db.bind('sqlite', path, create_db=False, factory=rec.factory(), timeout=1.0)
    db.generate_mapping(create_tables=False, check_tables=False)
    db.disconnect()
    return db, E


def restore(template, path):
    for sfx in ('-journal', '-wal', '-shm'):
        if os.path.exists(path + sfx): os.remove(path + sfx)
    shutil.copyfile(template, path)


# ----------------------------------------------------------------------------------------------------------
# program generator
# ----------------------------------------------------------------------------------------------------------

def gen_program(rng, serial):
    """-> list of sessions {'mode':..., 'ops': [...]}.  A tiny model keeps the operations valid."""
    persons = {i: {'tags': set(t for p, t in INITIAL['links'] if p == i), 'pets': set(k for k, (n, o) in INITIAL['pets'].items() if o == i)}
               for i in INITIAL['persons']}
    tags = set(INITIAL['tags'])
    pets = {k: o for k, (n, o) in INITIAL['pets'].items()}
    next_id = [100]
    seg = [0]

    def fresh():
        next_id[0] += 1
        return next_id[0]

    def marker_op():
        """every commit segment contains at least one write that makes its state unique"""
        seg[0] += 1
        kind = rng.choice(('tag', 'audit_insert', 'audit_raw', 'person'))
        if kind == 'tag':
            t = fresh(); tags.add(t)
            return ['new_tag', t, 'seg%d-%d' % (serial, seg[0])]
        if kind == 'person':
            p = fresh(); persons[p] = {'tags': set(), 'pets': set()}
            return ['new_person', p, 'seg%d-%d' % (serial, seg[0]), seg[0]]
        if kind == 'audit_insert':
            return ['insert', 'Audit', {'msg': 'seg%d-%d' % (serial, seg[0]), 'n': seg[0]}]
        return ['raw', 'INSERT INTO Audit (msg, n) VALUES ($m, $n)', {'m': 'seg%d-%d' % (serial, seg[0]), 'n': seg[0]}]

    def probe_op(orm_touched):
        """a write on ONE object that is pushed to the database by that object's own flush() -- created, updated or deleted"""
        kind = rng.choice(('del', 'del', 'set', 'new'))
        if kind == 'del':
            cands = [('Pet', k) for k in sorted(pets)] + ([('Tag', t) for t in sorted(tags)] if len(tags) > 1 else []) \
                    + ([('Person', p) for p in sorted(persons)] if len(persons) > 2 else [])
            if cands:
                cls, i = rng.choice(cands)
                if cls == 'Pet':
                    orm_touched.add(pets[i]); persons[pets[i]]['pets'].discard(i); del pets[i]
                elif cls == 'Tag':
                    tags.discard(i)
                    for p in persons: persons[p]['tags'].discard(i)
                else:
                    orm_touched.add(i)
                    for k in list(persons[i]['pets']): pets.pop(k, None)
                    del persons[i]
                return ['del', cls, i, 'F']
            kind = 'set'
        if kind == 'set':
            p = rng.choice(sorted(persons)); orm_touched.add(p)
            attr = rng.choice(('age', 'name', 'note'))
            val = rng.randint(100, 199) if attr == 'age' else '%s%d' % (attr, rng.randint(1000, 1999))
            return ['set', 'Person', p, attr, val, 'F']
        p = fresh(); persons[p] = {'tags': set(), 'pets': set()}; orm_touched.add(p)
        return ['new_person', p, 'p%d' % p, rng.randint(1, 90), 'F']

    prog = []
    nsess = rng.choice((1, 1, 2, 2, 3))
    for si in range(nsess):
        mode = rng.choice(('optimistic', 'optimistic', 'optimistic', 'immediate', 'serializable', 'pessimistic'))
        form = rng.choice(('with', 'with', 'decorator'))
        ops = []
        orm_touched, raw_touched = set(), set()
        nops = rng.randint(2, 7)
        segments = [[]]
        # the session's very first write may be a per-object flush (obj.flush() does not go through cache.flush())
        first_probe = rng.random() < 0.6
        if first_probe: segments[0].append(probe_op(orm_touched))
        for oi in range(nops):
            live = [p for p in persons if p not in raw_touched]
            r = rng.random()
            op = None
            if r < 0.14:
                p = fresh(); persons[p] = {'tags': set(), 'pets': set()}; orm_touched.add(p)
                op = ['new_person', p, 'p%d' % p, rng.randint(1, 90)]
            elif r < 0.30 and live:
                p = rng.choice(live); orm_touched.add(p)
                attr = rng.choice(('age', 'name', 'note'))
                val = rng.randint(1, 99) if attr == 'age' else '%s%d' % (attr, rng.randint(0, 999))
                op = ['set', 'Person', p, attr, val]
            elif r < 0.38 and live:
                p = rng.choice(live); orm_touched.add(p)
                k = fresh(); pets[k] = p; persons[p]['pets'].add(k)
                op = ['new_pet', k, 'pet%d' % k, p]
            elif r < 0.46 and pets:
                k = rng.choice(sorted(pets))
                if pets[k] not in raw_touched:
                    if rng.random() < 0.5:
                        op = ['set', 'Pet', k, 'name', 'n%d' % rng.randint(0, 999)]; orm_touched.add(pets[k])
                    else:
                        orm_touched.add(pets[k]); persons[pets[k]]['pets'].discard(k); del pets[k]
                        op = ['del', 'Pet', k]
            elif r < 0.54 and len(live) > 2:
                p = rng.choice(live); orm_touched.add(p)
                for k in list(persons[p]['pets']): pets.pop(k, None)
                del persons[p]
                op = ['del', 'Person', p]
            elif r < 0.66 and live and tags:
                p = rng.choice(live); orm_touched.add(p)
                cand = sorted(tags - persons[p]['tags'])
                if cand:
                    ts = rng.sample(cand, min(len(cand), rng.choice((1, 2, 3))))
                    persons[p]['tags'].update(ts)
                    op = ['link', p, ts]
            elif r < 0.74 and live:
                cands = [p for p in live if persons[p]['tags']]
                if cands:
                    p = rng.choice(cands); orm_touched.add(p)
                    ts = rng.sample(sorted(persons[p]['tags']), rng.choice((1, len(persons[p]['tags']))))
                    persons[p]['tags'].difference_update(ts)
                    op = ['unlink', p, ts]
            elif r < 0.80:
                cand = [p for p in persons if p not in orm_touched]
                if cand:
                    p = rng.choice(cand); raw_touched.add(p)
                    op = ['raw', 'UPDATE Person SET age = age + $d WHERE id = $i', {'d': rng.randint(1, 5), 'i': p}]
            elif r < 0.86:
                op = rng.choice([['raw', 'UPDATE Audit SET n = n + $d', {'d': rng.randint(1, 3)}],
                                 ['insert', 'Audit', {'msg': 'a%d' % fresh(), 'n': rng.randint(0, 9)}],
                                 ['raw', 'DELETE FROM Audit WHERE n > $k', {'k': rng.randint(3, 12)}]])
            elif r < 0.90:
                op = ['flush']
            elif r < 0.95 and not raw_touched:
                p = rng.choice(sorted(persons)); orm_touched.add(p)
                op = ['read', 'person', p]
            elif r < 0.98 and len(segments[-1]) > 0 and oi < nops - 1:
                segments[-1].append(['commit']); segments.append([])
                continue
            if op is not None:
                if op[0] in ('new_person', 'new_pet', 'set', 'del') and rng.random() < 0.3: op.append('F')
                segments[-1].append(op)
        for gi, sg in enumerate(segments):
            body = [o for o in sg if o[0] != 'commit']
            lo = 1 if (gi == 0 and first_probe) else 0
            body.insert(rng.randint(lo, len(body)), marker_op())
            ops.extend(body)
            if sg and sg[-1][0] == 'commit': ops.append(['commit'])
        prog.append({'mode': mode, 'form': form, 'ops': ops})
    return prog


# ----------------------------------------------------------------------------------------------------------
# interpreter
# ----------------------------------------------------------------------------------------------------------

def apply_op(db, E, op):
    """A trailing 'F' on an object operation means: push exactly this object with obj.flush() right away."""
    from pony.orm import flush, commit, select
    kind = op[0]
    own_flush = op[-1] == 'F' and kind in ('new_person', 'new_tag', 'new_pet', 'set', 'del')
    o = None
    if kind == 'new_person': o = E['Person'](id=op[1], name=op[2], age=op[3])
    elif kind == 'new_tag': o = E['Tag'](id=op[1], label=op[2])
    elif kind == 'new_pet': o = E['Pet'](id=op[1], name=op[2], owner=E['Person'][op[3]])
    elif kind == 'set':
        o = E[op[1]][op[2]]
        setattr(o, op[3], op[4])
    elif kind == 'del':
        o = E[op[1]][op[2]]
        o.delete()
    elif kind == 'link': E['Person'][op[1]].tags.add([E['Tag'][t] for t in op[2]])
    elif kind == 'unlink': E['Person'][op[1]].tags.remove([E['Tag'][t] for t in op[2]])
    elif kind == 'raw': db.execute(op[1], {}, dict(op[2]))
    elif kind == 'insert': db.insert(op[1], **op[2])
    elif kind == 'flush': flush()
    elif kind == 'commit': commit()
    elif kind == 'read':
        p = E['Person'][op[2]]
        (p.name, p.age, len(p.tags), [x.name for x in p.pets])
    else: raise ValueError(op)
    if own_flush: o.flush()


ABORTS = {'SystemExit': SystemExit, 'KeyboardInterrupt': KeyboardInterrupt, 'GeneratorExit': GeneratorExit}


def run_session(db, E, sess, abort_at=None, abort_exc=None):
    """form 'with': `with db_session(...)`; form 'decorator': a function decorated with @db_session(...).
    abort_at = i: the body is terminated by the BaseException `abort_exc` right before its i-th operation
    (i == len(ops): after the last one) -- the process is being told to stop (SystemExit from a signal handler, Ctrl-C)."""
    from pony.orm import db_session
    kw = MODES[sess['mode']]
    ops = sess['ops']
    def body():
        for i, op in enumerate(ops):
            if abort_at == i: raise ABORTS[abort_exc]('injected abort before operation %d' % i)
            apply_op(db, E, op)
        if abort_at == len(ops): raise ABORTS[abort_exc]('injected abort after the last operation')
    if sess.get('form') == 'decorator':
        wrapped = db_session(**kw)(body) if kw else db_session(body)
        wrapped()
    else:
        with db_session(**kw):
            body()


def run_program(db, E, prog):
    for sess in prog: run_session(db, E, sess)


def dump(path):
    from vlib.dbapi import raw_dump
    d = raw_dump(path)
    return {t: [list(map(repr, r)) for r in v['rows']] for t, v in d.items()}


def state_index(states, st, start=0):
    for i in range(start, len(states)):
        if states[i] == st: return i
    return None


def diff_states(a, b):
    out = {}
    for t in sorted(set(a) | set(b)):
        ra, rb = a.get(t, []), b.get(t, [])
        if ra != rb:
            sa, sb = set(map(tuple, ra)), set(map(tuple, rb))
            out[t] = {'missing': sorted(sa - sb)[:4], 'extra': sorted(sb - sa)[:4]}
    return out


# ----------------------------------------------------------------------------------------------------------
# clean run
# ----------------------------------------------------------------------------------------------------------

def clean_run(template, workfile, prog):
    """-> dict(states, n_call, n_ret, commit_calls (1-based call indices), commit_rets (1-based ret indices)) or error."""
    from vlib.faults import HookRecorder
    rec = HookRecorder()
    restore(template, workfile)
    db, E = open_db(workfile, rec)
    from vlib.faults import write_outside_transaction
    states = [dump(workfile)]
    autocommitted = []
    rec.clear()
    def hook(ev):
        if ev['kind'] == 'commit' and ev['phase'] == 'ret': states.append(dump(workfile))
        w = write_outside_transaction(rec, ev)
        if w: autocommitted.append(w)
    rec.after_hook = hook
    evs = None
    try:
        run_program(db, E, prog)
        evs = list(rec.events)
    except Exception as e:
        return {'error': repr(e)[:300]}
    finally:
        rec.after_hook = None
        try: db.disconnect()
        except Exception: pass
    calls = [e for e in evs if e['phase'] == 'call']
    rets = [e for e in evs if e['phase'] == 'ret']
    info = {'states': states, 'n_call': len(calls), 'n_ret': len(rets),
            'commit_call_idx': [i + 1 for i, e in enumerate(calls) if e['kind'] == 'commit'],
            'commit_ret_idx': [i + 1 for i, e in enumerate(rets) if e['kind'] == 'commit'],
            'kinds': sorted(set(e['kind'] for e in calls)),
            'n_exc': sum(1 for e in evs if e['phase'] == 'exc'),
            'n_dml': sum(1 for e in rets if e['kind'] in ('execute', 'executemany')
                         and (e.get('sql') or '').lstrip().split(' ', 1)[0].upper() in ('INSERT', 'UPDATE', 'DELETE')),
            'writes_outside_transaction': autocommitted,
            'final': dump(workfile)}
    return info


def allowed_after(info, k, phase):
    """Reference: which state indices are admissible when the fault/crash is at the k-th event of `phase`.
    -> (acked_expected, allowed set).  Only valid while the replay follows the clean run (no 'exc' events)."""
    cc, cr = info['commit_call_idx'], info['commit_ret_idx']
    if phase == 'call':
        # crash BEFORE the k-th call: commits whose call index < k have returned
        acked = sum(1 for c in cc if c < k)
        return acked, {acked}
    # crash AFTER the k-th call returned (at its 'ret' event): commits whose ret index < k returned and were acknowledged;
    # the commit whose ret index == k reached SQLite but was not acknowledged
    acked = sum(1 for r in cr if r < k)
    inflight = any(r == k for r in cr)
    return acked, ({acked, acked + 1} if inflight else {acked})


# ----------------------------------------------------------------------------------------------------------
# error mode (in-process)
# ----------------------------------------------------------------------------------------------------------

def followup(db, E, marker_id):
    """A following session: must succeed; returns what it read."""
    from pony.orm import db_session
    with db_session:
        persons = sorted((p.id, p.name, p.age, p.note, sorted(t.id for t in p.tags), sorted(x.id for x in p.pets))
                         for p in E['Person'].select())
        audit = sorted((a.id, a.msg, a.n) for a in E['Audit'].select())
        tags = sorted((t.id, t.label) for t in E['Tag'].select())
        E['Person'](id=marker_id, name='followup', age=1)
    return {'persons': persons, 'audit': audit, 'tags': tags}


def view_from_file(path):
    con = sqlite3.connect(path)
    try:
        links, pets = {}, {}
        for p, t in con.execute('select person, tag from Person_Tag'): links.setdefault(p, []).append(t)
        for i, o in con.execute('select id, owner from Pet'): pets.setdefault(o, []).append(i)
        persons = sorted((i, n, a, note, sorted(links.get(i, [])), sorted(pets.get(i, [])))
                         for i, n, a, note in con.execute('select id, name, age, note from Person'))
        audit = sorted(con.execute('select id, msg, n from Audit').fetchall())
        tags = sorted(con.execute('select id, label from Tag').fetchall())
        return {'persons': persons, 'audit': audit, 'tags': tags}
    finally:
        con.close()


def reconnect_facts(evs, fault_seq):
    """From the log of a 'reconnect' run: did pony drop a connection that had an open transaction with writes in it,
    open a new one and carry on?  -> dict or None"""
    f = next((e for e in evs if e['seq'] == fault_seq), None)
    if f is None: return None
    c0 = f['conn']
    in_txn, writes = False, 0
    for e in evs:
        if e['seq'] >= fault_seq: break
        if e['conn'] != c0 or e['phase'] != 'ret': continue
        if e['kind'] in ('commit', 'rollback'): in_txn, writes = False, 0
        elif e['kind'] in ('execute', 'executemany'):
            sql = (e.get('sql') or '').lstrip().upper()
            if sql.startswith('BEGIN'): in_txn, writes = True, 0
            elif in_txn and sql.split(' ', 1)[0] in ('INSERT', 'UPDATE', 'DELETE'): writes += 1
    later = [e for e in evs if e['seq'] > fault_seq]
    closed = any(e['conn'] == c0 and e['kind'] == 'close' and e['phase'] == 'ret' for e in later)
    newconn = [e['conn'] for e in later if e['kind'] == 'connect' and e['phase'] == 'ret']
    resumed = bool(newconn) and any(e['conn'] in newconn and e['kind'] in ('execute', 'executemany') and e['phase'] == 'ret'
                                    and (e.get('sql') or '').lstrip().upper().split(' ', 1)[0] in ('INSERT', 'UPDATE', 'DELETE')
                                    for e in later)
    return {'dropped_conn': c0, 'in_transaction_at_fault': in_txn, 'writes_lost': writes, 'old_connection_closed': closed,
            'new_connections': newconn, 'writes_resumed_on_new_connection': resumed}


def error_case(env, prog, info, k, phase, exc=None, abort=None):
    """One in-process plan.  Either an exception of class `exc` (default: an sqlite3.OperationalError) raised at the
    k-th boundary event of `phase`, or -- abort=(session index, operation index, BaseException name) -- the body of
    that session terminated by a BaseException at that operation boundary.  -> result dict"""
    from vlib.faults import SeqFault, write_outside_transaction
    rec, db, E = env['rec'], env['db'], env['E']
    res = {'k': k, 'phase': phase, 'problems': []}
    try: db.disconnect()
    except Exception: pass
    restore(env['template'], env['workfile'])
    rec.clear(); del rec.faults[:]
    f = None
    if abort is None:
        f = SeqFault(k, phase=phase, exc=exc)
        rec.faults.append(f)
    autocommitted = []
    def hook(ev):
        w = write_outside_transaction(rec, ev)
        if w: autocommitted.append(w)
    rec.after_hook = hook
    failed_at = None
    err = None
    try:
        for si, sess in enumerate(prog):
            try:
                if abort is not None and abort[0] == si: run_session(db, E, sess, abort[1], abort[2])
                else: run_session(db, E, sess)
            except BaseException as e:
                failed_at, err = si, repr(e)[:200]
                break
    finally:
        del rec.faults[:]
    res['fired'] = bool(f.fired) if f is not None else (failed_at == abort[0] and abort[2] in (err or ''))
    res['failed_at'] = failed_at
    res['error'] = err
    if not res['fired']:
        rec.after_hook = None
        return res
    res['fault_event'] = f.fired_event if f is not None else {'kind': 'abort', 'session': abort[0], 'before_op': abort[1], 'exc': abort[2]}
    evs = list(rec.events)
    j = sum(1 for e in evs if e['kind'] == 'commit' and e['phase'] == 'ret')
    res['commits_reached_sqlite'] = j
    if exc is ConnectionLost: res['reconnect'] = reconnect_facts(evs, f.fired_seq)
    st = dump(env['workfile'])
    states = info['states']
    if failed_at is None and j == len(states) - 1 and st == states[-1]:
        res['outcome'] = 'fault_swallowed_program_completed'
    elif j < len(states) and st == states[j]:
        res['outcome'] = 'at_commit_boundary'
    else:
        idx = state_index(states, st)
        res['problems'].append({'problem': 'state_not_at_commit_boundary' if idx is None else 'state_at_wrong_boundary',
                                'commits_reached_sqlite': j, 'matches_reference_index': idx,
                                'diff_vs_expected': diff_states(states[min(j, len(states) - 1)], st)})
        res['outcome'] = 'torn'
    # a following session must succeed and see exactly the file state
    before = view_from_file(env['workfile'])
    env['marker'] += 1
    mid = 900000 + env['marker']
    try:
        seen = followup(db, E, mid)
    except BaseException as e:
        res['problems'].append({'problem': 'following_session_failed', 'error': repr(e)[:300]})
        seen = None
    finally:
        rec.after_hook = None
        if autocommitted:
            res['problems'].append({'problem': 'write_outside_transaction', 'n': len(autocommitted), 'statements': autocommitted[:3]})
    if seen is None: return res
    if json.loads(json.dumps(seen)) != json.loads(json.dumps(before)):
        res['problems'].append({'problem': 'following_session_saw_other_state',
                                'file': str(before)[:300], 'seen': str(seen)[:300]})
    after = view_from_file(env['workfile'])
    expect = dict(before); expect['persons'] = sorted(before['persons'] + [(mid, 'followup', 1, '', [], [])])
    if json.loads(json.dumps(after)) != json.loads(json.dumps(expect)):
        res['problems'].append({'problem': 'following_session_write_not_atomic_addition',
                                'diff': str(after)[:300]})
    return res


# ----------------------------------------------------------------------------------------------------------
# crash mode: driver process (started through _c17_child.py) forks one process per crash point
# ----------------------------------------------------------------------------------------------------------

def crash_child(spec, rec, db, E, ackpath, errpath, k, phase):
    """Runs in the forked process; never returns."""
    code = 3
    try:
        import faulthandler
        hangf = open(errpath + '.hang', 'w')
        faulthandler.dump_traceback_later(spec.get('watchdog', WATCHDOG) * 0.6, file=hangf, exit=False)
        from vlib.dbapi import Fault
        ackfd = os.open(ackpath, os.O_WRONLY | os.O_CREAT | os.O_APPEND, 0o644)
        n = [0]
        def hook(ev):
            if ev['kind'] == 'commit' and ev['phase'] == 'ret':
                n[0] += 1
                os.write(ackfd, ('commit %d returned\n' % n[0]).encode()); os.fsync(ackfd)
        rec.after_hook = hook
        rec.clear()
        del rec.faults[:]
        rec.faults.append(Fault(k, phase=phase, action='exit'))
        try:
            run_program(db, E, spec['program'])
            code = 0          # crash point not reached: program completed
        except BaseException as e:
            with open(errpath, 'w') as f: f.write(repr(e)[:500])
            code = 4
    finally:
        os._exit(code)


def die_with_parent():
    """PR_SET_PDEATHSIG: no orphaned drivers/children when the checking process is killed by a shard watchdog."""
    try:
        import ctypes, signal
        ctypes.CDLL(None).prctl(1, signal.SIGKILL)
    except Exception:
        pass


def driver_main(spec):
    """In the driver process: bind a Database once (pool left empty), then for every crash point put a fresh copy of the
    template at the bound path, fork a child that replays the program and dies at the point, wait with a watchdog,
    and move the crashed file + its journal + the acknowledgement file into the point's directory."""
    from vlib.faults import HookRecorder
    die_with_parent()
    wd = spec['workdir']
    dbfile = os.path.join(wd, 'db.sqlite')
    ackpath, errpath = os.path.join(wd, 'acks'), os.path.join(wd, 'error')
    restore(spec['template'], dbfile)
    rec = HookRecorder()
    db, E = open_db(dbfile, rec)          # no connection is open after this (db.disconnect())
    # warm the per-Database SQL caches with one clean run, so that the children only pay for fork + execution
    try: run_program(db, E, spec['program'])
    except Exception: pass
    db.disconnect()
    assert db.provider.pool.con is None and not db.provider.transaction_lock.locked()
    results = []
    fired = 0
    t_start = time.time()
    for i, (k, phase) in enumerate(spec['points']):
        d = os.path.join(wd, 'pt%04d' % i)
        os.makedirs(d)
        if fired >= 2:
            results.append({'k': k, 'phase': phase, 'dir': d, 'status': 'skipped_after_watchdogs'}); continue
        if time.time() - t_start > spec.get('budget', 1e9):
            # wall-clock budget of the real-process cross-check used up (overloaded machine): the remaining points are
            # still covered by the simulated crash enumeration
            results.append({'k': k, 'phase': phase, 'dir': d, 'status': 'skipped_budget'}); continue
        restore(spec['template'], dbfile)
        for f in (ackpath, errpath, errpath + '.hang'):
            if os.path.exists(f): os.remove(f)
        pid = os.fork()
        if pid == 0:
            die_with_parent()
            crash_child(spec, rec, db, E, ackpath, errpath, k, phase)
        deadline = time.time() + spec.get('watchdog', WATCHDOG)
        status = None
        while True:
            p, st = os.waitpid(pid, os.WNOHANG)
            if p == pid:
                status = os.waitstatus_to_exitcode(st); break
            if time.time() > deadline:
                os.kill(pid, 9); os.waitpid(pid, 0)
                status = 'watchdog'; fired += 1; break
            time.sleep(0.004)
        # keep the crashed database exactly as the dead process left it (journal next to it)
        for src, name in ((dbfile, 'db.sqlite'), (dbfile + '-journal', 'db.sqlite-journal'), (ackpath, 'acks'), (errpath, 'error'), (errpath + '.hang', 'hang')):
            if os.path.exists(src): os.replace(src, os.path.join(d, name))
        results.append({'k': k, 'phase': phase, 'dir': d, 'status': status})
    with open(os.path.join(wd, 'results.json.tmp'), 'w') as f: json.dump(results, f)
    os.replace(os.path.join(wd, 'results.json.tmp'), os.path.join(wd, 'results.json'))


def run_crash_batch(template, workdir, prog, points, budget=1e9):
    """Start the driver for one program; -> list of per-point results or None (driver died / timed out)."""
    from vlib import common
    os.makedirs(workdir, exist_ok=True)
    spec = {'template': template, 'workdir': workdir, 'program': prog, 'points': points, 'watchdog': WATCHDOG, 'budget': budget}
    sp = os.path.join(workdir, 'spec.json')
    with open(sp, 'w') as f: json.dump(spec, f)
    env = dict(os.environ, PYTHONHASHSEED='0', PYTHONDONTWRITEBYTECODE='1')
    try:
        r = subprocess.run([common.PY, CHILD, sp], timeout=min(budget, 2.5 * len(points)) + 90, env=env,
                           stdout=subprocess.PIPE, stderr=subprocess.STDOUT, text=True)
    except subprocess.TimeoutExpired:
        return None, 'driver watchdog'
    rp = os.path.join(workdir, 'results.json')
    if r.returncode != 0 or not os.path.exists(rp):
        return None, 'driver rc=%s: %s' % (r.returncode, (r.stdout or '')[-400:])
    with open(rp) as f: return json.load(f), None


def judge_crash_point(info, r):
    """Open the crashed file with plain sqlite3 and judge it.  -> result dict"""
    k, phase, d = r['k'], r['phase'], r['dir']
    res = {'k': k, 'phase': phase, 'status': r['status'], 'problems': []}
    if r['status'] != 137:
        return res
    dbfile = os.path.join(d, 'db.sqlite')
    res['hot_journal'] = os.path.exists(dbfile + '-journal')
    try:
        with open(os.path.join(d, 'acks')) as f: acks = len([l for l in f.read().splitlines() if l.strip()])
    except FileNotFoundError:
        acks = 0
    res['acks'] = acks
    st = dump(dbfile)
    con = sqlite3.connect(dbfile)
    try:
        ic = con.execute('PRAGMA integrity_check').fetchall()
        fk = con.execute('PRAGMA foreign_key_check').fetchall()
    finally:
        con.close()
    if ic != [('ok',)]: res['problems'].append({'problem': 'integrity_check', 'result': repr(ic)[:200]})
    if fk: res['problems'].append({'problem': 'foreign_key_check', 'result': repr(fk)[:200]})
    states = info['states']
    exp_acked, allowed = allowed_after(info, k, phase)
    res['expected_acks'] = exp_acked
    if acks != exp_acked:
        # the replay did not follow the clean run; judge with what the child actually acknowledged
        res['ack_mismatch'] = True
        allowed = {acks, acks + 1} if phase == 'ret' else {acks}
    idx = None
    for i in sorted(allowed):
        if i < len(states) and states[i] == st: idx = i; break
    if idx is None:
        other = state_index(states, st)
        res['problems'].append({'problem': 'crash_state_not_at_commit_boundary' if other is None else 'crash_state_at_wrong_boundary',
                                'acknowledged_commits': acks, 'allowed_indices': sorted(allowed),
                                'matches_reference_index': other,
                                'diff_vs_last_acknowledged': diff_states(states[min(acks, len(states) - 1)], st)})
        idx = other
    res['state_index'] = idx
    res['inflight_alternative'] = idx is not None and idx == acks + 1
    return res


# ----------------------------------------------------------------------------------------------------------
# driver of the check
# ----------------------------------------------------------------------------------------------------------

# ----------------------------------------------------------------------------------------------------------
# crash mode, simulated in-process ("freeze"): at the crash point the database file and its journal are copied
# byte for byte exactly as they are on disk at that instant, and from then on NO DB-API call reaches SQLite any
# more (every later boundary call raises CrashSimulated before the real call), so none of pony's cleanup code
# can touch the file.  The copy is what a killed process leaves behind: SQLite does all file I/O through write()
# without user-space buffering, and its page cache dies with the process in both cases.
# ----------------------------------------------------------------------------------------------------------

class CrashSimulated(BaseException):
    pass


def make_freeze_fault(k, phase, snapshot):
    from vlib.dbapi import Fault
    class FreezeFault(Fault):
        def __init__(self):
            Fault.__init__(self, k, phase=phase, action='raise', exc=CrashSimulated)
            self.dead = False
        def match(self, ev):
            if self.dead: return True
            if Fault.match(self, ev):
                snapshot()
                self.dead = True
                return True
            return False
    return FreezeFault()


def exclusive_probe(path):
    con = sqlite3.connect(path, timeout=0, isolation_level=None)
    try:
        con.execute('BEGIN EXCLUSIVE'); con.execute('ROLLBACK')
        return True
    except sqlite3.OperationalError:
        return False
    finally:
        con.close()


def freeze_case(env, prog, k, phase, point_dir):
    """One simulated crash.  -> result record in the format of the real crash driver."""
    from pony.orm import core
    rec, db, E = env['rec'], env['db'], env['E']
    workfile = env['workfile']
    restore(env['template'], workfile)
    os.makedirs(point_dir, exist_ok=True)
    acks = [0]
    def snapshot():
        shutil.copyfile(workfile, os.path.join(point_dir, 'db.sqlite'))
        if os.path.exists(workfile + '-journal'):
            shutil.copyfile(workfile + '-journal', os.path.join(point_dir, 'db.sqlite-journal'))
        with open(os.path.join(point_dir, 'acks'), 'w') as f:
            f.write(''.join('commit %d returned\n' % (i + 1) for i in range(acks[0])))
    fault = make_freeze_fault(k, phase, snapshot)
    from vlib.faults import write_outside_transaction
    autocommitted = []
    def hook(ev):
        if ev['kind'] == 'commit' and ev['phase'] == 'ret': acks[0] += 1
        w = write_outside_transaction(rec, ev)
        if w: autocommitted.append(w)
    out = {}
    def body():
        rec.clear(); del rec.faults[:]
        rec.faults.append(fault)
        rec.after_hook = hook
        try:
            run_program(db, E, prog)
            out['status'] = 0
        except CrashSimulated:
            out['status'] = 137
        except BaseException as e:
            out['status'] = 137 if fault.dead else 4
            out['error'] = repr(e)[:200]
        finally:
            rec.after_hook = None
            del rec.faults[:]
            # the "dead process" is gone: drop its connection without going through the recorder (this only rolls the
            # WORK file back; the crash image was copied at the crash instant) and forget its thread-local session
            # state and locks, so that the next case starts like a new process
            con = db.provider.pool.con
            db.provider.pool.con = None
            loc = core.local
            loc.db2cache.clear(); loc.db_session = None; loc.db_context_counter = 0
            if con is not None:
                try: sqlite3.Connection.rollback(con)
                except Exception: pass
                try: sqlite3.Connection.close(con)
                except Exception: pass
            con = None
            prov = db.provider
            if prov.transaction_lock.locked(): prov.transaction_lock.release()
            if prov.pre_transaction_lock.locked(): prov.pre_transaction_lock.release()
    st, val = env['runner'][0].call(body, WATCHDOG, progress=lambda: len(rec.events))
    if st == 'hang':
        return {'k': k, 'phase': phase, 'dir': point_dir, 'status': 'watchdog'}
    if st == 'exc': raise val
    # sqlite3 keeps a closed connection alive (with its locks) while cursors of it are still referenced from garbage
    # cycles of the dead session: collect until the work file can be locked exclusively again
    for attempt in range(3):
        if exclusive_probe(workfile): break
        gc.collect()
    else:
        return {'k': k, 'phase': phase, 'dir': point_dir, 'status': 'watchdog'}
    return {'k': k, 'phase': phase, 'dir': point_dir, 'status': out.get('status', 3), 'error': out.get('error'),
            'writes_outside_transaction': autocommitted[:3]}


def freeze_program(ctx, template, base, serial, prog, info, runner_box):
    """Simulated crash at every boundary call (before / after).  -> list of result records (judged by the caller)."""
    from vlib.faults import HookRecorder
    workfile = os.path.join(base, 'freeze-%d.sqlite' % serial)
    restore(template, workfile)
    rec = HookRecorder()
    db, E = open_db(workfile, rec)
    env = {'rec': rec, 'db': db, 'E': E, 'template': template, 'workfile': workfile, 'runner': runner_box}
    results = []
    i = 0
    for phase, n in (('call', info['n_call']), ('ret', info['n_ret'])):
        for k in range(1, n + 1):
            i += 1
            d = os.path.join(base, 'freeze-%d-pts' % serial, 'pt%04d' % i)
            r = freeze_case(env, prog, k, phase, d)
            results.append(r)
            if r['status'] == 'watchdog':
                # the Database object may be wedged: rebuild it
                rec = HookRecorder(); restore(template, workfile)
                db, E = open_db(workfile, rec)
                env.update(rec=rec, db=db, E=E)
    return results


def program_fp(prog):
    from vlib.common import fp
    return fp(prog)


def process_program(ctx, template, base, serial, prog, info, runner_box):
    """book-keeping of the clean run + error mode (in-process); returns info or None — crash results are judged later."""
    from vlib.faults import HookRecorder, Runner
    workfile = os.path.join(base, 'work-%d.sqlite' % serial)
    if 'error' in info:
        ctx.count('outcome.clean_run_failed')
        ctx.extra.setdefault('clean_run_errors', [])
        if len(ctx.extra['clean_run_errors']) < 6: ctx.extra['clean_run_errors'].append(info['error'])
        return None
    if info['n_exc']:
        ctx.count('outcome.clean_run_with_dbapi_exception'); return None
    ctx.count('programs')
    ctx.count('sessions', len(prog))
    ctx.count('commit_boundaries', len(info['states']) - 1)
    ctx.count('boundary_calls', info['n_call'])
    for s in prog: ctx.count('mode.' + s['mode'])
    for s in prog:
        for o in s['ops']: ctx.count('op.' + o[0])
    for kd in info['kinds']: ctx.count('clean_kind.' + kd)
    if len(set(json.dumps(s, sort_keys=True) for s in info['states'])) != len(info['states']):
        ctx.count('programs_with_repeated_states')

    # the boundary invariant already applies to the clean run: no data-modifying statement outside a transaction
    ctx.count('dml_statements_checked_in_transaction', info['n_dml'])
    if info['writes_outside_transaction']:
        ctx.violation({'mode': 'clean', 'program': prog, 'statements': info['writes_outside_transaction'][:4]},
                      mechanism='clean:write_outside_transaction')
    for s in prog:
        ctx.count('form.' + s.get('form', 'with'))
        if s['ops'] and s['ops'][0][-1] == 'F': ctx.count('first_write_is_object_flush.%s.%s' % (s['mode'], s['ops'][0][0]))
        for o in s['ops']:
            if o[-1] == 'F': ctx.count('op.object_flush.' + o[0])

    ncall, nret = info['n_call'], info['n_ret']
    # ---- error mode: plain sqlite3.OperationalError at every event, before and after the call ----
    plans = [(k, 'call', None, None) for k in range(1, ncall + 1)] + [(k, 'ret', None, None) for k in range(1, nret + 1)]
    if not error_pass(ctx, template, workfile, serial, prog, info, runner_box, 'error', False, plans):
        return info
    # ---- interrupt mode: the process is told to stop -- SystemExit / KeyboardInterrupt / GeneratorExit (BaseExceptions
    #      that are not Exceptions) surface inside a DB-API call, or between two operations of a session body ----
    names = sorted(ABORTS)
    plans = [(k, 'call', names[k % 3], None) for k in range(1, ncall + 1)]
    if not error_pass(ctx, template, workfile, serial, prog, info, runner_box, 'interrupt', False, plans):
        return info
    plans, n = [], 0
    for si, sess in enumerate(prog):
        for pos in range(len(sess['ops']) + 1):
            n += 1
            plans.append((n, 'op', None, (si, pos, names[n % 3])))
    if not error_pass(ctx, template, workfile, serial, prog, info, runner_box, 'abort', False, plans):
        return info
    # ---- reconnect sub-mode: "connection lost" before every call, provider answers should_reconnect() = True ----
    if RECONNECT_MODE:
        plans = [(k, 'call', 'ConnectionLost', None) for k in range(1, ncall + 1)]
        error_pass(ctx, template, workfile, serial, prog, info, runner_box, 'reconnect', True, plans)
    return info


def exc_class(name):
    if name is None: return None
    if name == 'ConnectionLost': return ConnectionLost
    return ABORTS[name]


FINDING_RECONNECT = 'C17-RECONNECT-MID-TRANSACTION'
RECONNECT_MODE = True


def classify_error(label, res):
    """The listed finding, positively identified from the recorder log: in the reconnect sub-mode pony dropped a
    connection that had an open transaction with writes in it, opened a new connection and carried on, and the only
    problem is that the file is not at the commit boundary the acknowledged commits imply."""
    if label != 'reconnect': return None
    rf = res.get('reconnect')
    if not rf: return None
    # (whether further writes follow on the new connection only decides between "torn" and "whole session silently lost")
    if not (rf['in_transaction_at_fault'] and rf['writes_lost'] > 0 and rf['old_connection_closed']
            and rf['new_connections']): return None
    if any(p['problem'] not in ('state_not_at_commit_boundary', 'state_at_wrong_boundary') for p in res['problems']):
        return None
    return FINDING_RECONNECT


def error_pass(ctx, template, workfile, serial, prog, info, runner_box, label, reconnecting, plans):
    """plans: list of (k, phase, exception name or None, abort or None), see error_case.
    -> False if the pass had to be abandoned (watchdog)."""
    from vlib.faults import HookRecorder
    box = {}
    def rebuild():
        box['rec'] = HookRecorder()
        restore(template, workfile)
        box['db'], box['E'] = open_db(workfile, box['rec'], reconnecting)
        return {'rec': box['rec'], 'db': box['db'], 'E': box['E']}
    env = {'template': template, 'workfile': workfile, 'marker': 0}
    env.update(rebuild())
    pfp = program_fp(prog)
    if True:
        for k, phase, excname, abort in plans:
            st, val = runner_box[0].call(lambda: error_case(env, prog, info, k, phase, exc_class(excname), abort), WATCHDOG,
                                         progress=lambda: len(env['rec'].events))
            if st == 'hang':
                ctx.count(label + '_mode_watchdog')
                ctx.inconclusive.append('%s-mode watchdog at program %d k=%d %s' % (label, serial, k, phase))
                return False
            if st == 'exc': raise val
            res = val
            if not res['fired']:
                ctx.count(label + '_points_not_reached'); continue
            ctx.case([label, pfp, k, phase, excname, abort], nontrivial=True,
                     sample={'mode': label, 'program': prog, 'k': k, 'phase': phase, 'fault_event': res.get('fault_event'),
                             'outcome': res.get('outcome'), 'session_error': res.get('error')} if k == 3 and phase == 'call' else None)
            ctx.count(label + '_points_judged')
            ctx.count(label + '_outcome.' + res.get('outcome', '?'))
            ctx.count(label + '_fault_kind.' + res['fault_event']['kind'])
            if res['failed_at'] is not None: ctx.count(label + '_sessions_failed')
            rf = res.get('reconnect')
            if rf and rf['new_connections']:
                ctx.count('reconnects_observed')
                if rf['in_transaction_at_fault']: ctx.count('reconnects_inside_transaction')
            if res['problems']:
                witness = {'mode': label, 'program': prog, 'k': k, 'phase': phase, 'exc': excname, 'abort': abort,
                           'fault_event': res.get('fault_event'),
                           'session_error': res.get('error'), 'reconnect': rf, 'problems': res['problems']}
                fid = classify_error(label, res)
                if fid:
                    ctx.count('finding.' + fid)
                    ctx.finding(fid, witness)
                else:
                    ctx.violation(witness, mechanism=label + ':' + '+'.join(sorted(set(p['problem'] for p in res['problems'])))[:70])
                env.update(rebuild())       # pony state may be damaged: rebuild the environment for the next plan
            else:
                ctx.count('following_sessions_ok')
    try: env['db'].disconnect()
    except Exception: pass
    return True


def judge_program_crashes(ctx, serial, prog, info, results, err, label='crash'):
    """label: 'crash' = simulated in-process (freeze), 'realcrash' = separate process killed by os._exit(137).
    -> {(k, phase): state index} for cross-checking the two modes."""
    pfp = program_fp(prog)
    indices = {}
    if results is None:
        # only the real-process cross-check is lost (every point of this program was still judged by the simulated mode);
        # the run turns inconclusive through the realcrash floors if too little of the cross-check survives
        ctx.count('crash_driver_failed')
        ctx.extra.setdefault('crash_driver_errors', [])
        if len(ctx.extra['crash_driver_errors']) < 5: ctx.extra['crash_driver_errors'].append('program %d: %s' % (serial, err))
        return indices
    by_phase = {'call': [], 'ret': []}
    for r in results:
        if r['status'] == 'watchdog':
            ctx.count(label + '_watchdog')
            try:
                ctx.extra.setdefault('watchdog_tracebacks', [])
                if len(ctx.extra['watchdog_tracebacks']) < 3:
                    ctx.extra['watchdog_tracebacks'].append(open(os.path.join(r['dir'], 'hang')).read()[-1500:])
            except Exception: pass
            # a watchdog never yields a verdict.  For the simulated mode (the deciding enumeration) it makes the run
            # inconclusive; for the real-process cross-check it is counted and the realcrash floors decide.
            if label == 'crash':
                ctx.inconclusive.append('%s watchdog: program %d k=%d %s' % (label, serial, r['k'], r['phase']))
            continue
        if r['status'] == 'skipped_after_watchdogs':
            ctx.count(label + '_points_skipped'); continue
        if r['status'] == 'skipped_budget':
            ctx.count(label + '_points_skipped_budget'); continue
        if r['status'] == 0:
            ctx.count(label + '_points_not_reached'); continue
        if r['status'] != 137:
            ctx.count(label + '_other_exit')
            ctx.extra.setdefault('crash_other_exit', [])
            if len(ctx.extra['crash_other_exit']) < 5:
                e = r.get('error')
                try: e = e or open(os.path.join(r['dir'], 'error')).read()
                except Exception: pass
                ctx.extra['crash_other_exit'].append({'mode': label, 'k': r['k'], 'phase': r['phase'], 'status': r['status'], 'error': e})
            continue
        res = judge_crash_point(info, r)
        shutil.rmtree(r['dir'], ignore_errors=True)
        if r.get('writes_outside_transaction'):
            res['problems'].append({'problem': 'write_outside_transaction', 'statements': r['writes_outside_transaction']})
        ctx.case([label, pfp, r['k'], r['phase']], nontrivial=True,
                 sample={'mode': label, 'program': prog, 'k': r['k'], 'phase': r['phase'], 'acks': res.get('acks'),
                         'state_index': res.get('state_index'), 'hot_journal': res.get('hot_journal')}
                 if r['k'] == 5 and r['phase'] == 'ret' else None)
        ctx.count(label + '_points_judged')
        if res.get('hot_journal'): ctx.count(label + '_hot_journals_recovered')
        if res.get('ack_mismatch'): ctx.count(label + '_ack_mismatch')
        if res.get('inflight_alternative'): ctx.count(label + '_state_is_inflight_commit')
        if res.get('acks'): ctx.count(label + '_after_acknowledged_commit')
        if res['problems']:
            ctx.violation({'mode': label, 'program': prog, 'k': r['k'], 'phase': r['phase'], 'acks': res.get('acks'),
                           'problems': res['problems']},
                          mechanism=label + ':' + '+'.join(sorted(set(p['problem'] for p in res['problems'])))[:70])
        by_phase[r['phase']].append((r['k'], res.get('state_index')))
        indices[(r['k'], r['phase'])] = res.get('state_index')
    # monotonicity along k (per phase): a later crash never shows an earlier commit state
    for phase, seq in by_phase.items():
        seq.sort()
        last_k, last = None, -1
        for k, idx in seq:
            if idx is None: continue
            if idx < last:
                ctx.violation({'mode': label, 'program': prog, 'phase': phase, 'k_earlier': last_k, 'index_earlier': last,
                               'k': k, 'index': idx}, mechanism=label + ':state_index_not_monotone')
            ctx.count(label + '_monotone_pairs_checked')
            last_k, last = k, max(last, idx)
    return indices


def run(ctx):
    from concurrent.futures import ThreadPoolExecutor
    from vlib.faults import Runner
    base = ctx.tmp()
    template = build_template(os.path.join(base, 'template.sqlite'))
    # programs in total / of them also crashed as real processes / wall-clock budget of one real-crash driver
    if ctx.tier == 'quick': nprog, nreal, budget = 24, 3, 40.0
    else: nprog, nreal, budget = 384, 48, 120.0
    serials = [i for i in range(nprog) if i % ctx.nshards == ctx.shard]
    real = set(i for i in range(nprog) if i < nreal)
    runner_box = [Runner('c17-error')]
    pool = ThreadPoolExecutor(max_workers=2 if ctx.tier == 'quick' else 1)
    pending = []
    try:
        for serial in serials:
            rng = ctx.subrng('prog', serial)
            prog = gen_program(rng, serial)
            info = clean_run(template, os.path.join(base, 'probe-%d.sqlite' % serial), prog)
            fut = None
            if serial in real and 'error' not in info and not info['n_exc']:
                points = [[k, 'call'] for k in range(1, info['n_call'] + 1)] + [[k, 'ret'] for k in range(1, info['n_ret'] + 1)]
                # points around commits first: if the budget cuts the list short the most telling ones have run
                near = set()
                for c in info['commit_call_idx']: near.update(range(c - 3, c + 3))
                points.sort(key=lambda p: (p[0] not in near, p[1], p[0]))
                fut = pool.submit(run_crash_batch, template, os.path.join(base, 'crash-%d' % serial), prog, points, budget)
            # error mode and simulated crashes run in-process while real crash children (if any) run in the background
            ok = process_program(ctx, template, base, serial, prog, info, runner_box)
            if ok is None:
                if fut is not None: fut.cancel()
                continue
            results = freeze_program(ctx, template, base, serial, prog, info, runner_box)
            sim = judge_program_crashes(ctx, serial, prog, info, results, None, 'crash')
            shutil.rmtree(os.path.join(base, 'freeze-%d-pts' % serial), ignore_errors=True)
            if fut is not None: pending.append((serial, prog, info, fut, sim))
        for serial, prog, info, fut, sim in pending:
            results, err = fut.result()
            realidx = judge_program_crashes(ctx, serial, prog, info, results, err, 'realcrash')
            shutil.rmtree(os.path.join(base, 'crash-%d' % serial), ignore_errors=True)
            # harness self-check: the simulated crash must leave the same state as the real process death
            for key, idx in realidx.items():
                if key in sim:
                    ctx.count('real_vs_simulated_compared')
                    if sim[key] != idx:
                        ctx.count('real_vs_simulated_disagree')
                        ctx.inconclusive.append('simulated crash and real crash disagree at program %d %s: %s vs %s'
                                                % (serial, key, sim[key], idx))
    finally:
        pool.shutdown(wait=True)
        runner_box[0].stop()
    n = len(serials)
    nr = len([x for x in serials if x in real])
    ctx.floor('programs', max(1, n // 2))
    ctx.floor('crash_points_judged', 15 * max(1, n // 2))
    ctx.floor('error_points_judged', 15 * max(1, n // 2))
    ctx.floor('commit_boundaries', max(1, n // 2))
    ctx.floor('crash_hot_journals_recovered', max(1, n // 2))
    ctx.floor('following_sessions_ok', 10 * max(1, n // 2))
    if nr:
        ctx.floor('realcrash_points_judged', 10)
        ctx.floor('real_vs_simulated_compared', 10)


def replay(ctx, witness):
    from vlib.faults import HookRecorder
    base = ctx.tmp()
    template = build_template(os.path.join(base, 'template.sqlite'))
    prog = witness['program']
    workfile = os.path.join(base, 'work.sqlite')
    info = clean_run(template, workfile, prog)
    if 'error' in info:
        print('clean run fails:', info['error']); return
    mode = witness.get('mode')
    if mode == 'clean':
        print(json.dumps(info['writes_outside_transaction'], indent=1))
        if info['writes_outside_transaction']:
            ctx.violation({'replayed': witness, 'statements': info['writes_outside_transaction'][:4]}, mechanism='clean')
        return
    if mode in ('error', 'reconnect', 'interrupt', 'abort'):
        rec = HookRecorder()
        restore(template, workfile)
        db, E = open_db(workfile, rec, mode == 'reconnect')
        env = {'rec': rec, 'db': db, 'E': E, 'template': template, 'workfile': workfile, 'marker': 0}
        excname = witness.get('exc') or ('ConnectionLost' if mode == 'reconnect' else None)
        abort = tuple(witness['abort']) if witness.get('abort') else None
        res = error_case(env, prog, info, witness['k'], witness['phase'], exc_class(excname), abort)
        print(json.dumps(res, indent=1, default=repr)[:3000])
        if res['problems']: ctx.violation({'replayed': witness, 'problems': res['problems']}, mechanism=mode)
        return
    if 'k_earlier' in witness:
        n = info['n_call'] if witness['phase'] == 'call' else info['n_ret']
        pts = [[k, witness['phase']] for k in range(1, n + 1)]
    else:
        pts = [[witness['k'], witness['phase']]]
    if mode == 'realcrash':
        results, err = run_crash_batch(template, os.path.join(base, 'crash'), prog, pts)
    else:
        rec = HookRecorder()
        restore(template, workfile)
        db, E = open_db(workfile, rec)
        from vlib.faults import Runner
        env = {'rec': rec, 'db': db, 'E': E, 'template': template, 'workfile': workfile, 'runner': [Runner('replay')]}
        results, err = [freeze_case(env, prog, k, ph, os.path.join(base, 'pts', 'pt%d' % i)) for i, (k, ph) in enumerate(pts)], None
    judge_program_crashes(ctx, 0, prog, info, results, err, mode or 'crash')

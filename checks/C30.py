"""C30 — Raw SQL parameter substitution is faithful.

Four monitors over the REAL adapter (pony.orm.core.adapt_sql, ormtypes.parse_raw_sql,
utils.parse_expr, Database.select/get/exists/execute, Entity.select_by_sql/get_by_sql, raw_sql()):

 A  adapt_sql called directly, all five parameter styles, on generated statements whose pieces
    (literal text / $expression / trailing ';' / '$$') are known to the generator.  Oracle = the
    generator's intended pieces, cross-checked by an independent hand-written scanner
    (ref_scan).  Compared: the EFFECTIVE statement (for format/pyformat after the driver's
    %-formatting, i.e. python `adapted % markers`; no formatting when there are no arguments) and
    the ordered list of evaluated expression values.
 B  history independence: the same set adapted in random orders (warm) must equal each adapted with a
    cleared cache (cold).
 C  end to end on SQLite, observed at the DB-API recorder (sql text + args) and by results against
    plain sqlite3 on the same file.
 D  parse_expr extents against the generator's intended extents; plus "wild" token soups judged by
    the independent scanner only.
"""
import re, sys, os

META = {
    'level': 'exploration',
    'engine': 'E3',
    'technique': 'runtime differential monitor: real adapt_sql/parse_expr/raw_sql vs an independent reference '
                 'adapter on the effective statement + ordered values; warm-vs-cold cache histories; DB-API recorder '
                 'on SQLite for the end-to-end paths',
    'level_text': 'Seeded grammar-based exploration of raw SQL statements ($name, attribute chains, calls with '
                  'bracket/quote-bearing string arguments, subscripts, $(expr), trailing semicolons, $$, % and quote '
                  'characters) for all five parameter styles and random adaptation orders; every statement is judged '
                  'by an exact oracle (the generator knows the intended pieces). Exploration, not proof: the '
                  'statement space is unbounded and is sampled, not enumerated.',
    'level_note': 'Trusted: the generator\'s notion of an intended $expression extent (identifier or parenthesis, '
                  'then .name / (...) / [...] postfixes, optional terminating semicolon), python %-formatting as '
                  'the model of format/pyformat drivers, sqlite3 as the only executing driver (non-qmark styles '
                  'are judged on adapt_sql output, not executed).',
    'rule': 'a case = one generated statement (sequence of text pieces and $expressions) under one parameter '
            'style; distinct = distinct (statement text, style); non-trivial = contains at least one '
            '$expression, $$ or % character; history cases = distinct orders of a statement set; end-to-end '
            'cases = (call kind, template, scope kind) with fresh values',
    'assumptions': [
        'drivers with format/pyformat style apply python-like %-formatting iff an argument object is passed',
        'a statement without $expressions is sent without arguments (no %-formatting by the driver)',
        'text directly after an unterminated $expression does not itself look like a postfix (. name, ( or [) '
        '- such statements are ambiguous and are not generated',
    ],
    'shims': [],
    'exhaustive_tiers': [],
}
SHARDS = {'quick': 1, 'thorough': 8}
SHARD_TIMEOUT = {'quick': 110, 'thorough': 900}

STYLES = ('qmark', 'format', 'numeric', 'named', 'pyformat')
F_CACHE = 'C30-ADAPT-SQL-CACHE-KEY-PERCENT'
F_EXPR = 'C30-ADAPT-SQL-PERCENT-DOUBLED-IN-EXPR'

def report_finding(ctx, fid, witness, cap=8):
    """ctx.finding, but while `fid` is not an open known finding (so every hit is a VIOLATION witness) only the first
    `cap` hits are submitted as witnesses - otherwise one mechanism fills all witness slots and hides the others."""
    e = ctx.known.get(fid)
    if (e is not None and e.get('status') == 'open' and e.get('property') == ctx.pid) \
            or ctx.counters.get('submitted.' + fid, 0) < cap:
        ctx.count('submitted.' + fid)
        ctx.finding(fid, witness)
    else:
        ctx.count('not_submitted_beyond_cap.' + fid)


# ---------------------------------------------------------------------------------------------
# evaluation namespace for direct adapt_sql cases
# ---------------------------------------------------------------------------------------------
class _O(object):
    def __repr__(self): return '<O>'

def _f(*args, **kw):
    return ('f', args, tuple(sorted(kw.items())))

def make_namespace():
    a = _O(); a.b = _O(); a.b.c = 'abc-val'; a.n = 7; a.s = 'a%s'
    x = {'k': 'xk', 1: [10, 20, {'k': 'deep', '%': 'pct-deep'}], 0: ['zero'], '%': 'pct', '%%': 'pctpct',
         'a]b': 'br', "q'": 'quote', ')': 'paren', '$': 'dollar', ';': 'semi'}
    lst = [{'k': 'l0k', ']': 'l0b'}, {'k': 'l1k', ']': 'l1b'}]
    g = {'a': a, 'f': _f, 'x': x, 'G1': 'global-one', 'G2': 22}
    l = {'lst': lst, 'i': 1, 'j': 0, 'name': 'nm', 's': 'str%val', 'n2': 5, 'name_2': 'nm2', '_u': 'under'}
    return g, l

STR_LITS = ["'y)'", '"y]"', "'('", '"["', "'it\\'s )'", '"say \\"]\\""', "'''tri'ple)'''", '"""tri"ple]"""',
            "'%'", "'%%'", "'%s'", "'100% (sure)'", "'$'", "'$$'", "'$x'", "';'", "'a;b'", "''", '""',
            "'\\\\'", "'[('", "'k'", '"k"', "'a]b'", '"q\'"', "')'", "'plain'", "'two words'", "'?'", "':1'"]
SUB_PATHS = ["x['k']", 'x["k"]', 'x[i][j]', 'x[i][2]["k"]', "x[i][2]['%']", 'lst[j]["k"]', "lst[i]['k']", "lst[j][']']",
             "x['a]b']", 'x["q\'"]', "x['%']", "x['%%']", "x[')']", "x['$']", "x[';']", 'x[j][j]', 'x[i][i - 1]',
             'lst[i - 1]["k"]', 'x[f(j)[1][0]][0]', 'x[i][f(i)[1][0]]', 'x[(i)][(j)]', 'x[[1][0]][0]']
ATTR_PATHS = ['a.b.c', 'a.n', 'a.b.c.upper()', "a.b.c.replace('c', ')')", 'a.s', "a.b.c.split('-')[0]", 'a.b.c[1:3]',
              'a.s.count("%")']
NAMES = ['name', 'i', 'j', 's', 'n2', 'G1', 'G2', 'name_2', '_u']
PAREN_EXPRS = ['(i + j)', "(name + 'x)')", '(i * (j + 2))', "(x['k'])", '((i))', '(i % 2)', '("%" + s)',
               '(f(i)[0])', "(a.b.c if i else ')')", '(n2 % 3 + i)', "(s % ())", '(-i)', "(name, i)[0]", '(G2 // 5)',
               "('%d' % n2)", '([i, j][1])', "({'a': (i)}['a'])", "(lst[0][']'])", '(not j)']


def gen_arg(rng, depth):
    r = rng.random()
    if r < 0.34: return rng.choice(STR_LITS)
    if r < 0.44: return rng.choice(NAMES)
    if r < 0.52: return str(rng.randrange(0, 100))
    if r < 0.60: return rng.choice(SUB_PATHS)
    if r < 0.66: return rng.choice(ATTR_PATHS)
    if r < 0.72: return rng.choice(PAREN_EXPRS)
    if r < 0.76: return 'i % 2'
    if depth <= 0: return rng.choice(NAMES)
    if r < 0.86: return gen_call(rng, depth - 1)
    if r < 0.91: return '(%s, %s)' % (gen_arg(rng, depth - 1), gen_arg(rng, depth - 1))
    if r < 0.96: return '[%s]' % ', '.join(gen_arg(rng, depth - 1) for _ in range(rng.randrange(0, 3)))
    return '{%s: %s}' % (rng.choice(STR_LITS), gen_arg(rng, depth - 1))


def gen_call(rng, depth):
    n = rng.choice((0, 1, 1, 2, 2, 3))
    args = [gen_arg(rng, depth) for _ in range(n)]
    if rng.random() < 0.2: args.append('kw=%s' % gen_arg(rng, depth))
    sep = rng.choice((', ', ',', ' , '))
    call = 'f(%s)' % sep.join(args)
    r = rng.random()
    if r < 0.15: call += '[0]'
    elif r < 0.25: call += '[1]'
    elif r < 0.30: call += '[0].upper()'
    return call


def gen_expr(rng):
    """A $-expression source (without the '$'); starts with an identifier or '('."""
    r = rng.random()
    if r < 0.22: return rng.choice(NAMES)
    if r < 0.36: return rng.choice(ATTR_PATHS)
    if r < 0.52: return rng.choice(SUB_PATHS)
    if r < 0.80: return gen_call(rng, 2)
    if r < 0.97: return rng.choice(PAREN_EXPRS)
    return rng.choice(('undefined_name', 'a.missing', "x['nokey']"))   # evaluation must fail the same way


TEXTS = ['select ', ' from t where a = ', " and b like '%x%' ", " 'it''s' ", ' "col" ', '%', '%%', '%s', '%(p1)s',
         ' 100% ', '$$', ' $$1 ', ':1', ':p1', '?', '\n', ' -- c\n', '', '', '(', ')', ' in (', ', ', ' || ', ']',
         'é', ' * ', '{', '}', '\\', '%%%', ' = ', ' and ', ' or c <> ', " like 'a$$%' ", ' %d ', '%%s',
         ' limit ', '\t', " '' ", ' "', "'", ' where x=', ' mod 5 % 3 ', '$$$$', ' @v ', ' #', '%)', '(%']
# text directly following an unterminated expression must not continue it
_CONT_BAD = re.compile(r'\s*(?:;|\.\s*[A-Za-z_]|\(|\[)|\w', re.UNICODE)


def gen_statement(rng):
    """-> list of pieces ('t', text) | ('e', expr_src, has_semicolon)."""
    pieces = []
    n = rng.choice((0, 1, 1, 2, 2, 3, 4, 6))
    pieces.append(('t', rng.choice(TEXTS) + rng.choice(TEXTS)))
    for _ in range(n):
        semi = rng.random() < 0.25
        pieces.append(('e', gen_expr(rng), semi))
        if semi:
            t = rng.choice(TEXTS + ['.y', '(z)', ';', 'abc', '[0]', ' .y', ' (1)', '; select 1'])
            if rng.random() < 0.5: t += rng.choice(TEXTS)
        else:
            for _try in range(50):
                t = rng.choice(TEXTS)
                if rng.random() < 0.5: t += rng.choice(TEXTS)
                if not _CONT_BAD.match(t): break
            else: t = ' '
        pieces.append(('t', t))
    return pieces


def render(pieces):
    out = []
    for p in pieces:
        if p[0] == 't': out.append(p[1])
        else: out.append('$' + p[1] + (';' if p[2] else ''))
    return ''.join(out)


def intended(pieces):
    """texts (with $$ -> $) and expression sources, in order; len(texts) == len(exprs) + 1"""
    texts, exprs = [''], []
    for p in pieces:
        if p[0] == 't': texts[-1] += p[1].replace('$$', '$')
        else: exprs.append(p[1]); texts.append('')
    return texts, exprs


def transform_texts(pieces, fn):
    return [('t', fn(p[1])) if p[0] == 't' else p for p in pieces]

# ---------------------------------------------------------------------------------------------
# independent reference scanner (no regular expressions, no pony code)
# ---------------------------------------------------------------------------------------------
def _isstart(c): return ('a' <= c <= 'z') or ('A' <= c <= 'Z') or c == '_'
def _iscont(c): return c == '_' or c.isalnum()

def _skip_string(s, i):
    """s[i] is a quote. Return index after the literal, or i+1 if it is not terminated (lone quote)."""
    q = s[i]
    for quote in (q * 3, q):
        if not s.startswith(quote, i): continue
        k = i + len(quote)
        while k < len(s):
            if s[k] == '\\':
                if k + 1 < len(s) and s[k + 1] != '\n': k += 2; continue
                if quote == q: break
                break
            if s.startswith(quote, k): return k + len(quote)
            k += 1
    return i + 1

def _match_bracket(s, q):
    opn = s[q]; cls = ')' if opn == '(' else ']'
    depth, i = 0, q
    while i < len(s):
        c = s[i]
        if c in '\'"': i = _skip_string(s, i); continue
        if c == opn: depth += 1
        elif c == cls:
            depth -= 1
            if depth == 0: return i + 1
        i += 1
    raise ValueError('unbalanced')

def ref_expr_end(s, p):
    """End index of the $-expression starting at s[p] (terminating ';' included)."""
    n = len(s)
    if p < n and _isstart(s[p]):
        while p < n and _iscont(s[p]): p += 1
    elif p < n and s[p] == '(': pass
    else: raise ValueError('no expression')
    while True:
        q = p
        while q < n and s[q].isspace(): q += 1
        if q < n and s[q] == ';': return q + 1
        if q < n and s[q] == '.':
            r = q + 1
            while r < n and s[r].isspace(): r += 1
            if r < n and _isstart(s[r]):
                while r < n and _iscont(s[r]): r += 1
                p = r; continue
            return p
        if q < n and s[q] in '([':
            p = _match_bracket(s, q); continue
        return p

def ref_scan(sql):
    """-> (texts, exprs) by the documented rule: $$ -> $, $expression -> parameter, rest verbatim."""
    texts, exprs, buf, i, n = [], [], [], 0, len(sql)
    while i < n:
        c = sql[i]
        if c != '$': buf.append(c); i += 1; continue
        if i + 1 < n and sql[i + 1] == '$': buf.append('$'); i += 2; continue
        if i + 1 >= n: raise ValueError('dangling $')
        j = ref_expr_end(sql, i + 1)
        e = sql[i + 1:j]
        if e.endswith(';'): e = e[:-1]
        texts.append(''.join(buf)); buf = []; exprs.append(e); i = j
    texts.append(''.join(buf))
    return texts, exprs

# ---------------------------------------------------------------------------------------------
# normal forms
# ---------------------------------------------------------------------------------------------
def MARK(k): return '\x00<%d>\x00' % k

def jv(v):
    try:
        import json
        json.dumps(v); return v
    except Exception: return repr(v)

def eval_values(exprs, g, l):
    """ordered values, or ('exc', class name) of the first failing expression (compile errors first, as
    the adapter compiles every expression before anything is evaluated)."""
    codes = []
    for e in exprs:
        try: codes.append(compile(e, '<ref>', 'eval'))
        except Exception as ex: return ('compile_exc', type(ex).__name__)
    vals = []
    for c in codes:
        try: vals.append(eval(c, g, dict(l)))
        except Exception as ex: return ('eval_exc', type(ex).__name__)
    return ('ok', vals)

def reference_nf(texts, exprs, style, g, l):
    """Expected normal form: (kind, effective statement, values)."""
    ev = eval_values(exprs, g, l)
    if ev[0] == 'compile_exc': return ('adapt_exc', ev[1], None)
    n = len(exprs)
    if n == 0: eff = texts[0]
    elif style == 'qmark': eff = '?'.join(texts)
    elif style == 'numeric': eff = ''.join(t + (':%d' % (k + 1) if k < n else '') for k, t in enumerate(texts))
    elif style == 'named': eff = ''.join(t + (':p%d' % (k + 1) if k < n else '') for k, t in enumerate(texts))
    else: eff = ''.join(t + (MARK(k + 1) if k < n else '') for k, t in enumerate(texts))
    if ev[0] == 'eval_exc': return ('eval_exc', eff, ev[1])
    return ('ok', eff, ev[1])

def driver_format(adapted):
    """Model of what a format/pyformat driver does to the statement when arguments are passed:
    %% -> %, %s -> next positional parameter, %(name)s -> named parameter; anything else is an error.
    -> (effective statement with MARK(k) at parameter k, order) where order lists parameter names (or None for
    positional ones) by first appearance."""
    out, order, i, n = [], [], 0, len(adapted)
    while i < n:
        c = adapted[i]
        if c != '%': out.append(c); i += 1; continue
        nxt = adapted[i + 1:i + 2]
        if nxt == '%': out.append('%'); i += 2
        elif nxt == 's': order.append(None); out.append(MARK(len(order))); i += 2
        elif nxt == '(':
            j = adapted.find(')', i)
            if j < 0 or adapted[j + 1:j + 2] != 's': raise ValueError('bad format')
            name = adapted[i + 2:j]
            if name not in order: order.append(name)
            out.append(MARK(order.index(name) + 1)); i = j + 2
        else: raise ValueError('bad format character %r' % nxt)
    return ''.join(out), order

def pony_nf(core, sql, style, g, l):
    """Run the real adapter and bring its output to the same normal form.  -> (nf, raw result)"""
    try: res = core.adapt_sql(sql, style)
    except Exception as ex: return ('adapt_exc', type(ex).__name__, None), None
    adapted, code = res
    exc = None
    try: args = eval(code, g, dict(l))
    except Exception as ex: args = None; exc = type(ex).__name__
    if exc is None and args is None: return ('ok', adapted, []), res       # no parameters: sent without formatting
    eff, order = adapted, None
    if style in ('format', 'pyformat'):
        try: eff, order = driver_format(adapted)
        except ValueError: return ('driver_format_exc', adapted, None), res
    if exc is not None: return ('eval_exc', eff, exc), res
    if style in ('qmark', 'numeric', 'format'):
        if not isinstance(args, tuple): return ('bad_args', adapted, repr(args)), res
        if style == 'format' and (len(order) != len(args) or any(o is not None for o in order)):
            return ('bad_args', adapted, 'placeholders %r for %d args' % (order, len(args))), res
        vals = list(args)
    else:
        if not isinstance(args, dict): return ('bad_args', adapted, repr(args)), res
        if style == 'named': order = ['p%d' % (k + 1) for k in range(len(args))]
        if sorted(order, key=repr) != sorted(args, key=repr):
            return ('bad_args', adapted, 'placeholders %r for keys %r' % (order, sorted(args))), res
        vals = [args[k] for k in order]
    return ('ok', eff, vals), res

def nf_equal(a, b):
    if a[0] != b[0]: return False
    if a[0] == 'adapt_exc': return True            # the adapter refused; class of the exception is free
    if a[0] == 'eval_exc': return a[1] == b[1] and a[2] == b[2]
    if a[1] != b[1]: return False
    va, vb = a[2], b[2]
    if len(va) != len(vb): return False
    return all(type(p) is type(q) and p == q for p, q in zip(va, vb))

def nf_json(nf): return [nf[0], nf[1], jv(nf[2])]

# ---------------------------------------------------------------------------------------------
# part A/B: direct adapt_sql
# ---------------------------------------------------------------------------------------------
def deviant_percent_nf(sql, style, g, l):
    """Deviation rule for F_EXPR: '%' doubled BEFORE the statement is scanned, so the doubled characters end up
    inside the expression sources as well (texts are still right after the driver halves them)."""
    dt, de = ref_scan(sql.replace('%', '%%'))
    texts = [t.replace('%%', '%') for t in dt]
    if not de: return None
    return reference_nf(texts, de, style, g, l)

def pony_cold_of(core, sql, style, g, l):
    """Adapt on a cleared cache; the cache content is restored afterwards."""
    saved = dict(core.adapted_sql_cache)
    core.adapted_sql_cache.clear()
    try: nf, _ = pony_nf(core, sql, style, g, l)
    finally:
        core.adapted_sql_cache.clear(); core.adapted_sql_cache.update(saved)
    return nf

def judge_cold(ctx, core, sql, style, ref_nf, g, l, part):
    """Part A: adapt `sql` on a CLEARED cache and compare with the reference."""
    core.adapted_sql_cache.clear()
    got, res = pony_nf(core, sql, style, g, l)
    if nf_equal(got, ref_nf):
        ctx.count('outcome.agree'); ctx.count('outcome.agree.' + ref_nf[0])
        return True
    w = {'part': part, 'sql': sql, 'style': style, 'history': [], 'pony': nf_json(got), 'reference': nf_json(ref_nf)}
    dev = deviant_percent_nf(sql, style, g, l) if style in ('format', 'pyformat') else None
    if dev is not None and nf_equal(got, dev):
        ctx.count('outcome.percent_doubled_in_expr')
        report_finding(ctx, F_EXPR, w)
    else:
        ctx.count('outcome.disagree_cold')
        ctx.violation(w, mechanism='adapt-cold-' + got[0])
    return False

def judge_warm(ctx, core, sql, style, g, l, history, part):
    """Part B: adapt `sql` with whatever the cache holds now; the answer must equal the answer on a cleared cache.
    history: statements adapted for this style since the cache was last cleared (before this one)."""
    cold = pony_cold_of(core, sql, style, g, l)
    if (sql, style) in core.adapted_sql_cache: ctx.count('adapt_cache.hit_under_lookup_key')
    got, res = pony_nf(core, sql, style, g, l)
    if nf_equal(got, cold):
        ctx.count('outcome.warm_equals_cold')
        return True
    w = {'part': part, 'sql': sql, 'style': style, 'history': list(history), 'pony': nf_json(got), 'pony_cold': nf_json(cold)}
    # known mechanism: results are stored under the %-doubled text, so an EARLIER statement e with
    # e.replace('%','%%') == this text answers for it
    earlier = []
    for h in history:
        if h != sql and h.replace('%', '%%') == sql and h not in earlier: earlier.append(h)
    if style in ('format', 'pyformat') and earlier and any(nf_equal(got, pony_cold_of(core, h, style, g, l)) for h in earlier):
        w['earlier_text_equal_after_doubling'] = earlier[0]
        ctx.count('outcome.cache_key_percent_collision')
        report_finding(ctx, F_CACHE, w)
    else:
        ctx.count('outcome.disagree_warm')
        ctx.violation(w, mechanism='adapt-history-dependent')
    return False

def has_pct_sibling_shape(pieces):
    return any(p[0] == 't' and '%' in p[1] for p in pieces)

def part_direct(ctx, core, n_cases, n_hist):
    rng = ctx.rng
    g, l = make_namespace()
    pool = []                                   # (sql, pieces) kept for history part
    for ci in range(n_cases):
        pieces = gen_statement(rng)
        variants = [pieces]
        if has_pct_sibling_shape(pieces) and rng.random() < 0.6:
            variants.append(transform_texts(pieces, lambda t: t.replace('%', '%%')))
            if rng.random() < 0.3: variants.append(transform_texts(pieces, lambda t: t.replace('%%', '%')))
        for pcs in variants:
            sql = render(pcs)
            texts, exprs = intended(pcs)
            try: rt, re_ = ref_scan(sql)
            except ValueError: rt, re_ = None, None
            if (rt, re_) != (texts, exprs):
                ctx.count('harness.ref_scanner_vs_generator_mismatch')
                ctx.inconclusive_if(True, 'reference scanner disagrees with generator on %r' % sql)
                continue
            nontrivial = bool(exprs) or '$$' in sql or '%' in sql
            for style in STYLES:
                ref = reference_nf(texts, exprs, style, g, l)
                ctx.case(('A', sql, style), nontrivial=nontrivial,
                         sample={'part': 'A', 'sql': sql, 'style': style, 'expect': nf_json(ref)} if (ci % 2500 == 7 and style == STYLES[(ci // 2500) % 5]) else None)
                ctx.count('A.cases')
                if exprs: ctx.count('A.expressions', len(exprs))
                if any('%' in e for e in exprs): ctx.count('A.cases_percent_inside_expression')
                judge_cold(ctx, core, sql, style, ref, g, l, 'A')
            if len(pool) < 4000: pool.append((sql, texts, exprs))
    # ---- B: histories -----------------------------------------------------------------------
    for hi in range(n_hist):
        k = rng.randrange(4, 14)
        items = [rng.choice(pool) for _ in range(k)]
        # make sure %-siblings of some members are present (both directions); a sibling is a statement of its own
        for sql, texts, exprs in list(items):
            if '%' in sql and rng.random() < 0.5:
                for sib in (sql.replace('%', '%%'), sql.replace('%%', '%')):
                    if sib == sql: continue
                    try: st, se = ref_scan(sib)
                    except ValueError: continue
                    if eval_values(se, g, l)[0] != 'compile_exc': items.append((sib, st, se))
        styles = rng.sample(STYLES, rng.randrange(1, 6))
        seq = [(it, st) for it in items for st in styles]
        seq = seq + [rng.choice(seq) for _ in range(len(seq) // 2)]      # repeats => cache hits
        rng.shuffle(seq)
        core.adapted_sql_cache.clear()
        hist = dict((st, []) for st in STYLES)
        ctx.case(('B', [(it[0], st) for it, st in seq]), nontrivial=True,
                 sample={'part': 'B', 'order': [(it[0], st) for it, st in seq][:8]} if hi % 600 == 0 else None)
        ctx.count('B.histories')
        for (sql, texts, exprs), style in seq:
            ctx.count('B.steps')
            judge_warm(ctx, core, sql, style, g, l, hist[style], 'B')
            hist[style].append(sql)
    core.adapted_sql_cache.clear()

# ---------------------------------------------------------------------------------------------
# part D: parse_expr extents + wild token soups
# ---------------------------------------------------------------------------------------------
WILD = ['$', '$', '$$', 'x', 'a', 'f', 'i', 'name', '.', '.', '(', ')', '(', ')', '[', ']', "'", '"', "'''", ';',
        ' ', ' ', ',', '%', '1', "'y)'", '"]"', "\\'", '+', 'lst', '  ', "'('", ']', '=', 'select ', '\n']

def part_extents(ctx, core, n_cases, n_wild):
    from pony.utils import parse_expr
    rng = ctx.rng
    for ci in range(n_cases):
        e = gen_expr(rng)
        semi = rng.random() < 0.3
        if semi: tail = rng.choice(TEXTS + ['.y', '(z)', ';', 'abc', '[0]'])
        else:
            for _ in range(50):
                tail = rng.choice(TEXTS)
                if not _CONT_BAD.match(tail): break
            else: tail = ' '
        prefix = rng.choice(('', 'select ', '%', "'"))
        s = prefix + e + (';' if semi else '') + tail
        want = e + (';' if semi else '')
        ctx.case(('D', s, len(prefix)), nontrivial=True, sample={'part': 'D', 's': s, 'want': want} if ci % 13000 == 5 else None)
        ctx.count('D.extent_cases')
        try: got = parse_expr(s, len(prefix))[0]
        except Exception as ex: got = ('exc', type(ex).__name__)
        if got == want: ctx.count('outcome.extent_agree')
        else:
            ctx.count('outcome.extent_disagree')
            ctx.violation({'part': 'D', 's': s, 'pos': len(prefix), 'pony_extent': got, 'intended_extent': want},
                          mechanism='parse_expr-extent')
    # wild: judged by the independent scanner only, styles without %-doubling in the adapter
    g, l = make_namespace()
    for wi in range(n_wild):
        sql = ''.join(rng.choice(WILD) for _ in range(rng.randrange(2, 12)))
        style = rng.choice(('qmark', 'numeric', 'named'))
        try:
            texts, exprs = ref_scan(sql)
            ref = reference_nf(texts, exprs, style, g, l)
        except (ValueError, IndexError):
            ref = ('adapt_exc', 'ValueError', None)
        core.adapted_sql_cache.clear()
        got, _ = pony_nf(core, sql, style, g, l)
        core.adapted_sql_cache.clear()
        ctx.case(('W', sql, style), nontrivial='$' in sql.replace('$$', ''))
        ctx.count('D.wild_cases'); ctx.count('D.wild.' + ref[0])
        if nf_equal(got, ref): ctx.count('outcome.wild_agree')
        else:
            ctx.count('outcome.wild_disagree')
            ctx.violation({'part': 'W', 'sql': sql, 'style': style, 'pony': nf_json(got), 'reference': nf_json(ref)},
                          mechanism='adapt-wild-' + got[0])

# ---------------------------------------------------------------------------------------------
# part C: end to end on SQLite
# ---------------------------------------------------------------------------------------------
G_INT = 31                      # module globals: must be visible to $G_INT when the caller lives in this module
G_STR = 'Bob'
G_CFG = {'lo': 18, 'names': ['Ann', 'a$b']}

PEOPLE = [(1, 'Ann', 17, ''), (2, 'Bob', 31, 'x'), (3, 'a$b', 40, 'dollar'), (4, '100%', 25, 'pct'), (5, "it's", 60, 'q'),
          (6, 'x?y', 33, '?'), (7, ':1', 18, 'colon'), (8, 'Zed', 45, 'a$$b'), (9, '%s', 52, 'fmt'), (10, 'Bob', 22, '')]

class _Cfg(object): pass

def _fn(a, b=None): return a if b is None else a + len(b)

def make_callers(clo_int, clo_str):
    """Functions whose frames are 'the caller's scope': locals (parameters), this module's globals and closure cells."""
    def call_locals(fn, sql, lo, nm, cfg, d, lst, fn_):
        return fn(sql)
    def call_closure(fn, sql, lo, nm, cfg, d, lst, fn_):
        clo_int, clo_str        # referenced => free variables => present in f_locals
        return fn(sql)
    return call_locals, call_closure

# templates: pieces; expression sources are typed ('i' int, 's' str) and named by scope kind
INT_EXPRS = {'locals': ['lo', '(lo + 1)', 'cfg.lo', 'd["lo"]', "d['lo']", 'lst[0]', "fn_(lo, ')')", '(lst[1] - 1)', 'cfg.sub.v',
                        'fn_(lst[0])', "d['x]'][0]"],
             'globals': ['G_INT', "G_CFG['lo']", '(G_INT - 1)', "len(G_STR)"],
             'closure': ['clo_int', '(clo_int + lo)', '(clo_int)']}
STR_EXPRS = {'locals': ['nm', 'cfg.nm', "d['nm']", "(nm)", "fn_(nm)", 'cfg.nm.strip()', "(nm + '')", "lst[2]",
                        "d['q)'].replace('(', '')"],
             'globals': ['G_STR', "G_CFG['names'][1]", "G_CFG['names'][0]"],
             'closure': ['clo_str', "(clo_str or ')')"]}

SELECT_TEMPLATES = [
    # (pieces with typed holes, has 'select' prefix)
    ["select id from person where age >= ", 'i', " order by id"],
    ["id from person where age >= ", 'i', " and name <> ", 's', " order by id"],
    ["select id, name from person where name = ", 's', " or age = ", 'i', ""],
    ["select id from person where name like 'a$$%' or name = ", 's', ""],
    ["select id from person where name like '%' and age between ", 'i', " and ", 'i', " + 20"],
    ["select id from person where note = 'a$$$$b' or id = ", 'i;', ""],
    ["SELECT id, age from person where (age > ", 'i', ") and name in (", 's', ", ", 's', ", '100%')"],
    ["select name from person where age % 5 = ", 'i', " % 5 and name <> ", 's;', " order by 1"],
    ["select id from person where name = '$$x' or age < ", 'i', ""],
    ["select id from person where id = ", 'i', " or id = ", 'i', " or id = ", 'i', " or name = ", 's', ""],
    ["select count(*) from person where name <> ", 's', ""],
    ["select id from person where name = ", 's', " -- trailing comment with 'quote and % and $$"],
    ["select id from person where note <> '?' and age > ", 'i', " and note <> ':1'"],
]

def fill(rng, template, scope):
    pieces = []
    for part in template:
        if part in ('i', 's', 'i;', 's;'):
            pool = (INT_EXPRS if part[0] == 'i' else STR_EXPRS)
            sc = scope if rng.random() < 0.7 else 'locals'
            pieces.append(('e', rng.choice(pool[sc]), part.endswith(';')))
        else: pieces.append(('t', part))
    return pieces

def part_e2e(ctx, n_calls):
    import sqlite3
    from pony.orm import Database, PrimaryKey, Required, Optional, db_session, select, raw_sql, commit, rollback
    from pony.orm import core
    from vlib.dbapi import Recorder
    rng = ctx.rng
    rec = Recorder()
    path = os.path.join(ctx.tmp(), 'c30-%d.sqlite' % ctx.shard)
    if os.path.exists(path): os.remove(path)
    db = Database()
    class Person(db.Entity):
        _table_ = 'person'
        id = PrimaryKey(int)
        name = Required(str)
        age = Required(int)
        note = Optional(str)
    db.bind('sqlite', path, create_db=True, factory=rec.factory())
    db.generate_mapping(create_tables=True)
    with db_session:
        for row in PEOPLE: Person(id=row[0], name=row[1], age=row[2], note=row[3])
    plain = sqlite3.connect(path)

    def user_statements(mark):
        out = []
        for e in rec.statements(since=mark):
            s = (e['sql'] or '').strip().upper()
            if s.startswith(('BEGIN', 'PRAGMA', 'COMMIT', 'ROLLBACK', 'SAVEPOINT', 'RELEASE')): continue
            out.append(e)
        return out

    def fresh_scope():
        clo_int = rng.choice((17, 22, 30, 33, 44)); clo_str = rng.choice(('Bob', 'a$b', "it's", '%s', 'nobody'))
        cfg = _Cfg(); cfg.lo = rng.randrange(15, 60); cfg.nm = rng.choice(('Ann', ' Bob ', '100%', 'x?y')); cfg.sub = _Cfg()
        cfg.sub.v = rng.randrange(1, 11)
        lo = rng.randrange(10, 65); nm = rng.choice(('Ann', 'Bob', 'a$b', '100%', "it's", 'x?y', ':1', 'Zed', '%s', '$$'))
        d = {'lo': rng.randrange(10, 65), 'nm': rng.choice(('Bob', ':1', 'Zed')), 'x]': [rng.randrange(1, 11)], 'q)': '(Ann'}
        lst = [rng.randrange(1, 11), rng.randrange(20, 50), rng.choice(('Bob', 'a$b'))]
        loc = {'lo': lo, 'nm': nm, 'cfg': cfg, 'd': d, 'lst': lst, 'fn_': _fn}
        return clo_int, clo_str, loc

    def expected(pieces, names, prefix_select):
        texts, exprs = intended(pieces)
        vals = [eval(e, dict(globals()), dict(names)) for e in exprs]
        sql = '?'.join(texts)
        return sql, tuple(vals)

    def check_boundary(kind, mark, exp_sql, exp_args, witness):
        st = user_statements(mark)
        ctx.count('C.boundary_statements', len(st))
        if len(st) != 1:
            ctx.violation(dict(witness, problem='expected exactly one statement', seen=[(e['sql'], jv(e['args'])) for e in st]),
                          mechanism='e2e-statement-count'); return False
        e = st[0]
        args = e['args']
        got_args = tuple(args) if isinstance(args, (tuple, list)) else args
        want_args = exp_args if exp_args else None
        ok = e['sql'] == exp_sql and (got_args == want_args or (not exp_args and not got_args)) \
             and (not exp_args or all(type(a) is type(b) for a, b in zip(got_args, want_args)))
        if ok: ctx.count('outcome.boundary_agree'); return True
        ctx.count('outcome.boundary_disagree')
        ctx.violation(dict(witness, problem='sql text or args at the driver differ', seen_sql=e['sql'], seen_args=jv(args),
                           expected_sql=exp_sql, expected_args=jv(exp_args)), mechanism='e2e-boundary-' + kind)
        return False

    def plain_rows(sql, args):
        return plain.execute(sql, args).fetchall()

    kinds = ['select', 'select', 'select', 'get', 'exists', 'execute', 'select_by_sql', 'get_by_sql', 'explicit_dicts',
             'raw_sql_query', 'raw_sql_query', 'raw_sql_query']
    for ci in range(n_calls):
        kind = kinds[ci % len(kinds)] if ci < 3 * len(kinds) else rng.choice(kinds)
        scope = rng.choice(('locals', 'globals', 'closure'))
        clo_int, clo_str, loc = fresh_scope()
        call_locals, call_closure = make_callers(clo_int, clo_str)
        caller = call_closure if scope == 'closure' else call_locals
        names = dict(loc)
        if scope == 'closure': names.update(clo_int=clo_int, clo_str=clo_str)
        ctx.count('C.calls'); ctx.count('C.kind.' + kind); ctx.count('C.scope.' + scope)
        w = {'part': 'C', 'kind': kind, 'scope': scope}
        try:
            if kind in ('select', 'get', 'exists', 'explicit_dicts'):
                tmpl = rng.choice(SELECT_TEMPLATES)
                pieces = fill(rng, tmpl, scope if kind != 'explicit_dicts' else 'locals')
                sql = render(pieces)
                exp_sql, exp_args = expected(pieces, names, True)
                if not exp_sql.lower().startswith('select'): exp_sql = 'select ' + exp_sql
                w.update(sql=sql, values=jv(exp_args))
                ctx.case(('C', kind, sql, scope), sample=w if ci % 800 == 0 else None)
                ref_rows = plain_rows(exp_sql, exp_args)
                with db_session:
                    mark = rec.mark()
                    if kind == 'explicit_dicts':
                        # explicit globals/locals dictionaries instead of the frame
                        gd = {k: v for k, v in names.items() if k in ('cfg', 'fn_', 'd')}
                        ld = {k: v for k, v in names.items() if k not in gd}
                        res = db.select(sql, gd, ld); outcome = ('rows', res)
                    else:
                        meth = getattr(db, kind)
                        try: res = caller(meth, sql, **loc); outcome = ('rows', res)
                        except (core.RowNotFound, core.MultipleRowsFound) as ex: outcome = ('exc', type(ex).__name__)
                    check_boundary(kind, mark, exp_sql, exp_args, w)
                ncols = len(ref_rows[0]) if ref_rows else None
                flat = [r[0] for r in ref_rows] if ncols == 1 else [tuple(r) for r in ref_rows]
                if kind in ('select', 'explicit_dicts'):
                    good = outcome[0] == 'rows' and [tuple(r) if isinstance(r, tuple) else r for r in outcome[1]] == flat
                elif kind == 'exists':
                    good = outcome == ('rows', bool(ref_rows))
                else:
                    if len(ref_rows) == 0: good = outcome == ('exc', 'RowNotFound')
                    elif len(ref_rows) > 1: good = outcome == ('exc', 'MultipleRowsFound')
                    else: good = outcome[0] == 'rows' and (tuple(outcome[1]) if isinstance(outcome[1], tuple) else outcome[1]) == flat[0]
                if good: ctx.count('outcome.result_agree')
                else:
                    ctx.count('outcome.result_disagree')
                    ctx.violation(dict(w, got=jv(outcome[1]) if outcome[0] == 'rows' else outcome, want=jv(flat)),
                                  mechanism='e2e-result-' + kind)
            elif kind == 'execute':
                pieces = [('t', 'update person set note = '), ('e', rng.choice(STR_EXPRS[scope]), rng.random() < 0.3),
                          ('t', rng.choice((' where id = ', " , age = age + 0 where name <> '$$' and id = "))),
                          ('e', rng.choice(INT_EXPRS['locals'][-3:] + ['lst[0]']), rng.random() < 0.5), ('t', '')]
                sql = render(pieces)
                exp_sql, exp_args = expected(pieces, names, False)
                w.update(sql=sql, values=jv(exp_args))
                ctx.case(('C', kind, sql, scope), sample=w if ci == 5 else None)
                with db_session:
                    mark = rec.mark()
                    caller(db.execute, sql, **loc)
                    check_boundary(kind, mark, exp_sql, exp_args, w)
                    commit()
                got = plain_rows('select note from person where id = ?', (exp_args[1],))
                if got == [(exp_args[0],)]: ctx.count('outcome.result_agree')
                else:
                    ctx.count('outcome.result_disagree')
                    ctx.violation(dict(w, got=jv(got), want=jv(exp_args[0])), mechanism='e2e-result-execute')
            elif kind in ('select_by_sql', 'get_by_sql'):
                if kind == 'select_by_sql':
                    pieces = fill(rng, rng.choice([
                        ["select * from person where age < ", 'i', " order by id"],
                        ["select id, name, age, note from person where name = ", 's', " or id = ", 'i;', ""],
                        ["select * from person where name <> 'a$$b' and name <> ", 's', " and age >= ", 'i', " -- 100%"]]), scope)
                else:
                    pieces = [('t', 'select * from person where id = '), ('e', rng.choice(['lst[0]', 'cfg.sub.v', "d['x]'][0]", 'fn_(lst[0])']), rng.random() < 0.3),
                              ('t', rng.choice(('', " and name <> '$$'", ' and 1 = 1 % 2')))]
                sql = render(pieces)
                exp_sql, exp_args = expected(pieces, names, False)
                w.update(sql=sql, values=jv(exp_args))
                ctx.case(('C', kind, sql, scope), sample=w if ci in (6, 7) else None)
                ref_ids = [r[0] for r in plain_rows(exp_sql, exp_args)]
                with db_session:
                    mark = rec.mark()
                    res = caller(getattr(Person, kind), sql, **loc)
                    check_boundary(kind, mark, exp_sql, exp_args, w)
                    got_ids = [o.id for o in res] if kind == 'select_by_sql' else ([res.id] if res is not None else [])
                if got_ids == ref_ids: ctx.count('outcome.result_agree')
                else:
                    ctx.count('outcome.result_disagree')
                    ctx.violation(dict(w, got=got_ids, want=ref_ids), mechanism='e2e-result-' + kind)
            else:
                _raw_sql_case(ctx, rng, rec, db, Person, plain, scope, clo_int, clo_str, loc, names, user_statements, w, ci)
        except Exception as ex:
            # every generated statement is valid SQL with valid expressions: the property promises binding
            import traceback
            ctx.count('outcome.e2e_raised')
            ctx.violation(dict(w, raised=type(ex).__name__, msg=str(ex)[:300], tb=traceback.format_exc(limit=4)[-600:]),
                          mechanism='e2e-raised-' + kind)
            try: rollback()
            except Exception: pass
    plain.close()
    db.disconnect()


RAW_FRAGMENTS = [
    # (fragment pieces with typed holes, where it goes)
    (["p.age >= ", 'i', ""], 'if'),
    (["p.name = ", 's', ""], 'if'),
    (["p.name <> 'a$$b' and p.age > ", 'i', ""], 'if'),
    (["p.age between ", 'i', " and ", 'i', " + 15"], 'if'),
    (["p.name like '%' and p.name <> ", 's', " and p.age <> ", 'i;', ""], 'if'),
    (["p.note <> '$$$$' and (p.age % 7) <> ", 'i', " % 7"], 'if'),
    (["p.name in (", 's', ", ", 's', ", ", 's', ")"], 'if'),
]

def _raw_sql_case(ctx, rng, rec, db, Person, plain, scope, clo_int, clo_str, loc, names, user_statements, w, ci):
    from pony.orm import db_session, select, raw_sql
    tmpl, place = rng.choice(RAW_FRAGMENTS)
    pieces = fill(rng, tmpl, scope)
    frag = render(pieces)
    texts, exprs = intended(pieces)
    vals = tuple(eval(e, dict(globals()), dict(names)) for e in exprs)
    exp_frag = '?'.join(texts)
    form = rng.choice(('genexpr', 'genexpr_mixed', 'lambda', 'filter_obj', 'where_lambda', 'dynamic_text', 'prebuilt'))
    w.update(fragment=frag, form=form, values=jv(vals))
    ctx.case(('C', 'raw_sql', frag, form, scope), sample=w if ci in (9, 10) else None)
    ctx.count('C.raw_form.' + form)
    extra_age = rng.randrange(10, 60)

    # the query functions: one code object each, re-executed with different fragments and values
    def run(lo, nm, cfg, d, lst, fn_, frag=frag, extra_age=extra_age):
        if scope == 'closure': clo_int, clo_str
        if form == 'genexpr':
            return select(p for p in Person if raw_sql(frag))[:]
        if form == 'genexpr_mixed':
            return select(p for p in Person if p.age != extra_age and raw_sql(frag) and p.id > 0)[:]
        if form == 'lambda':
            return Person.select(lambda p: raw_sql(frag))[:]
        if form == 'filter_obj':
            return Person.select().filter(raw_sql(frag))[:]
        if form == 'where_lambda':
            return Person.select().where(lambda p: raw_sql(frag) and p.age != extra_age)[:]
        if form == 'dynamic_text':
            s2 = frag
            return select(p for p in Person if raw_sql(s2))[:]
        cond = raw_sql(frag)
        return select(p for p in Person if cond)[:]
    run.__globals__  # same module globals as this file
    ref_sql = 'select p.id from person p where ' + exp_frag
    ref_args = vals
    if form in ('genexpr_mixed', 'where_lambda'):
        ref_sql = 'select p.id from person p where (' + exp_frag + ') and p.age <> ?'
        ref_args = vals + (extra_age,)
    ref_ids = sorted(r[0] for r in plain.execute(ref_sql, ref_args).fetchall())
    with db_session:
        mark = rec.mark()
        res = run(**loc)
        got_ids = sorted(o.id for o in res)
        st = user_statements(mark)
    ctx.count('C.boundary_statements', len(st))
    ok_boundary = False
    for e in st:
        sql = e['sql']
        pos = sql.find(exp_frag)
        if pos < 0: continue
        k = sql[:pos].count('?')
        args = tuple(e['args'] or ())
        seg = args[k:k + len(vals)]
        if seg == vals and all(type(a) is type(b) for a, b in zip(seg, vals)): ok_boundary = True
    if ok_boundary: ctx.count('outcome.boundary_agree')
    else:
        ctx.count('outcome.boundary_disagree')
        ctx.violation(dict(w, problem='fragment text or its args not found at the driver', expected_fragment=exp_frag,
                           seen=[(e['sql'], jv(e['args'])) for e in st]), mechanism='e2e-boundary-raw_sql')
    if got_ids == ref_ids: ctx.count('outcome.result_agree')
    else:
        ctx.count('outcome.result_disagree')
        ctx.violation(dict(w, got=got_ids, want=ref_ids), mechanism='e2e-result-raw_sql')

# ---------------------------------------------------------------------------------------------
# part E: raw_sql fragment parser (parse_raw_sql) directly, incl. its cache
# ---------------------------------------------------------------------------------------------
def part_parse_raw(ctx, n_cases):
    from pony.orm import ormtypes
    rng = ctx.rng
    g, l = make_namespace()
    seen = []
    ormtypes.raw_sql_cache.clear()
    for ci in range(n_cases):
        if seen and rng.random() < 0.3: pieces = rng.choice(seen)          # re-parse an older fragment (cache hit)
        else: pieces = gen_statement(rng)
        sql = render(pieces)
        if not sql: continue
        texts, exprs = intended(pieces)
        if ('compile_exc',) == eval_values(exprs, g, l)[:1]: continue
        r = rng.random()
        if r < 0.2: ormtypes.raw_sql_cache.clear()
        warm = sql in ormtypes.raw_sql_cache
        if warm: ctx.count('raw_sql_cache.hit')
        ctx.case(('E', sql), nontrivial=bool(exprs) or '$$' in sql)
        ctx.count('E.cases')
        try:
            items, codes = ormtypes.parse_raw_sql(sql)
        except Exception as ex:
            ctx.violation({'part': 'E', 'sql': sql, 'raised': type(ex).__name__}, mechanism='parse_raw_sql-raised'); continue
        got_texts, got_exprs, cur = [], [], ''
        for it in items:
            if isinstance(it, str): cur += it
            else: got_texts.append(cur); cur = ''; got_exprs.append(it[0])
        got_texts.append(cur)
        ok = got_texts == texts and got_exprs == exprs and len(codes) == len(exprs)
        if ok:
            ev = eval_values(exprs, g, l)
            if ev[0] == 'ok':
                try: vals = [eval(c, g, dict(l)) for c in codes]
                except Exception as ex: vals = type(ex).__name__
                ok = vals == ev[1]
        if ok: ctx.count('outcome.parse_raw_agree')
        else:
            ctx.count('outcome.parse_raw_disagree')
            ctx.violation({'part': 'E', 'sql': sql, 'warm': warm, 'pony_texts': got_texts, 'pony_exprs': got_exprs,
                           'texts': texts, 'exprs': exprs}, mechanism='parse_raw_sql-pieces')
        if len(seen) < 300: seen.append(pieces)
    ormtypes.raw_sql_cache.clear()


def run(ctx):
    from pony.orm import core
    import inspect, warnings
    warnings.filterwarnings('ignore', category=SyntaxWarning)     # token soups like `(a,1)(x)` compile with a warning
    sig = list(inspect.signature(core.adapt_sql).parameters)
    assert sig[:2] == ['sql', 'paramstyle'], sig
    quick = ctx.tier == 'quick'
    scale = 1 if quick else 5               # per shard; thorough runs 8 shards with different random streams
    n_direct, n_hist, n_ext = 10000 * scale, 1000 * scale, 24000 * scale
    n_wild, n_e2e, n_raw = 70000 * scale, 1600 * scale, 9000 * scale
    part_direct(ctx, core, n_direct, n_hist)
    part_extents(ctx, core, n_ext, n_wild)
    part_parse_raw(ctx, n_raw)
    part_e2e(ctx, n_e2e)
    ctx.floor('A.cases', 30000)
    ctx.floor('A.expressions', 50000)
    ctx.floor('A.cases_percent_inside_expression', 5000)
    ctx.floor('B.steps', 20000)
    ctx.floor('adapt_cache.hit_under_lookup_key', 3000)
    ctx.floor('D.extent_cases', 20000)
    ctx.floor('D.wild.ok', 20000)
    ctx.floor('E.cases', 5000)
    ctx.floor('raw_sql_cache.hit', 20)
    ctx.floor('C.calls', 1500)
    ctx.floor('C.boundary_statements', 1500)
    ctx.floor('outcome.boundary_agree', 1000)
    ctx.floor('outcome.result_agree', 1000)
    for k in ('select', 'get', 'exists', 'execute', 'select_by_sql', 'get_by_sql', 'explicit_dicts', 'raw_sql_query'):
        ctx.floor('C.kind.' + k, 50)
    for k in ('locals', 'globals', 'closure'): ctx.floor('C.scope.' + k, 200)


def replay(ctx, witness):
    """Re-run one direct-adaptation witness: the recorded history for that style, then the statement."""
    from pony.orm import core
    part = witness.get('part')
    if part not in ('A', 'B', 'W'):
        print('replay: only direct adapt_sql witnesses (parts A, B, W) are replayable standalone; witness was:', witness)
        return
    g, l = make_namespace()
    sql, style = witness['sql'], witness['style']
    if part == 'B':
        core.adapted_sql_cache.clear()
        for h in witness.get('history', []):
            try: core.adapt_sql(h, style)
            except Exception: pass
        ctx.case(('replay', sql, style))
        judge_warm(ctx, core, sql, style, g, l, witness.get('history', []), part)
        return
    try:
        texts, exprs = ref_scan(sql); ref = reference_nf(texts, exprs, style, g, l)
    except (ValueError, IndexError): ref = ('adapt_exc', 'ValueError', None)
    ctx.case(('replay', sql, style))
    judge_cold(ctx, core, sql, style, ref, g, l, part)

#!/venv/bin/python
"""Crash driver for checks/C17.py (a script file: pony must not see INTERACTIVE mode).

usage: _c17_child.py <spec.json>
The spec names the template database, a work directory, the program and the list of crash points (k, phase).
For every point this driver forks a process that replays the program on a fresh copy of the template and
os._exit(137)s at the point (vlib.dbapi.Fault action 'exit'); see C17.driver_main / C17.crash_child."""
import os, sys, json

HERE = os.path.dirname(os.path.dirname(os.path.abspath(__file__)))
sys.path.insert(0, HERE)
sys.dont_write_bytecode = True

from vlib import common


def main():
    with open(sys.argv[1]) as f: spec = json.load(f)
    common.setup_path(())
    from checks import C17
    C17.driver_main(spec)


if __name__ == '__main__':
    main()

"""C27 -- objects keep their class; polymorphic queries are exact; isinstance in queries == Python isinstance.

Runtime monitor over generated inheritance diagrams.  A *spec* (plain data) describes one database: one or two
entity hierarchies (chain / tree / diamond / double diamond, implicit `classtype` or custom int / str
Discriminator with custom `_discriminator_` values, int / str / composite / auto primary keys), a plain `Owner`
entity, subclasses adding Optional / Required / unique attributes, and relationships of every kind whose ends are
bases and subclasses (to-one into the hierarchy, one-to-many, many-to-many, self references, one-to-one, cross
root).  The real pony code is run on a SQLite file; a small reference model (the objects as created, with their
creating class) is the oracle.

Every object is obtained in FRESH sessions through every access path (Root[pk], Sub[pk], get, exists, select,
lambda / generator queries, select_by_sql / get_by_sql, to-one navigation, to-many iteration, prefetch, proxies,
unpickling, after commit, and the same paths again after the session already holds pk-only seeds of the objects),
and through reference CHAINS start.a.b[.c] / collection-item.b whose intermediate objects are whatever the session holds
at that moment: plain entities Link / Hub / Owner (no subclasses) stay unloaded pk-only seeds until their own reference
attribute is read, so the hop that yields the polymorphic target first has to load its owner's row; a third of the
to-one attributes into the hierarchies are declared lazy=True, so the value is loaded by the read itself.
type(obj) is compared with the creating class at the moment the object is first visible and after reading all its
attributes; every polymorphic read over entity E must return exactly the model's instances of E; isinstance(x, C)
/ isinstance(x, (C1, C2)) in generator, lambda and string queries must agree with Python isinstance on the model.

Findings are classified by mechanism (never by data), F_* below:
  F_SEED     pk-only seed carries the declared class of the relationship (type/isinstance, lost assignment, Sub[pk])
  F_ISREF    isinstance(x.ref, C) tests the discriminator of x's own row       (deviation rule re-evaluated)
  F_ISNONE   isinstance(x.ref, DeclaredType) is 1 = 1, true for None           (deviation rule re-evaluated)
  F_UNPICKLE pk-only object recreated by unpickling is dropped from cache.seeds and never refined by navigation
  F_DIAMOND  loud: 'Unexpected class change from B to C' for a D(B, C) object referenced through both branches
  F_SQLATTR  loud: IndexError in select_by_sql when a subclass has a column-less one-to-one attribute
"""
import os, sys, json, pickle, itertools

META = {
    'level': 'exploration',
    'engine': 'E2-templates+E1',
    'technique': 'runtime monitor: generated inheritance diagrams x access paths x polymorphic queries, judged '
                 'against a reference model of creating classes (type identity, instance sets, isinstance)',
    'level_text': 'Exploration: hierarchies, relationship placements, key kinds, discriminator kinds and data are '
                  'generated (seeded); for each generated database the list of access paths and the isinstance '
                  'query matrix (entity x classinfo x form) are enumerated completely.  Nothing is proved for '
                  'diagrams outside the generator (e.g. discriminator as part of the primary key, table-per-class).',
    'level_note': 'Trusted: the reference model (creating class, attribute values, links as assigned by the harness); '
                  'session_cache.seeds membership is read to know whether an object is a pk-only seed at the moment '
                  'of observation (documented by use in core.py); table / column names for raw SQL come from the '
                  'mapping.',
    'rule': 'one case = (diagram fingerprint, access path or query form, entity, class / classinfo); distinct by that '
            'tuple; non-trivial when the hierarchy entity involved has subclasses or bases (plain Owner lookups are '
            'trivial).  Diagrams: shape x pk kind x discriminator kind x attribute and relationship placement drawn '
            'from the seeded rng; data: 2-3 objects per class with colliding attribute values.',
    'assumptions': [
        'SQLite only; single thread; one table per hierarchy (pony has no other strategy).',
        'Sub[pk] / Sub.get(pk) for an object that is not an instance of Sub must raise ObjectNotFound / return None '
        '(what pony documents and does); select_by_sql on a subclass is given only pk + discriminator columns '
        '(pony rejects columns of sibling classes loudly).',
        'Reading a subclass attribute through a base-class query either raises or must equal the Python-side filter '
        'over objects that have the attribute; for `is None` tests objects lacking the attribute are bracketed.',
        'An explicit discriminator value passed to the constructor (A(kind=<value of B>)) is bracketed: the object may '
        'reload as the creating class or as the class designated by the value.',
        'Loud errors of valid calls are counted, not judged (NotImplementedError when a written-to seed is refined, '
        'OperationalError for isinstance() on a many-to-many loop variable or on a reference whose owner table has no '
        'discriminator column, AttributeError for a sibling-branch attribute in a query); two loud INTERNAL errors whose '
        'mechanism the monitor identifies (F_DIAMOND, F_SQLATTR) are reported as findings; any other exception from a '
        'read path is a violation.',
        'F_SEED is accepted only on paths where pony hands out pk-only seeds without loading them (iteration / copy / '
        'prefetch of a many-to-many collection, lookups in a session that already holds such a seed) and only if the '
        'class is right after obj.load(); a wrongly typed seed or loaded object anywhere else is a violation.',
        '`not isinstance(x.ref, C)` with x.ref None is bracketed (Python True, SQL unknown).',
        'Reference chains: every chain of 2 and 3 to-one hops whose intermediate objects are objects of plain entities, '
        'plus a seeded sample (150 / 500 per length) of the others; chains and single hops ending in a lazy attribute are '
        'counted separately and have their own floors.  Reading a reference of a many-to-many item whose value is already '
        'known through the reverse side gives that pk-only seed read bits; a later load that must refine its class raises '
        'NotImplementedError -- loud, counted (outcome.pony_raised.refine_seed_with_read_bits_NotImplementedError).',
        'Objects of a diamond class referenced through attributes typed by two unrelated branches (the F_DIAMOND '
        'situation) are generated only in every fourth diagram, so that the other monitors keep their power.',
    ],
    'shims': [],
    'exhaustive_tiers': [],
}
SHARDS = {'quick': 1, 'thorough': 16}
SHARD_TIMEOUT = {'quick': 300, 'thorough': 2400}

F_SEED = 'C27-SEED-HAS-DECLARED-CLASS-UNTIL-LOADED'
F_ISREF = 'C27-ISINSTANCE-REFERENCE-TESTS-OWNER-DISCRIMINATOR'
F_ISNONE = 'C27-ISINSTANCE-DECLARED-TYPE-TRUE-FOR-NONE'
F_UNPICKLE = 'C27-UNPICKLED-PK-ONLY-OBJECT-NOT-REFINED'
F_DIAMOND = 'C27-DIAMOND-SEED-CLASS-CONFLICT'
F_SQLATTR = 'C27-SELECT-BY-SQL-COLUMNLESS-SUBCLASS-ATTR'

# ---------------------------------------------------------------------------------------------------------------
# spec generation

SHAPES = {
    'chain':   [('A', []), ('B', ['A']), ('C', ['B'])],
    'chain4':  [('A', []), ('B', ['A']), ('C', ['B']), ('D', ['C'])],
    'tree':    [('A', []), ('B', ['A']), ('C', ['A']), ('D', ['B']), ('E', ['B']), ('F', ['C'])],
    'diamond': [('A', []), ('B', ['A']), ('C', ['A']), ('D', ['B', 'C'])],
    'diamond_ext': [('A', []), ('B', ['A']), ('C', ['A']), ('D', ['B', 'C']), ('E', ['D']), ('F', ['C'])],
    'double_diamond': [('A', []), ('B', ['A']), ('C', ['A']), ('D', ['B', 'C']), ('E', ['A']), ('F', ['D', 'E'])],
}
PLAIN = ('Owner', 'Link', 'Hub')
SHAPE_ORDER = ['chain', 'diamond', 'tree', 'diamond_ext', 'chain4', 'double_diamond']
PK_KINDS = ['int', 'str', 'composite', 'auto']
DISCR_KINDS = ['implicit', 'str', 'int', 'str_partial']


def gen_spec(rng, idx):
    shape = SHAPE_ORDER[idx % len(SHAPE_ORDER)] if idx < 2 * len(SHAPE_ORDER) else rng.choice(SHAPE_ORDER)
    spec = {'idx': idx, 'shape': shape, 'roots': [], 'classes': [], 'rels': [], 'conflict': idx % 4 == 1}
    hier = [dict(name=n, bases=list(b), root='A') for n, b in SHAPES[shape]]
    second = rng.random() < 0.6
    if second:
        hier2 = [dict(name=n, bases=list(b), root='P') for n, b in
                 rng.choice([[('P', []), ('Q', ['P'])], [('P', []), ('Q', ['P']), ('R', ['P']), ('S', ['Q', 'R'])],
                             [('P', []), ('Q', ['P']), ('R', ['Q'])]])]
    else: hier2 = []
    for rootname, h in (('A', hier), ('P', hier2)):
        if not h: continue
        pk = PK_KINDS[(idx + (1 if rootname == 'P' else 0)) % 4] if idx < 8 else rng.choice(PK_KINDS)
        dk = DISCR_KINDS[(idx // 2 + (2 if rootname == 'P' else 0)) % 4] if idx < 8 else rng.choice(DISCR_KINDS)
        spec['roots'].append({'name': rootname, 'pk': pk, 'discr': dk})
        vals = list(range(7, 7 + len(h))); rng.shuffle(vals)
        svals = ['x', 'yy', 'Zed', 'q1', 'w', 'v v', 'u', 'tt'][:len(h)]; rng.shuffle(svals)
        for i, c in enumerate(h):
            if dk == 'int': c['discr'] = vals[i]
            elif dk == 'str': c['discr'] = svals[i]
            elif dk == 'str_partial': c['discr'] = svals[i] if rng.random() < 0.5 else None
            else: c['discr'] = None
    # plain entities (no subclasses): objects of them reached through a reference stay pk-only seeds until read, so
    # Hub.link.lowner.fav / Link.thing are reference CHAINS whose intermediate objects are seeds at the moment their
    # own reference attribute is read
    plain = [dict(name=n, bases=[], root=n) for n in PLAIN]
    for n in PLAIN: spec['roots'].append({'name': n, 'pk': 'int', 'discr': 'none'})
    classes = hier + hier2 + plain
    # scalar attributes
    for c in classes:
        c['attrs'] = []
        low = c['name'].lower()
        if not c['bases']:
            c['attrs'].append({'name': low + '_x', 'type': 'int', 'required': False, 'unique': False})
            if rng.random() < 0.5: c['attrs'].append({'name': low + '_s', 'type': 'str', 'required': False, 'unique': False})
        else:
            k = rng.random()
            c['attrs'].append({'name': low + '_v', 'type': 'int', 'required': k < 0.3, 'unique': False})
            if rng.random() < 0.45: c['attrs'].append({'name': low + '_u', 'type': 'int', 'required': False, 'unique': True})
            if rng.random() < 0.4: c['attrs'].append({'name': low + '_t', 'type': 'str', 'required': False, 'unique': False})
    spec['classes'] = classes
    # relationships
    hn = [c['name'] for c in hier]; hn2 = [c['name'] for c in hier2]
    subs = [c['name'] for c in hier if c['bases']]
    rels = []
    def rel(kind, a, an, b, bn, lazy=False): rels.append({'kind': kind, 'a': a, 'an': an, 'b': b, 'bn': bn, 'lazy': lazy})
    def maybe_lazy(): return rng.random() < 0.3
    # kinds: 'n1' a.an = Optional(b) / b.bn = Set(a);  'mm' both Set;  '11' both Optional
    rel('n1', rng.choice(hn), 'owner', 'Owner', 'things')             # one-to-many typed by (often) a base
    rel('mm', 'Owner', 'many', 'A' if rng.random() < 0.6 else rng.choice(hn), 'mm')   # m2m typed by base: seeds
    rel('n1', 'Owner', 'fav', rng.choice(hn), 'fans', maybe_lazy())     # to-one INTO the hierarchy
    rel('mm', 'Owner', 'picks', rng.choice(subs), 'pickers')           # m2m typed by a subclass
    rel('n1', rng.choice(hn), 'parent', rng.choice(hn), 'children', maybe_lazy())    # self reference in the hierarchy
    if rng.random() < 0.7: rel('mm', rng.choice(subs), 'links', rng.choice(hn), 'backs')
    if rng.random() < 0.6: rel('11', rng.choice(hn), 'buddy', rng.choice(subs), 'buddy_of')
    if hn2:
        rel('n1', rng.choice(hn2), 'target', rng.choice(hn), 'aimed', maybe_lazy())  # cross-root to-one
        if rng.random() < 0.7: rel('mm', rng.choice(hn2), 'xs', rng.choice(hn), 'ps')
        if rng.random() < 0.5: rel('n1', rng.choice(hn), 'pref', rng.choice(hn2), 'prefd', maybe_lazy())
        rel('n1', 'Link', 'pthing', rng.choice(hn2), 'plinked')
    # reference chains through plain entities, and lazy references into the hierarchy
    rel('n1', 'Link', 'lowner', 'Owner', 'olinks')
    rel('n1', 'Link', 'thing', 'A' if rng.random() < 0.5 else rng.choice(hn), 'linked')
    rel('n1', 'Hub', 'link', 'Link', 'hubs')
    rel('n1', 'Hub', 'hthing', 'A' if rng.random() < 0.5 else rng.choice(hn), 'hubbed', True)
    rel('n1', 'Owner', 'ohub', 'Hub', 'owners')                       # Owner.ohub.hthing: seed owner + lazy last hop
    spec['rels'] = rels
    return spec


class Info(object):
    """Derived facts about a spec (the oracle's view of the diagram)."""
    def __init__(self, spec):
        self.spec = spec
        self.cls = {c['name']: c for c in spec['classes']}
        self.order = [c['name'] for c in spec['classes']]
        self.anc = {}
        for c in spec['classes']:                      # bases precede
            s = {c['name']}
            for b in c['bases']: s |= self.anc[b]
            self.anc[c['name']] = s
        self.desc = {n: {m for m in self.order if n in self.anc[m]} for n in self.order}   # incl. self
        self.root = {c['name']: c['root'] for c in spec['classes']}
        self.lazyrefs = {r['an'] for r in spec['rels'] if r.get('lazy')}
        self.rootspec = {r['name']: r for r in spec['roots']}
        self.members = {r['name']: [n for n in self.order if self.root[n] == r['name']] for r in spec['roots']}
        # attributes visible on class n: own + inherited.  scalar: name -> (decl class, type, required, unique)
        self.scalars = {}
        self.refs = {}     # name -> (decl class, target class, reverse name, reverse kind)
        self.sets = {}
        for n in self.order:
            sc, rf, st = {}, {}, {}
            for a in sorted(self.anc[n], key=self.order.index):
                for ad in self.cls[a]['attrs']: sc[ad['name']] = (a, ad['type'], ad['required'], ad['unique'])
                for r in spec['rels']:
                    if r['kind'] == 'n1':
                        if r['a'] == a: rf[r['an']] = (a, r['b'], r['bn'], 'set')
                        if r['b'] == a: st[r['bn']] = (a, r['a'], r['an'], 'ref')
                    elif r['kind'] == 'mm':
                        if r['a'] == a: st[r['an']] = (a, r['b'], r['bn'], 'set')
                        if r['b'] == a: st[r['bn']] = (a, r['a'], r['an'], 'set')
                    else:
                        if r['a'] == a: rf[r['an']] = (a, r['b'], r['bn'], 'ref')
                        if r['b'] == a: rf[r['bn']] = (a, r['a'], r['an'], 'ref')
            self.scalars[n], self.refs[n], self.sets[n] = sc, rf, st

    def isa(self, cname, target):
        return target in self.anc[cname]

    def discr_value(self, cname):
        c = self.cls[cname]
        rs = self.rootspec[c['root']]
        if rs['discr'] == 'none': return None
        return c['discr'] if c.get('discr') is not None else cname


def render(spec):
    """Python source of the entity classes (real class statements: multiple bases, composite PrimaryKey)."""
    info = Info(spec)
    out = []
    for c in spec['classes']:
        n = c['name']
        bases = ', '.join(c['bases']) if c['bases'] else 'db.Entity'
        L = ['class %s(%s):' % (n, bases)]
        if not c['bases']:
            rs = info.rootspec[n]
            if rs['discr'] == 'int': L.append('    kind = Discriminator(int)')
            elif rs['discr'] in ('str', 'str_partial'): L.append('    kind = Discriminator(str)')
            if rs['pk'] == 'int': L.append('    id = PrimaryKey(int)')
            elif rs['pk'] == 'str': L.append('    id = PrimaryKey(str)')
            elif rs['pk'] == 'composite':
                L += ['    ka = Required(int)', '    kb = Required(str)', '    PrimaryKey(ka, kb)']
            # auto: implicit id
        if c.get('discr') is not None: L.append('    _discriminator_ = %r' % (c['discr'],))
        for a in c['attrs']:
            t = 'int' if a['type'] == 'int' else 'str'
            opts = ', unique=True' if a['unique'] else ''
            L.append('    %s = %s(%s%s)' % (a['name'], 'Required' if a['required'] else 'Optional', t, opts))
        for r in spec['rels']:
            if r['kind'] == 'n1':
                if r['a'] == n: L.append('    %s = Optional(%r, reverse=%r%s)' % (r['an'], r['b'], r['bn'], ', lazy=True' if r.get('lazy') else ''))
                if r['b'] == n: L.append('    %s = Set(%r, reverse=%r)' % (r['bn'], r['a'], r['an']))
            elif r['kind'] == 'mm':
                if r['a'] == n: L.append('    %s = Set(%r, reverse=%r)' % (r['an'], r['b'], r['bn']))
                if r['b'] == n: L.append('    %s = Set(%r, reverse=%r)' % (r['bn'], r['a'], r['an']))
            else:
                if r['a'] == n: L.append('    %s = Optional(%r, reverse=%r)' % (r['an'], r['b'], r['bn']))
                if r['b'] == n: L.append('    %s = Optional(%r, reverse=%r)' % (r['bn'], r['a'], r['an']))
        if len(L) == 1: L.append('    pass')
        out.append('\n'.join(L))
    return '\n'.join(out)


_CLASS_SLOTS = {}     # name -> class, so that pickle can resolve checks.C27.<name> for the current database


def _register(name, cls):
    mod = sys.modules[__name__]
    cls.__module__, cls.__qualname__ = __name__, cls.__name__
    setattr(mod, cls.__name__, cls)


class Env(object):
    def __init__(self, ctx, spec, tag):
        from pony import orm
        self.spec, self.info = spec, Info(spec)
        self.file = os.path.join(ctx.tmp(), 'c27-%s.sqlite' % tag)
        if os.path.exists(self.file): os.remove(self.file)
        self.db = db = orm.Database()
        ns = {'db': db, 'PrimaryKey': orm.PrimaryKey, 'Required': orm.Required, 'Optional': orm.Optional,
              'Set': orm.Set, 'Discriminator': orm.Discriminator}
        self.source = render(spec)
        exec(self.source, ns)
        self.E = {n: ns[n] for n in self.info.order}
        for n, cls in self.E.items(): _register(n, cls)
        db.bind('sqlite', self.file, create_db=True)
        db.generate_mapping(create_tables=True)

# ---------------------------------------------------------------------------------------------------------------
# population + model

class Model(object):
    def __init__(self):
        self.objs = {}          # oid -> {'cls','pk','vals','refs','sets'}
    def instances(self, info, cname):
        return [oid for oid, o in self.objs.items() if info.isa(o['cls'], cname)]
    def by_pk(self, info, root, pk):
        for oid, o in self.objs.items():
            if info.root[o['cls']] == root and o['pk'] == pk: return oid
        return None


def pkkw(info, cname, pk):
    kind = info.rootspec[info.root[cname]]['pk']
    if kind == 'composite': return {'ka': pk[0], 'kb': pk[1]}
    return {'id': pk}


def populate(ctx, env, rng, per_class):
    """Create objects of every class in ONE session (then links after a flush); checks the after-commit path."""
    from pony.orm import db_session, flush, commit
    info = env.info
    M = Model()
    live = {}
    uniq = itertools.count(100)
    with db_session:
        counters = {}
        for cname in info.order:
            root = info.root[cname]
            kind = info.rootspec[root]['pk']
            for j in range(per_class if cname not in PLAIN else (2 if cname == 'Owner' else 3)):
                k = counters[root] = counters.get(root, 0) + 1
                kw = {}
                if kind == 'int': pk = k; kw['id'] = pk
                elif kind == 'str': pk = 'k%d' % k; kw['id'] = pk
                elif kind == 'composite': pk = (k % 3, 's%d' % k); kw['ka'], kw['kb'] = pk
                else: pk = None
                vals = {}
                for an, (decl, typ, req, uq) in info.scalars[cname].items():
                    if uq: v = next(uniq) if rng.random() < 0.8 else None
                    elif typ == 'int': v = rng.choice([0, 1, 2, None]) if not req else rng.choice([0, 1, 2])
                    else: v = rng.choice(['a', 'b', None]) if not req else rng.choice(['a', 'b'])
                    vals[an] = v
                    if v is not None: kw[an] = v
                    # Optional(str) default: '' for attributes of a root entity, None for (nullable) subclass attributes
                    if typ == 'str' and v is None and not info.cls[decl]['bases']: vals[an] = ''
                obj = env.E[cname](**kw)
                oid = len(M.objs)
                M.objs[oid] = {'cls': cname, 'pk': pk, 'vals': vals, 'refs': {an: None for an in info.refs[cname]},
                               'sets': {an: set() for an in info.sets[cname]}}
                live[oid] = obj
        flush()
        for oid, obj in live.items():
            if M.objs[oid]['pk'] is None: M.objs[oid]['pk'] = obj.id
        # links.  An object of a diamond class referenced through attributes typed by two unrelated branches makes
        # pony fail loudly (F_DIAMOND); only specs flagged 'conflict' may contain such data.
        reft = {oid: set() for oid in M.objs}
        def link_ok(oid, T):
            if env.spec.get('conflict'): return True
            return all(info.isa(T, U) or info.isa(U, T) for U in reft[oid])
        def linked(a, b, r):
            reft[b].add(r['b']); reft[a].add(r['a'])
        for r in env.spec['rels']:
            A = M.instances(info, r['a']); B = M.instances(info, r['b'])
            if not A or not B: continue
            if r['kind'] == 'n1':
                p_link = 0.9 if r['a'] in PLAIN else 0.75
                for a in A:
                    if rng.random() < p_link:
                        b = rng.choice(B)            # cycles inside one hierarchy (a.parent = b, b.parent = a) included
                        if not (link_ok(b, r['b']) and link_ok(a, r['a'])): continue
                        linked(a, b, r)
                        setattr(live[a], r['an'], live[b])
                        M.objs[a]['refs'][r['an']] = b; M.objs[b]['sets'][r['bn']].add(a)
            elif r['kind'] == 'mm':
                for a in A:
                    for b in B:
                        if rng.random() < 0.6:
                            if not (link_ok(b, r['b']) and link_ok(a, r['a'])): continue
                            linked(a, b, r)
                            getattr(live[a], r['an']).add(live[b])
                            M.objs[a]['sets'][r['an']].add(b); M.objs[b]['sets'][r['bn']].add(a)
            else:
                free = list(B); rng.shuffle(free)
                for a in A:
                    if free and rng.random() < 0.7:
                        b = free.pop()
                        if M.objs[b]['refs'].get(r['an']) is not None or M.objs[a]['refs'].get(r['bn']) is not None: continue
                        if a == b: continue
                        if not (link_ok(b, r['b']) and link_ok(a, r['a'])): continue
                        linked(a, b, r)
                        setattr(live[a], r['an'], live[b])
                        M.objs[a]['refs'][r['an']] = b; M.objs[b]['refs'][r['bn']] = a
        commit()
        # path: after commit() in the same session
        for oid, obj in live.items():
            o = M.objs[oid]
            ctx.count('path.after_commit')
            if type(obj).__name__ != o['cls']:
                ctx.violation({'spec': env.spec, 'path': 'after_commit', 'oid': oid, 'got': type(obj).__name__,
                               'want': o['cls']}, mechanism='class-changed-after-commit')
            same = env.E[info.root[o['cls']]][o['pk']]
            if same is not obj or type(same).__name__ != o['cls']:
                ctx.violation({'spec': env.spec, 'path': 'after_commit_lookup', 'oid': oid}, mechanism='identity')
            read_all(ctx, env, M, obj, oid, 'after_commit')
    return M

# ---------------------------------------------------------------------------------------------------------------
# observation

def is_seed(obj):
    cache = obj._session_cache_
    return cache is not None and obj in cache.seeds[type(obj)._pk_attrs_]


def pk_only(obj):
    vals = obj._vals_
    # nothing from the object's own row except the key (values set through the reverse side of a link do not count)
    return vals is not None and all(a.pk_offset is not None or a.is_collection or not a.columns for a in vals)


class sess(object):
    """db_session that classifies the two loud internal errors this check has identified (by mechanism) and lets
    everything else propagate."""
    def __init__(self, ctx, env, M, what):
        self.ctx, self.env, self.M, self.what = ctx, env, M, what
        self.swallowed = False
    def __enter__(self):
        from pony.orm import db_session
        self.s = db_session()
        self.s.__enter__()
        return self
    def __exit__(self, et, ev, tb):
        try: self.s.__exit__(et, ev, tb)
        except BaseException as e:
            if et is None: raise
        if et is None: return False
        self.swallowed = classify_loud(self.ctx, self.env, self.M, ev, self.what)
        return self.swallowed


def classify_loud(ctx, env, M, e, what):
    import re
    from pony.orm.core import TransactionError
    info = env.info
    if type(e) is TransactionError:
        m = re.match(r"Unexpected class change from <class '[\w.]*?(\w+)'> to <class '[\w.]*?(\w+)'> for object with primary key (.*)$", str(e))
        if m:
            X, Y, pkrepr = m.groups()
            for oid, o in M.objs.items():
                if repr(o['pk']) == pkrepr and X in info.anc[o['cls']] and Y in info.anc[o['cls']] \
                        and not info.isa(X, Y) and not info.isa(Y, X):
                    ctx.count('finding.diamond_seed_conflict')
                    ctx.finding(F_DIAMOND, witness(env, M, path=what, oid=oid, created_as=o['cls'], seed_class=X, second_class=Y,
                                                   error=str(e)))
                    return True
    if type(e) is IndexError and what[0] in ('select_by_sql', 'get_by_sql', 'mixed.select_by_sql', 'mixed.get_by_sql'):
        K = env.E[what[1]]
        bad = [a.name for a in K._subclass_attrs_ if not a.columns]
        if bad:
            ctx.count('finding.select_by_sql_columnless_attr')
            ctx.finding(F_SQLATTR, witness(env, M, path=what, entity=what[1], columnless_subclass_attrs=bad, error=repr(e)))
            return True
    return False


def witness(env, M, **kw):
    w = {'spec': env.spec, 'pop': env.pop_key, 'per_class': env.per_class}
    w.update(kw)
    return w


def read_all(ctx, env, M, obj, oid, path):
    """Read every scalar / to-one attribute through the public API and compare with the model."""
    info = env.info
    o = M.objs[oid]
    for an, want in o['vals'].items():
        got = getattr(obj, an)
        ctx.count('attr_reads')
        if got != want:
            ctx.violation(witness(env, M, path=path, oid=oid, cls=o['cls'], attr=an, got=got, want=want),
                          mechanism='attribute-value')
    for an, tid in o['refs'].items():
        got = getattr(obj, an)
        ctx.count('ref_reads')
        if tid is None:
            if got is not None:
                ctx.violation(witness(env, M, path=path, oid=oid, attr=an, got=repr(got), want=None), mechanism='reference-value')
        else:
            t = M.objs[tid]
            if got is None or got._pkval_ != t['pk']:
                ctx.violation(witness(env, M, path=path + '/ref', oid=oid, attr=an, got=repr(got), want=[t['cls'], t['pk']]),
                              mechanism='reference-value')
            elif type(got).__name__ != t['cls']:
                observe(ctx, env, M, got, tid, path.split('/')[0] + '/ref', touch=False)


def pkval_of(env, o):
    return o['pk']


def observe(ctx, env, M, obj, oid, path, touch=True):
    """Judge type(obj) at first visibility (before touching it) and again after reading its attributes."""
    o = M.objs[oid]
    want = o['cls']
    seed = is_seed(obj)
    got = type(obj).__name__
    ctx.count('type_checks'); ctx.count('path.' + path)
    if seed: ctx.count('seeds_observed')
    nontrivial = want not in PLAIN
    ctx.case([env.fp, 'path', path, want, got], nontrivial=nontrivial,
             sample={'path': path, 'created_as': want, 'type': got, 'seed': seed})
    ok = True
    if got != want and not bracket_explicit(o, got):
        ok = False
        if seed and not seed_path(path):
            # pony loads polymorphic seeds on these paths (Attribute.get, query results, lookups): a seed here is a defect
            ctx.violation(witness(env, M, path=path, oid=oid, created_as=want, seen_as=got, seed=True),
                          mechanism='seed-with-declared-class-on-a-path-that-loads-seeds')
        elif seed:
            obj.load()
            if type(obj).__name__ == want:
                ctx.count('finding.seed_declared_class'); ctx.count('finding.seed_declared_class@' + path)
                ctx.finding(F_SEED, witness(env, M, path=path, oid=oid, created_as=want, seen_as=got,
                                            manifestation='type(obj) / isinstance(obj, Sub) wrong while pk-only seed',
                                            repro=repro_seed(env, M, oid, path)))
            else:
                ctx.violation(witness(env, M, path=path, oid=oid, created_as=want, seen_as=got, after_load=type(obj).__name__),
                              mechanism='wrong-class-even-after-load')
        elif path.startswith('unpickle') and pk_only(obj):
            obj.load()
            if type(obj).__name__ == want:
                ctx.count('finding.unpickled_pk_only')
                ctx.finding(F_UNPICKLE, witness(env, M, path=path, oid=oid, created_as=want, seen_as=got,
                                                manifestation='pk-only object from a pickle: declared class, not in seeds, '
                                                              'so to-one navigation does not refine it'))
            else:
                ctx.violation(witness(env, M, path=path, oid=oid, created_as=want, seen_as=got, after_load=type(obj).__name__),
                              mechanism='wrong-class-even-after-load')
        else:
            ctx.violation(witness(env, M, path=path, oid=oid, created_as=want, seen_as=got, seed=False),
                          mechanism='wrong-class-of-loaded-object')
    if touch:
        read_all(ctx, env, M, obj, oid, path)
        got2 = type(obj).__name__
        if got2 != want and not bracket_explicit(o, got2):
            ctx.violation(witness(env, M, path=path, oid=oid, created_as=want, seen_as=got2, when='after attribute access'),
                          mechanism='wrong-class-after-attribute-access')
            ok = False
    return ok


def seed_path(path):
    """Paths on which pony hands out pk-only seeds without loading them (the scope of F_SEED)."""
    return (path.startswith('coll_') and path.endswith('.m2m')) or path == 'prefetch.coll' or path.startswith('mixed.')


def bracket_explicit(o, got):
    return o.get('explicit_discr_cls') is not None and got == o['explicit_discr_cls']


def repro_seed(env, M, oid, path):
    return 'classes:\n%s\n# object %r created as %s is reached through %s in a fresh session before any of its ' \
           'columns is loaded' % (env.source, M.objs[oid]['pk'], M.objs[oid]['cls'], path)


def expect_set(ctx, env, M, got_objs, want_oids, path, what):
    """Polymorphic result: exactly the model's instances (by pk), each of the right class."""
    info = env.info
    want = {}
    for oid in want_oids: want[(info.root[M.objs[oid]['cls']], M.objs[oid]['pk'])] = oid
    got = {}
    for x in got_objs:
        key = (info.root[type(x).__name__], x._pkval_)
        got[key] = x
    ctx.count('set_checks')
    if len(got) != len(got_objs):
        ctx.violation(witness(env, M, path=path, what=what, problem='duplicates', got=sorted(map(repr, got_objs))),
                      mechanism='duplicate-objects')
    if set(got) != set(want):
        ctx.violation(witness(env, M, path=path, what=what, got=sorted(map(repr, got)), want=sorted(map(repr, want))),
                      mechanism='polymorphic-result-set')
        return False
    for key, x in got.items(): observe(ctx, env, M, x, want[key], path)
    return True

# ---------------------------------------------------------------------------------------------------------------
# access paths (each call opens its own fresh session)

def sql_names(cls):
    tbl = cls._table_
    tbl = tbl if isinstance(tbl, str) else tbl[-1]
    pkcols = list(cls._pk_columns_)
    d = cls._discriminator_attr_
    return tbl, pkcols, (d.column if d is not None else None)


def sqllit(v):
    return str(v) if isinstance(v, int) else "'%s'" % str(v).replace("'", "''")


def paths_direct(ctx, env, M, preseed=None):
    """Root[pk], Sub[pk], get(pk), exists(pk), get(unique attr) for every object x every class of its hierarchy.
    preseed: callable run first inside the same session (mixed-order variant); returns {oid: (obj, was_seed, type)}."""
    from pony.orm import db_session, ObjectNotFound
    info = env.info
    tag = 'mixed.' if preseed else ''
    for oid, o in M.objs.items():
        for kname in info.members[info.root[o['cls']]]:
            K = env.E[kname]
            isa = info.isa(o['cls'], kname)
            for how in ('getitem', 'get', 'exists'):
                with sess(ctx, env, M, (tag + how, kname, oid)):
                    seeded = preseed(oid) if preseed else None
                    kw = pkkw(info, o['cls'], o['pk'])
                    try:
                        if how == 'getitem': r = K[o['pk']]
                        elif how == 'get': r = K.get(**kw)
                        else: r = K.exists(**kw)
                        exc = None
                    except ObjectNotFound as e: r, exc = None, e
                    path = tag + how
                    ctx.count('lookup.' + path)
                    ctx.case([env.fp, path, kname, o['cls']], nontrivial=kname not in PLAIN)
                    if how == 'exists': good = (r is isa)
                    elif isa: good = r is not None and exc is None
                    else: good = (r is None)
                    if how == 'getitem' and not isa and exc is None and r is None: good = False
                    if good:
                        ctx.count('outcome.agree')
                        if isa and how != 'exists': observe(ctx, env, M, r, oid, path)
                    else:
                        judge_lookup_failure(ctx, env, M, oid, kname, how, r, exc, seeded, path)


def judge_lookup_failure(ctx, env, M, oid, kname, how, r, exc, seeded, path):
    """A lookup disagreed with the model.  It is the seed finding iff the session held the object as a pk-only
    seed whose (declared) class is unrelated to / above the class asked for, and the lookup is right once loaded."""
    from pony.orm import db_session, ObjectNotFound
    info = env.info
    o = M.objs[oid]
    w = witness(env, M, path=path, oid=oid, created_as=o['cls'], asked=kname, how=how, result=repr(r),
                exc=repr(exc) if exc else None, seeded=[seeded[1], seeded[2]] if seeded else None)
    if seeded and seeded[1] and seeded[2] != o['cls']:
        obj, X = seeded[0], seeded[2]
        # shape of the mechanism: _find_in_cache_ answers from the seed's declared class X when the class asked for is
        # unrelated to X (pony loads the seed only when one is a subclass of the other)
        shape = not info.isa(kname, X) and not info.isa(X, kname) and info.isa(o['cls'], kname)
        confirmed = None
        try:
            obj.load()
            K = env.E[kname]
            try: again = K[o['pk']]
            except ObjectNotFound: again = None
            confirmed = (again is not None) == info.isa(o['cls'], kname) and type(obj).__name__ == o['cls']
        except Exception as e:
            w['load_error'] = repr(e)
            if not classify_loud(ctx, env, M, e, ('load_seed_after_lookup', kname, oid)): confirmed = False
        if shape and confirmed is not False:
            ctx.count('finding.seed_lookup')
            w['manifestation'] = 'Sub[pk] / get / exists answered from the declared class of the seed'
            ctx.finding(F_SEED, w)
            return
    ctx.violation(w, mechanism='lookup-disagrees-with-model')


def paths_unique_get(ctx, env, M):
    from pony.orm import db_session
    info = env.info
    for oid, o in M.objs.items():
        for an, (decl, typ, req, uq) in info.scalars[o['cls']].items():
            if not uq or o['vals'][an] is None: continue
            for kname in info.desc[decl]:
                with sess(ctx, env, M, ('get_unique', kname, oid)):
                    r = env.E[kname].get(**{an: o['vals'][an]})
                    ctx.count('lookup.get_unique')
                    ctx.case([env.fp, 'get_unique', kname, o['cls']])
                    if info.isa(o['cls'], kname):
                        if r is None: ctx.violation(witness(env, M, path='get_unique', oid=oid, asked=kname), mechanism='lookup-disagrees-with-model')
                        else: observe(ctx, env, M, r, oid, 'get_unique')
                    elif r is not None:
                        ctx.violation(witness(env, M, path='get_unique', oid=oid, asked=kname, result=repr(r)), mechanism='lookup-disagrees-with-model')


def paths_select(ctx, env, M):
    from pony.orm import db_session, select, count, max as pmax
    info = env.info
    for kname in info.order:
        K = env.E[kname]
        inst = M.instances(info, kname)
        xattr = next((an for an, s in info.scalars[kname].items() if s[1] == 'int' and s[0] == info.root[kname]), None)
        forms = [
            ('select_all', lambda: K.select()[:]),
            ('select_gen', lambda: select(x for x in K)[:]),
            ('select_iter', lambda: [x for x in K.select()]),
            ('select_lambda', lambda: K.select(lambda x: True)[:]),
            ('entity_iter', lambda: list(select(x for x in K).order_by(1))),
            ('select_page', lambda: K.select().page(1, 1000)[:]),
        ]
        for name, f in forms:
            with sess(ctx, env, M, (name, kname)):
                ctx.case([env.fp, name, kname], nontrivial=kname not in PLAIN)
                ctx.count('polymorphic_reads')
                expect_set(ctx, env, M, list(f()), inst, name, kname)
        with sess(ctx, env, M, ('aggregates', kname)):
            n = len(inst)
            checks = [('count', K.select().count(), n), ('count_gen', select(x for x in K).count(), n),
                      ('len', len(K.select()[:]), n), ('exists', K.select().exists(), n > 0),
                      ('count_func', select(count(x) for x in K).first(), n)]
            first = K.select().first()
            checks.append(('first_none', first is None, n == 0))
            if xattr:
                vals = [M.objs[i]['vals'][xattr] for i in inst if M.objs[i]['vals'][xattr] is not None]
                checks.append(('sum', select(getattr(x, xattr) for x in K).sum(), sum(vals)))
                checks.append(('max', select(getattr(x, xattr) for x in K).max(), max(vals) if vals else None))
                for v in (0, 1, None):
                    want = sum(1 for i in inst if M.objs[i]['vals'][xattr] == v)
                    checks.append(('kw_count_%r' % v, K.select(**{xattr: v}).count(), want))
                    checks.append(('kw_exists_%r' % v, K.exists(**{xattr: v}), want > 0))
            for name, got, want in checks:
                ctx.case([env.fp, 'agg', name, kname], nontrivial=kname not in PLAIN)
                ctx.count('polymorphic_reads')
                if got != want:
                    ctx.violation(witness(env, M, path='aggregate', what=name, entity=kname, got=got, want=want),
                                  mechanism='polymorphic-aggregate')
                else: ctx.count('outcome.agree')
            if first is not None:
                oid = M.by_pk(info, info.root[kname], first._pkval_)
                if oid is None or not info.isa(M.objs[oid]['cls'], kname):
                    ctx.violation(witness(env, M, path='first', entity=kname, got=repr(first)), mechanism='polymorphic-result-set')
                else: observe(ctx, env, M, first, oid, 'first')
        with sess(ctx, env, M, ('select_random', kname)):
            k = 2
            r = K.select_random(k)
            ctx.case([env.fp, 'select_random', kname], nontrivial=kname not in PLAIN)
            keys = [x._pkval_ for x in r]
            if len(set(keys)) != len(keys) or len(keys) != min(k, len(inst)):
                ctx.violation(witness(env, M, path='select_random', entity=kname, got=repr(r), n=len(inst)), mechanism='polymorphic-result-set')
            for x in r:
                oid = M.by_pk(info, info.root[kname], x._pkval_)
                if oid is None or not info.isa(M.objs[oid]['cls'], kname):
                    ctx.violation(witness(env, M, path='select_random', entity=kname, got=repr(x)), mechanism='polymorphic-result-set')
                else: observe(ctx, env, M, x, oid, 'select_random')


def paths_sql(ctx, env, M, preseed_all=None):
    from pony.orm import db_session
    info = env.info
    tag = 'mixed.' if preseed_all else ''
    for kname in info.order:
        K = env.E[kname]
        tbl, pkcols, dcol = sql_names(K)
        inst = M.instances(info, kname)
        if not K._all_bases_:
            sql = 'SELECT * FROM "%s"' % tbl
        else:
            dv = [info.discr_value(c) for c in info.desc[kname]]
            sql = 'SELECT %s FROM "%s" WHERE "%s" IN (%s)' % (
                ', '.join('"%s"' % c for c in pkcols + [dcol]), tbl, dcol, ', '.join(sqllit(v) for v in dv))
        with sess(ctx, env, M, (tag + 'select_by_sql', kname)):
            if preseed_all: preseed_all()
            ctx.case([env.fp, tag + 'select_by_sql', kname], nontrivial=kname not in PLAIN)
            ctx.count('polymorphic_reads')
            expect_set(ctx, env, M, list(K.select_by_sql(sql)), inst, tag + 'select_by_sql', kname)
        for oid in inst[:3]:
            o = M.objs[oid]
            pk = o['pk'] if isinstance(o['pk'], tuple) else (o['pk'],)
            cond = ' AND '.join('"%s" = %s' % (c, sqllit(v)) for c, v in zip(pkcols, pk))
            one = sql + (' AND ' if ' WHERE ' in sql else ' WHERE ') + cond
            with sess(ctx, env, M, (tag + 'get_by_sql', kname, oid)):
                if preseed_all: preseed_all()
                ctx.case([env.fp, tag + 'get_by_sql', kname, o['cls']], nontrivial=kname not in PLAIN)
                r = K.get_by_sql(one)
                if r is None: ctx.violation(witness(env, M, path='get_by_sql', sql=one), mechanism='lookup-disagrees-with-model')
                else: observe(ctx, env, M, r, oid, tag + 'get_by_sql')


def paths_nav(ctx, env, M):
    """to-one navigation and to-many iteration from every object; prefetch variants."""
    from pony.orm import db_session
    info = env.info
    for oid, o in M.objs.items():
        Src = env.E[info.root[o['cls']]]
        for an, tid in o['refs'].items():
            with sess(ctx, env, M, ('fk_nav', o['cls'], an, oid)):
                src = Src[o['pk']]
                t = getattr(src, an)
                ctx.case([env.fp, 'fk_nav', o['cls'], an], nontrivial=True)
                if tid is None:
                    if t is not None: ctx.violation(witness(env, M, path='fk_nav', oid=oid, attr=an, got=repr(t)), mechanism='reference-value')
                elif t is None or t._pkval_ != M.objs[tid]['pk']:
                    ctx.violation(witness(env, M, path='fk_nav', oid=oid, attr=an, got=repr(t)), mechanism='reference-value')
                else:
                    if an in info.lazyrefs: ctx.count('fk_nav.lazy_attr')
                    observe(ctx, env, M, t, tid, 'fk_nav')
        for an, tids in o['sets'].items():
            decl, tcls, rname, rkind = info.sets[o['cls']][an]
            kind = 'm2m' if rkind == 'set' else 'o2m'
            for variant in ('iter', 'copy', 'select', 'len_first'):
                with sess(ctx, env, M, ('coll_' + variant, o['cls'], an, oid)):
                    src = Src[o['pk']]
                    coll = getattr(src, an)
                    ctx.case([env.fp, 'coll_' + variant, o['cls'], an, kind], nontrivial=True)
                    ctx.count('polymorphic_reads')
                    if variant == 'iter': items = list(coll)
                    elif variant == 'copy': items = list(coll.copy())
                    elif variant == 'select': items = list(coll.select())
                    else:
                        n = len(coll)
                        if n != len(tids) or coll.count() != len(tids) or coll.is_empty() != (not tids):
                            ctx.violation(witness(env, M, path='coll_len', oid=oid, attr=an, got=n, want=len(tids)), mechanism='polymorphic-collection-size')
                        items = list(coll)
                    expect_set(ctx, env, M, items, tids, 'coll_%s.%s' % (variant, kind), an)
            # membership of each item, asked with a freshly looked-up object
            with sess(ctx, env, M, ('coll_contains', o['cls'], an, oid)):
                src = Src[o['pk']]
                for tid in M.instances(info, tcls)[:4]:
                    t = M.objs[tid]
                    x = env.E[info.root[t['cls']]][t['pk']]
                    got = x in getattr(src, an)
                    ctx.count('membership_checks')
                    if got != (tid in tids):
                        ctx.violation(witness(env, M, path='coll_contains', oid=oid, attr=an, item=tid, got=got), mechanism='polymorphic-collection-membership')


def paths_chain(ctx, env, M, rng, quick):
    """Reference CHAINS  start.a1.a2[.a3]  (and  item.a2  for every item of a collection): each hop is read on the object
    the previous hop returned, so intermediate objects are whatever the session holds at that moment -- for entities
    without subclasses an unloaded pk-only seed whose row is loaded by this very access.  The final target must have
    its creating class, whether or not the hop had to load its owner first, and also when the attribute is lazy."""
    info = env.info
    chains2, chains3 = [], []
    for oid, o in M.objs.items():
        for a1, t1 in o['refs'].items():
            if t1 is None: continue
            for a2, t2 in M.objs[t1]['refs'].items():
                if t2 is None: continue
                chains2.append((oid, (a1, a2), (t1, t2)))
                for a3, t3 in M.objs[t2]['refs'].items():
                    if t3 is None: continue
                    chains3.append((oid, (a1, a2, a3), (t1, t2, t3)))
    # every chain whose intermediates are all objects of plain entities (the seeds pony does not load by itself); of the
    # others a seeded sample
    def plain_mid(ch): return all(M.objs[t]['cls'] in PLAIN for t in ch[2][:-1])
    cap = 150 if quick else 500
    chosen = []
    for group in (chains2, chains3):
        first = [c for c in group if plain_mid(c)]
        rest = [c for c in group if not plain_mid(c)]
        rng.shuffle(rest)
        chosen += first[:cap * 2] + rest[:cap]
    for oid, attrs, tids in chosen:
        o = M.objs[oid]
        name = 'chain%d' % len(attrs)
        with sess(ctx, env, M, (name, o['cls'], list(attrs), oid)):
            x = env.E[info.root[o['cls']]][o['pk']]
            mids = []
            ok = True
            for i, a in enumerate(attrs):
                if i: mids.append(is_seed(x))         # was the object we are about to read from an unloaded seed?
                x = getattr(x, a)
                if x is None or x._pkval_ != M.objs[tids[i]]['pk']:
                    ctx.violation(witness(env, M, path=name, oid=oid, attrs=list(attrs), hop=i, got=repr(x)), mechanism='reference-value')
                    ok = False; break
            if not ok: continue
            last = attrs[-1]
            tcls = M.objs[tids[-1]]['cls']
            declared = info.refs[M.objs[tids[-2]]['cls']][last][1]
            ctx.case([env.fp, name, o['cls'], list(attrs), tcls, mids], nontrivial=True,
                     sample={'path': name, 'start': o['cls'], 'attrs': list(attrs), 'intermediate_was_seed': mids, 'target': tcls})
            ctx.count('chain.cases')
            if any(mids): ctx.count('chain.intermediate_seed')
            if mids[-1]: ctx.count('chain.owner_seed_at_read')
            if mids[-1] and tcls != declared: ctx.count('chain.owner_seed_at_read.target_is_subclass')
            if last in info.lazyrefs:
                ctx.count('chain.lazy_last')
                if tcls != declared: ctx.count('chain.lazy_last.target_is_subclass')
            observe(ctx, env, M, x, tids[-1], name)
    # collection item -> reference
    for oid, o in M.objs.items():
        for an, items in o['sets'].items():
            decl, tcls, rname, rkind = info.sets[o['cls']][an]
            for a2 in info.refs[tcls]:
                if not any(M.objs[t]['refs'].get(a2) is not None for t in items): continue
                with sess(ctx, env, M, ('chain_coll', o['cls'], an, a2, oid)):
                    src = env.E[info.root[o['cls']]][o['pk']]
                    ctx.case([env.fp, 'chain_coll', o['cls'], an, a2, rkind], nontrivial=True)
                    try: chain_coll_items(ctx, env, M, src, oid, an, a2, tcls)
                    except NotImplementedError:
                        # loud and accepted: a seed of the declared class whose reference value was already known through the
                        # reverse side got read bits from that read; a later (batch) load that has to refine its class refuses
                        ctx.count('outcome.pony_raised.refine_seed_with_read_bits_NotImplementedError')


def chain_coll_items(ctx, env, M, src, oid, an, a2, tcls):
    info = env.info
    for item in getattr(src, an):
        tid = M.by_pk(info, info.root[tcls], item._pkval_)
        if tid is None: continue
        want = M.objs[tid]['refs'].get(a2)
        seed = is_seed(item)
        got = getattr(item, a2)
        ctx.count('chain.coll_item_reads')
        if seed: ctx.count('chain.coll_item_seed_at_read')
        if want is None:
            if got is not None: ctx.violation(witness(env, M, path='chain_coll', oid=oid, attr=an, a2=a2, got=repr(got)), mechanism='reference-value')
        elif got is None or got._pkval_ != M.objs[want]['pk']:
            ctx.violation(witness(env, M, path='chain_coll', oid=oid, attr=an, a2=a2, got=repr(got)), mechanism='reference-value')
        else: observe(ctx, env, M, got, want, 'chain_coll')


def paths_prefetch(ctx, env, M):
    from pony.orm import db_session
    info = env.info
    for kname in info.order:
        K = env.E[kname]
        names = list(info.refs[kname]) + list(info.sets[kname])
        if not names: continue
        with sess(ctx, env, M, ('prefetch', kname)):
            res = K.select().prefetch(*[getattr(K, n) for n in names])[:]
            ctx.case([env.fp, 'prefetch', kname, names], nontrivial=True)
            if not expect_set(ctx, env, M, list(res), M.instances(info, kname), 'prefetch.base', kname): continue
            for x in res:
                oid = M.by_pk(info, info.root[kname], x._pkval_)
                o = M.objs[oid]
                for an in info.refs[kname]:
                    tid = o['refs'][an]
                    t = getattr(x, an)
                    if tid is not None and t is not None: observe(ctx, env, M, t, tid, 'prefetch.ref')
                for an in info.sets[kname]:
                    expect_set(ctx, env, M, list(getattr(x, an)), o['sets'][an], 'prefetch.coll', an)


def paths_proxy_pickle(ctx, env, M):
    from pony.orm import db_session, make_proxy
    info = env.info
    proxies, blobs = {}, {}
    for oid, o in M.objs.items():
        with sess(ctx, env, M, ('make_proxy_and_pickle', oid)):
            obj = env.E[info.root[o['cls']]][o['pk']]
            proxies[oid] = make_proxy(obj)
            try: blobs[oid] = pickle.dumps(obj)
            except RecursionError: ctx.count('outcome.pony_raised.pickle_recursion'); blobs[oid] = None
    qblobs = {}
    for kname in info.order:
        with sess(ctx, env, M, ('pickle_queryresult', kname)):
            K = env.E[kname]
            q = K.select().order_by(*K._pk_attrs_)
            try: qblobs[kname] = (pickle.dumps(q[:]), [x._pkval_ for x in q])
            except RecursionError: ctx.count('outcome.pony_raised.pickle_recursion')
    for oid, o in M.objs.items():
        with sess(ctx, env, M, ('proxy', oid)):
            if oid not in proxies: continue
            obj = proxies[oid]._get_object()
            ctx.case([env.fp, 'proxy', o['cls']])
            observe(ctx, env, M, obj, oid, 'proxy')
        with sess(ctx, env, M, ('proxy_attr', oid)):                      # attribute access straight through the proxy
            for an, want in o['vals'].items():
                if oid not in proxies: break
                got = getattr(proxies[oid], an)
                ctx.count('proxy_attr_reads')
                if got != want: ctx.violation(witness(env, M, path='proxy_attr', oid=oid, attr=an, got=got, want=want), mechanism='attribute-value')
        if blobs.get(oid) is not None:
            with sess(ctx, env, M, ('unpickle', oid)):
                obj = pickle.loads(blobs[oid])
                ctx.case([env.fp, 'unpickle', o['cls']])
                observe(ctx, env, M, obj, oid, 'unpickle')
                if env.E[info.root[o['cls']]][o['pk']] is not obj:
                    ctx.violation(witness(env, M, path='unpickle', oid=oid), mechanism='identity')
    for kname, (blob, pks) in qblobs.items():
        with sess(ctx, env, M, ('unpickle_queryresult', kname)):
            res = pickle.loads(blob)
            ctx.case([env.fp, 'unpickle_queryresult', kname], nontrivial=kname not in PLAIN)
            if [x._pkval_ for x in res] != pks:
                ctx.violation(witness(env, M, path='unpickle_queryresult', entity=kname), mechanism='polymorphic-result-set')
            expect_set(ctx, env, M, list(res), M.instances(info, kname), 'unpickle_queryresult', kname)


def make_preseed(env, M):
    """Returns (preseed(oid), preseed_all()): load every holder of a link to the object(s) so that the session gets
    them as pk-only seeds where pony makes seeds (raw _vals_ peek for to-one, iteration for collections)."""
    info = env.info
    def holders(oid):
        out = []
        for hid, h in M.objs.items():
            for an, tids in h['sets'].items():
                if oid in tids: out.append((hid, an))
        return out
    def preseed(oid):
        obj = None
        for hid, an in holders(oid):
            h = M.objs[hid]
            src = env.E[info.root[h['cls']]][h['pk']]
            for x in getattr(src, an):
                if x._pkval_ == M.objs[oid]['pk'] and info.root[type(x).__name__] == info.root[M.objs[oid]['cls']]:
                    obj = x
            if obj is not None and is_seed(obj): break
        if obj is None: return None
        return (obj, is_seed(obj), type(obj).__name__)
    def preseed_all():
        for hid, h in M.objs.items():
            if h['cls'] != 'Owner': continue
            src = env.E['Owner'][h['pk']]
            for an in h['sets']: list(getattr(src, an))
    return preseed, preseed_all


def paths_seed_assignment(ctx, env, M):
    """Assign a subclass attribute to a collection item that is really an instance of the subclass; the next session
    must see the value, or the assignment must have been loud."""
    from pony.orm import db_session, commit
    info = env.info
    done = 0
    for hid, h in M.objs.items():
        for an, tids in h['sets'].items():
            decl, tcls, rname, rkind = info.sets[h['cls']][an]
            for tid in sorted(tids):
                t = M.objs[tid]
                cands = [a for a, s in info.scalars[t['cls']].items() if s[1] == 'int' and not s[3] and a not in info.scalars[tcls]]
                if not cands or done >= 6: continue
                attr = cands[0]
                newv = 40 + done
                done += 1
                was_seed = seen = None
                outcome = 'ok'
                with sess(ctx, env, M, ('assign_sub_attr', hid, an, tid)) as S:
                    src = env.E[info.root[h['cls']]][h['pk']]
                    x = next(i for i in getattr(src, an) if i._pkval_ == t['pk'])
                    was_seed, seen = is_seed(x), type(x).__name__
                    try: setattr(x, attr, newv)
                    except Exception as e: outcome = type(e).__name__
                    try: commit()
                    except Exception as e: outcome = 'commit:' + type(e).__name__
                ctx.case([env.fp, 'assign_sub_attr', h['cls'], an, t['cls'], attr])
                ctx.count('assign_sub_attr')
                if S.swallowed: continue
                stored = 'unknown'
                with sess(ctx, env, M, ('assign_sub_attr_check', tid)) as S2:
                    stored = getattr(env.E[t['cls']][t['pk']], attr)
                if S2.swallowed: continue
                if outcome != 'ok':
                    ctx.count('outcome.pony_raised.assign_' + outcome)
                    if stored == newv: t['vals'][attr] = newv
                    continue
                if stored == newv:
                    t['vals'][attr] = newv; ctx.count('outcome.agree'); continue
                w = witness(env, M, path='assign_sub_attr', holder=hid, coll=an, item=tid, created_as=t['cls'],
                            seen_as=seen, attr=attr, assigned=newv, stored=stored, was_seed=was_seed,
                            manifestation='assignment to a subclass attribute of a seed sets a plain python attribute; never saved')
                if was_seed and seen != t['cls'] and attr not in info.scalars.get(seen, {}):
                    ctx.count('finding.seed_assignment_lost')
                    ctx.finding(F_SEED, w)
                else: ctx.violation(w, mechanism='assignment-silently-lost')

# ---------------------------------------------------------------------------------------------------------------
# isinstance / subclass attribute queries

def py_isinstance(info, cname, classinfo):
    return cname is not None and any(info.isa(cname, c) for c in classinfo)


def q_isinstance_forms(E, C1, C2, C3, neg, which):
    """The real query forms (generator / lambda / strings); C1..C3 entity classes."""
    from pony.orm import select
    if C2 is None:
        if not neg:
            if which == 'gen': return select(x for x in E if isinstance(x, C1))
            if which == 'lambda': return E.select(lambda x: isinstance(x, C1))
            if which == 'str_lambda': return E.select('lambda x: isinstance(x, C1)')
            if which == 'str_gen': return select('x for x in E if isinstance(x, C1)')
        else:
            if which == 'gen': return select(x for x in E if not isinstance(x, C1))
            if which == 'lambda': return E.select(lambda x: not isinstance(x, C1))
            if which == 'str_lambda': return E.select('lambda x: not isinstance(x, C1)')
            if which == 'str_gen': return select('x for x in E if not isinstance(x, C1)')
    elif C3 is None:
        if not neg:
            if which == 'gen': return select(x for x in E if isinstance(x, (C1, C2)))
            if which == 'lambda': return E.select(lambda x: isinstance(x, (C1, C2)))
            if which == 'str_lambda': return E.select('lambda x: isinstance(x, (C1, C2))')
            if which == 'str_gen': return select('x for x in E if isinstance(x, (C1, C2))')
        else:
            if which == 'gen': return select(x for x in E if not isinstance(x, (C1, C2)))
            if which == 'lambda': return E.select(lambda x: not isinstance(x, (C1, C2)))
            if which == 'str_lambda': return E.select('lambda x: not isinstance(x, (C1, C2))')
            if which == 'str_gen': return select('x for x in E if not isinstance(x, (C1, C2))')
    else:
        if not neg:
            if which == 'gen': return select(x for x in E if isinstance(x, (C1, C2, C3)))
            if which == 'lambda': return E.select(lambda x: isinstance(x, (C1, C2, C3)))
            if which == 'str_lambda': return E.select('lambda x: isinstance(x, (C1, C2, C3))')
            if which == 'str_gen': return select('x for x in E if isinstance(x, (C1, C2, C3))')
        else:
            if which == 'gen': return select(x for x in E if not isinstance(x, (C1, C2, C3)))
            if which == 'lambda': return E.select(lambda x: not isinstance(x, (C1, C2, C3)))
            if which == 'str_lambda': return E.select('lambda x: not isinstance(x, (C1, C2, C3))')
            if which == 'str_gen': return select('x for x in E if not isinstance(x, (C1, C2, C3))')
    raise AssertionError(which)

FORMS = ('gen', 'lambda', 'str_lambda', 'str_gen')


def classinfos(info, rng, kname, quick):
    names = info.order
    out = [(c,) for c in names]
    pairs = list(itertools.combinations(names, 2))
    rng.shuffle(pairs)
    out += pairs[:(8 if quick else 40)]
    triples = list(itertools.combinations(names, 3))
    rng.shuffle(triples)
    out += triples[:(3 if quick else 15)]
    return out


def queries_isinstance(ctx, env, M, rng, quick):
    from pony.orm import db_session
    info = env.info
    for kname in info.order:
        if kname in PLAIN and quick: continue
        E = env.E[kname]
        inst = M.instances(info, kname)
        for ci in classinfos(info, rng, kname, quick):
            cs = [env.E[c] for c in ci] + [None, None]
            for neg in (False, True):
                want = sorted(repr(M.objs[i]['pk']) for i in inst if py_isinstance(info, M.objs[i]['cls'], ci) != neg)
                for form in FORMS:
                    with sess(ctx, env, M, ('isinstance', form, neg, kname, list(ci))):
                        ctx.case([env.fp, 'isinstance', form, neg, kname, list(ci)], nontrivial=True,
                                 sample={'query': '%s: %sisinstance(x, %s) for x in %s' % (form, 'not ' if neg else '', '/'.join(ci), kname)})
                        ctx.count('isinstance_queries'); ctx.count('isinstance_form.' + form)
                        try:
                            res = q_isinstance_forms(E, cs[0], cs[1], cs[2], neg, form)[:]
                        except Exception as e:
                            if classify_loud(ctx, env, M, e, ('isinstance', form, kname)): continue
                            ctx.count('outcome.pony_raised.isinstance_' + type(e).__name__)
                            msg = type(e).__name__ + ': ' + str(e)[:60]
                            if msg not in ctx.extra.setdefault('isinstance_errors', []): ctx.extra['isinstance_errors'].append(msg)
                            continue
                        got = sorted(repr(x._pkval_) for x in res)
                        if got == want: ctx.count('outcome.agree'); ctx.count('isinstance.agree')
                        else:
                            ctx.violation(witness(env, M, path='isinstance', form=form, entity=kname, classinfo=list(ci), neg=neg,
                                                  got=got, want=want), mechanism='isinstance-disagrees-with-python')
                        for x in res:
                            oid = M.by_pk(info, info.root[kname], x._pkval_)
                            if oid is not None: observe(ctx, env, M, x, oid, 'isinstance_result', touch=False)


def column_value_in_owner_row(env, M, oid, ref_target_cls):
    """Deviation rule helper: the value pony's SQL actually tests for isinstance(x.ref, C): the column named like
    the discriminator column of ref's hierarchy, but in x's own table row.  Returns ('novalue',) if x's table has no
    such column (pony's SQL then fails loudly)."""
    info = env.info
    T = env.E[ref_target_cls]
    d = T._discriminator_attr_
    if d is None: return ('nodiscr',)
    X = env.E[M.objs[oid]['cls']]
    for attr in X._root_._attrs_ + X._root_._subclass_attrs_:
        if attr.columns and d.column in attr.columns:
            if attr.is_discriminator: return ('val', info.discr_value(M.objs[oid]['cls']))
            return ('other', attr.name)
    return ('novalue',)


def queries_isinstance_ref(ctx, env, M, rng, quick):
    """isinstance() on a to-one attribute / on a collection loop variable."""
    from pony.orm import db_session, select
    info = env.info
    for kname in info.order:
        E = env.E[kname]
        inst = M.instances(info, kname)
        for an, (decl, tcls, rname, rkind) in info.refs[kname].items():
            if not env.E[tcls]._discriminator_attr_: continue
            cands = [(c,) for c in info.members[info.root[tcls]]]
            pairs = list(itertools.combinations(info.members[info.root[tcls]], 2)); rng.shuffle(pairs)
            cands += pairs[:3 if quick else 12]
            for ci in cands:
                for neg in (False, True):
                    for form in ('str_gen', 'str_lambda', 'getattr_gen'):
                        C1 = env.E[ci[0]]; C2 = env.E[ci[1]] if len(ci) > 1 else None
                        ctext = 'C1' if C2 is None else '(C1, C2)'
                        pre = 'not ' if neg else ''
                        with sess(ctx, env, M, ('isinstance_ref', form, neg, kname, an, list(ci))):
                            ctx.case([env.fp, 'isinstance_ref', form, neg, kname, an, list(ci)], nontrivial=True)
                            ctx.count('isinstance_ref_queries')
                            try:
                                if form == 'str_gen': q = select('x for x in E if %sisinstance(x.%s, %s)' % (pre, an, ctext))
                                elif form == 'str_lambda': q = E.select('lambda x: %sisinstance(x.%s, %s)' % (pre, an, ctext))
                                else:
                                    if C2 is None:
                                        q = select(x for x in E if not isinstance(getattr(x, an), C1)) if neg else \
                                            select(x for x in E if isinstance(getattr(x, an), C1))
                                    else:
                                        q = select(x for x in E if not isinstance(getattr(x, an), (C1, C2))) if neg else \
                                            select(x for x in E if isinstance(getattr(x, an), (C1, C2)))
                                res = q[:]
                            except Exception as e:
                                if classify_loud(ctx, env, M, e, ('isinstance_ref', form, kname, an)): continue
                                ctx.count('outcome.pony_raised.isinstance_ref_' + type(e).__name__)
                                continue
                            got = sorted(repr(x._pkval_) for x in res)
                            def tcls_of(i):
                                t = M.objs[i]['refs'][an]
                                return None if t is None else M.objs[t]['cls']
                            want = sorted(repr(M.objs[i]['pk']) for i in inst if py_isinstance(info, tcls_of(i), ci) != neg)
                            # `not isinstance(None, C)`: Python True, SQL unknown -> rows whose reference is None are bracketed
                            must = set(repr(M.objs[i]['pk']) for i in inst if tcls_of(i) is not None and py_isinstance(info, tcls_of(i), ci) != neg)
                            if got == want: ctx.count('outcome.agree'); continue
                            if neg and must <= set(got) <= set(want):
                                ctx.count('outcome.agree'); ctx.count('bracket.not_isinstance_of_none'); continue
                            # deviation rules
                            S = set()
                            for c in ci:
                                if info.root[c] == info.root[tcls]: S |= info.desc[c]
                            w = witness(env, M, path='isinstance_ref', form=form, entity=kname, attr=an, declared=tcls,
                                        classinfo=list(ci), neg=neg, got=got, want=want, sql=env.db.last_sql)
                            if tcls in S:
                                dev = sorted(repr(M.objs[i]['pk']) for i in inst if (True) != neg)
                                if got == dev:
                                    ctx.count('finding.isinstance_none'); ctx.finding(F_ISNONE, w); continue
                            else:
                                S2 = S & (info.desc[tcls] - {tcls})
                                dvals = {info.discr_value(c) for c in S2}
                                def dev_true(i):
                                    cv = column_value_in_owner_row(env, M, i, tcls)
                                    return cv[0] == 'val' and cv[1] in dvals
                                if S2 and all(column_value_in_owner_row(env, M, i, tcls)[0] == 'val' for i in inst):
                                    dev = sorted(repr(M.objs[i]['pk']) for i in inst if dev_true(i) != neg)
                                    if got == dev:
                                        ctx.count('finding.isinstance_ref'); ctx.finding(F_ISREF, w); continue
                            ctx.violation(w, mechanism='isinstance-disagrees-with-python')
        # loop variable over a collection
        for an, (decl, tcls, rname, rkind) in info.sets[kname].items():
            if not env.E[tcls]._discriminator_attr_: continue
            for c in info.members[info.root[tcls]]:
                C1 = env.E[c]
                with sess(ctx, env, M, ('isinstance_loopvar', kname, an, c)):
                    ctx.case([env.fp, 'isinstance_loopvar', kname, an, c, rkind], nontrivial=True)
                    ctx.count('isinstance_loopvar_queries')
                    try: res = select('y for x in E for y in x.%s if isinstance(y, C1)' % an)[:]
                    except Exception as e:
                        if classify_loud(ctx, env, M, e, ('isinstance_loopvar', kname, an)): continue
                        ctx.count('outcome.pony_raised.isinstance_loopvar_%s_%s' % ('m2m' if rkind == 'set' else 'o2m', type(e).__name__))
                        continue
                    got = sorted(set(repr(x._pkval_) for x in res))
                    linked = set()
                    for i in inst: linked |= M.objs[i]['sets'][an]
                    want = sorted(repr(M.objs[t]['pk']) for t in linked if info.isa(M.objs[t]['cls'], c))
                    if got == want: ctx.count('outcome.agree')
                    else: ctx.violation(witness(env, M, path='isinstance_loopvar', entity=kname, attr=an, cls=c, got=got, want=want,
                                                sql=env.db.last_sql), mechanism='isinstance-disagrees-with-python')


def queries_subattr(ctx, env, M, quick):
    """select(x for x in Base if x.sub_attr == v): raises, or equals the Python filter over objects having the attribute."""
    from pony.orm import db_session, select
    info = env.info
    for kname in info.order:
        E = env.E[kname]
        inst = M.instances(info, kname)
        sub_attrs = {}
        for d in info.desc[kname]:
            for an, s in info.scalars[d].items(): sub_attrs.setdefault(an, s)
        for an, (decl, typ, req, uq) in sub_attrs.items():
            domain = ([0, 1, 2] if typ == 'int' else ['a', 'b', '']) + [None]
            if uq: domain = [v for v in {M.objs[i]['vals'].get(an) for i in inst} if v is not None][:2] + [None]
            for v in domain:
                for form in ('str_gen', 'lambda_getattr'):
                    with sess(ctx, env, M, ('subattr', form, kname, an, v)):
                        ctx.case([env.fp, 'subattr', form, kname, an, v], nontrivial=decl != kname)
                        ctx.count('subattr_queries')
                        try:
                            if form == 'str_gen':
                                res = select('x for x in E if x.%s %s' % (an, 'is None' if v is None else '== v'))[:]
                            else:
                                res = (E.select(lambda x: getattr(x, an) is None) if v is None else E.select(lambda x: getattr(x, an) == v))[:]
                        except Exception as e:
                            if classify_loud(ctx, env, M, e, ('subattr', form, kname, an)): continue
                            ctx.count('outcome.pony_raised.subattr_' + type(e).__name__)
                            if an in info.scalars[kname]:
                                ctx.violation(witness(env, M, path='subattr', entity=kname, attr=an, exc=repr(e)), mechanism='own-attribute-query-raised')
                            continue
                        got = set(repr(x._pkval_) for x in res)
                        has = [i for i in inst if an in M.objs[i]['vals']]
                        lacks = [i for i in inst if an not in M.objs[i]['vals']]
                        def val(i): return M.objs[i]['vals'][an]
                        must = set(repr(M.objs[i]['pk']) for i in has if val(i) == v)
                        may = set(must)
                        if v is None or v == '':
                            may |= set(repr(M.objs[i]['pk']) for i in lacks)          # column is NULL / '' for them
                            if v is None: may |= set(repr(M.objs[i]['pk']) for i in has if val(i) == '')
                            if v == '': may |= set(repr(M.objs[i]['pk']) for i in has if val(i) is None)
                        if must <= got <= may:
                            ctx.count('outcome.agree')
                            if got != must: ctx.count('bracket.subattr_null_reading')
                        else:
                            ctx.violation(witness(env, M, path='subattr', form=form, entity=kname, attr=an, value=v,
                                                  got=sorted(got), must=sorted(must), may=sorted(may)), mechanism='subclass-attribute-query')
                        for x in res:
                            oid = M.by_pk(info, info.root[kname], x._pkval_)
                            if oid is not None: observe(ctx, env, M, x, oid, 'subattr_result', touch=False)


def explicit_discriminator(ctx, env, M):
    """A(kind=<value of Sub>): bracketed -- may reload as A or as Sub; never as anything else."""
    from pony.orm import db_session
    info = env.info
    for rs in env.spec['roots']:
        if rs['discr'] in ('none',) or rs['pk'] not in ('int', 'str'): continue
        root = rs['name']
        subs = [c for c in info.members[root] if c != root and not any(s[2] for s in info.scalars[c].values())]
        if not subs: continue
        sub = subs[0]
        dname = env.E[root]._discriminator_attr_.name
        pk = 900 if rs['pk'] == 'int' else 'k900'
        try:
            with sess(ctx, env, M, ('explicit_discriminator', root)) as S: env.E[root](**{'id': pk, dname: info.discr_value(sub)})
            if S.swallowed: continue
        except Exception as e:
            ctx.count('outcome.pony_raised.explicit_discr_' + type(e).__name__); continue
        oid = len(M.objs)
        vals = {an: (None if s[1] == 'int' else '') for an, s in info.scalars[root].items()}
        with sess(ctx, env, M, ('explicit_discriminator', root)):
            obj = env.E[root][pk]
            got = type(obj).__name__
            ctx.case([env.fp, 'explicit_discriminator', root, sub])
            ctx.count('bracket.explicit_discriminator.' + ('creating_class' if got == root else 'designated_class' if got == sub else 'other'))
            if got not in (root, sub):
                ctx.violation(witness(env, M, path='explicit_discriminator', created_as=root, value_of=sub, got=got), mechanism='wrong-class-of-loaded-object')
            obj.delete()

# ---------------------------------------------------------------------------------------------------------------

def run_spec(ctx, spec, pop_seed, quick, only=None, per_class=None):
    from pony.orm import core
    rng = ctx.subrng('pop', pop_seed, spec['idx'])
    try:
        env = Env(ctx, spec, '%d-%d' % (ctx.shard, spec['idx']))
    except core.ERDiagramError as e:
        ctx.count('spec_rejected'); ctx.extra.setdefault('rejected', []).append(str(e)[:200])
        return
    env.pop_key = pop_seed
    env.per_class = per_class or (2 if quick else 3)
    env.fp = json.dumps([spec['shape'], [(r['pk'], r['discr']) for r in spec['roots']],
                         [(r['kind'], r['a'], r['an'], r['b']) for r in spec['rels']],
                         [[a['name'], a['required'], a['unique']] for c in spec['classes'] for a in c['attrs']]])
    ctx.count('databases'); ctx.count('shape.' + spec['shape'])
    for r in spec['roots']:
        if r['name'] not in PLAIN: ctx.count('pk.' + r['pk']); ctx.count('discr.' + r['discr'])
    try: M = populate(ctx, env, rng, env.per_class)
    except Exception:
        import traceback
        ctx.violation({'spec': spec, 'pop': pop_seed, 'path': 'populate', 'error': traceback.format_exc()[-1800:]},
                      mechanism='unexpected-exception-in-populate')
        clean_session(); env.db.disconnect()
        return
    preseed, preseed_all = make_preseed(env, M)
    steps = [
        ('direct', lambda: paths_direct(ctx, env, M)),
        ('direct_mixed', lambda: paths_direct(ctx, env, M, preseed)),
        ('unique', lambda: paths_unique_get(ctx, env, M)),
        ('select', lambda: paths_select(ctx, env, M)),
        ('sql', lambda: paths_sql(ctx, env, M)),
        ('sql_mixed', lambda: paths_sql(ctx, env, M, preseed_all)),
        ('nav', lambda: paths_nav(ctx, env, M)),
        ('chain', lambda: paths_chain(ctx, env, M, rng, quick)),
        ('prefetch', lambda: paths_prefetch(ctx, env, M)),
        ('proxy_pickle', lambda: paths_proxy_pickle(ctx, env, M)),
        ('isinstance', lambda: queries_isinstance(ctx, env, M, rng, quick)),
        ('isinstance_ref', lambda: queries_isinstance_ref(ctx, env, M, rng, quick)),
        ('subattr', lambda: queries_subattr(ctx, env, M, quick)),
        ('explicit_discr', lambda: explicit_discriminator(ctx, env, M)),
        ('seed_assignment', lambda: paths_seed_assignment(ctx, env, M)),     # last: changes data
    ]
    for name, f in steps:
        if only and name not in only: continue
        try: f()
        except Exception as e:
            import traceback
            ctx.violation(witness(env, M, path=name, harness_or_pony_error=traceback.format_exc()[-1800:]),
                          mechanism='unexpected-exception-in-' + name)
            clean_session()
    env.db.disconnect()
    try: os.remove(env.file)
    except OSError: pass


def clean_session():
    from pony.orm import core, rollback
    try: rollback()
    except Exception: pass
    core.local.db_context_counter = 0; core.local.db_session = None; core.local.db2cache.clear()


def run(ctx):
    quick = ctx.tier == 'quick'
    n = 10
    base = ctx.shard * 1000
    for i in range(n):
        idx = i if (ctx.shard == 0) else base + 12 + i      # shard 0 walks the systematic prefix
        spec = gen_spec(ctx.subrng('spec', idx), idx)
        run_spec(ctx, spec, idx, quick)
    k = 1 if quick else 1.4
    ctx.floor('databases', int(n * 0.8))
    ctx.floor('type_checks', int(15000 * k))
    ctx.floor('seeds_observed', int(300 * k))
    ctx.floor('polymorphic_reads', int(1500 * k))
    ctx.floor('set_checks', int(1500 * k))
    ctx.floor('isinstance_queries', int(5000 * k))
    ctx.floor('isinstance.agree', int(5000 * k))
    ctx.floor('isinstance_ref_queries', int(1500 * k))
    ctx.floor('subattr_queries', int(2000 * k))
    ctx.floor('path.unpickle', int(60 * k))
    ctx.floor('path.proxy', int(80 * k))
    ctx.floor('path.fk_nav', int(60 * k))
    ctx.floor('chain.cases', int(250 * k))
    ctx.floor('chain.owner_seed_at_read.target_is_subclass', int(25 * k))
    ctx.floor('chain.lazy_last.target_is_subclass', int(5 * k))
    ctx.floor('fk_nav.lazy_attr', int(10 * k))
    ctx.floor('chain.coll_item_seed_at_read', int(40 * k))
    ctx.floor('lookup.mixed.getitem', int(300 * k))
    ctx.floor('outcome.agree', int(12000 * k))


def replay(ctx, witness):
    pc = witness.get('per_class', 2)
    run_spec(ctx, witness['spec'], witness['pop'], pc == 2, per_class=pc)

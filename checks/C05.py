"""C05 — Query, SQL and result caches are transparent.

Histories of query executions are run twice over copies of the same database files:

  COLD  before every step the harness clears every cache pony keeps (translator, constructed-SQL, string->ast,
        adapted raw SQL, decompiler, extractors, raw_sql fragments, lambda args, per-entity SQL caches, per-attribute
        SQL caches and the session's query_results);
  WARM  nothing is ever cleared: caches accumulate across steps and across all histories of the process.

Oracle: every step's result (rows or exception class) must be equal pairwise, and equal to a direct python
evaluation over a mirror of the data for the step kinds where one is cheap to define.  Caches are observed through
counting dict subclasses substituted for the plain dicts (harness side only), so the evidence says how many times each
cache actually answered; a cache with too few hits makes the run inconclusive.

On a disagreement the step (if it is side-effect free) is re-run in the warm environment after clearing ONE cache at a
time: the cache whose clearing alone restores the cold answer names the mechanism.
"""
import os, json, datetime, itertools, shutil

META = {
    'level': 'exploration',
    'engine': 'E1+E3',
    'technique': 'runtime differential monitor: warm-cache vs cold-cache execution of generated query histories on '
                 'SQLite, python reference on a data mirror for simple step kinds, per-cache hit counters, '
                 'single-cache-clearing diagnosis of disagreements',
    'level_text': 'Seeded random histories (8-30 steps, 1-3 sessions) built to stress cache keys: one code object / '
                  'query string re-executed with baked-in parameter values (slice bounds, indexes, getattr names), '
                  'changing parameter types (int/float/str/None/tuples of different lengths/entity instances/dates), '
                  'chained filter/where/order_by on shared base queries, queries over queries and QueryResults, the '
                  'same text on two Databases with different schemas, in-session modifications with and without '
                  'flush/commit, aggregates and fetch/limit/page with differently spelled keyword arguments (distinct absent/None/'
                  'False/True, sep, query-level distinct()/without_distinct()), raw SQL and adapt_sql in five styles. '
                  'Every step is judged by warm==cold (exact) and '
                  'by a python reference where defined. Exploration: histories are sampled.',
    'level_note': 'Trusted: clearing a cache is semantically neutral (that is the property itself, applied to the cold '
                  'run), sqlite3, the data mirror for the python reference; dict subclasses that count lookups are '
                  'substituted for pony\'s cache dicts. Only SQLite executes; adapt_sql for the other parameter styles '
                  'is judged on its output.',
    'rule': 'a case = one history (list of step specs); distinct = distinct histories; non-trivial = the warm run had '
            'at least one cache hit during the history; steps and per-cache hits are counted separately',
    'assumptions': [
        'a history leaves the database as it found it (sessions are rolled back; committed changes are undone by the '
        'harness through plain sqlite3 after the history)',
        'unordered query results are compared as multisets; ordered ones (total order) as lists',
    ],
    'shims': [],
    'exhaustive_tiers': [],
}
SHARDS = {'quick': 1, 'thorough': 16}
SHARD_TIMEOUT = {'quick': 110, 'thorough': 900}

F_ADAPT = 'C05-ADAPT-SQL-CACHE-KEY-PERCENT'
F_EXTR = 'C05-EXTRACTORS-CACHE-KEY-IGNORES-QUERY-NAMES'
F_QR = 'C05-RESULT-CACHE-ALIASES-QUERYRESULT-LIST'
F_RAWDML = 'C05-RESULT-CACHE-SURVIVES-RAW-DML'

C05_THRESH = 30          # module global read by a function that is called inside queries
C05_EQ = None             # module global read by hybrid methods / properties of the entities (value AND type change)
GLOBAL_DEFAULTS = {'C05_THRESH': 30, 'C05_EQ': None}


def older_than_thresh(p):
    return p.age > C05_THRESH


def report_finding(ctx, fid, witness, cap=8):
    """ctx.finding, but while `fid` is not an open known finding only the first `cap` hits are submitted as witnesses."""
    e = ctx.known.get(fid)
    if (e is not None and e.get('status') == 'open' and e.get('property') == ctx.pid) \
            or ctx.counters.get('submitted.' + fid, 0) < cap:
        ctx.count('submitted.' + fid)
        ctx.finding(fid, witness)
    else:
        ctx.count('not_submitted_beyond_cap.' + fid)


class HarnessError(Exception): pass


class NS(object):
    def __init__(self, **kw): self.__dict__.update(kw)
    def __repr__(self): return 'NS(%r)' % self.__dict__


class CountingDict(dict):
    """dict that counts answered lookups; behaviour is otherwise that of dict."""
    hits = 0
    misses = 0
    def get(self, key, default=None):
        try: v = dict.__getitem__(self, key)
        except KeyError:
            self.misses += 1; return default
        except TypeError:
            return dict.get(self, key, default)
        self.hits += 1; return v
    def __getitem__(self, key):
        try: v = dict.__getitem__(self, key)
        except KeyError:
            self.misses += 1; raise
        self.hits += 1; return v

# ---------------------------------------------------------------------------------------------------------------
# data
# ---------------------------------------------------------------------------------------------------------------
D = datetime.date
GROUPS1 = [(1, 'alpha', 1), (2, 'beta', 5), (3, 'gamma', 9)]
PEOPLE1 = [  # id, name, nick, age, score, born, group
    (1, 'Ann', 'a', 17, 1.5, D(2001, 1, 1), 1), (2, 'Bob', '', 31, None, D(1990, 5, 20), 1), (3, 'Cid', 'c', 40, 2.5, D(1980, 2, 28), 2),
    (4, 'Dan', '', 25, 0.0, None, 2), (5, 'Eve', 'e', 60, None, D(1960, 12, 31), 3), (6, 'Fay', 'f', 33, 7.25, D(1988, 7, 7), None),
    (7, 'Gus', '', 18, 2.5, D(2000, 3, 3), 3), (8, 'Hal', 'h', 45, None, D(1975, 8, 15), 1), (9, 'Ivy', '', 52, 9.0, None, 2),
    (10, 'Bobby', 'b', 22, 1.5, D(1999, 9, 9), None), (11, 'Anna', '', 31, 3.5, D(1990, 5, 21), 3), (12, 'Cy', 'y', 29, None, D(1992, 4, 1), 1)]
GROUPS2 = [(1, 'one', 'b'), (2, 'two', 'd'), (3, 'three', 'a')]
PEOPLE2 = [  # id, name (column fullname), nick(int), age, group
    (1, 'Ann', 5, 70, 2), (2, 'Zed', None, 31, 2), (3, 'Cid', 7, 12, 1), (4, 'Yan', None, 25, None), (5, 'Eve', 1, 44, 3),
    (6, 'Bob', 2, 31, 1), (7, 'Xi', None, 90, 3), (8, 'Hal', 3, 5, None)]


def define_db(orm, which):
    db = orm.Database()
    if which == 1:
        class Group(db.Entity):
            id = orm.PrimaryKey(int)
            title = orm.Required(str)
            level = orm.Required(int)
            members = orm.Set('Person')
        class Person(db.Entity):
            id = orm.PrimaryKey(int)
            name = orm.Required(str)
            nick = orm.Optional(str)
            age = orm.Required(int)
            score = orm.Optional(float)
            born = orm.Optional(datetime.date)
            group = orm.Optional(Group)
            def opt_is(self): return self.score == C05_EQ            # hybrid method reading a module global
            @property
            def opt_matches(self): return self.score == C05_EQ       # hybrid property reading a module global
            def older(self): return self.age > C05_THRESH
    else:
        class Group(db.Entity):
            id = orm.PrimaryKey(int)
            title = orm.Required(str)
            level = orm.Required(str)
            members = orm.Set('Person')
        class Person(db.Entity):
            id = orm.PrimaryKey(int)
            name = orm.Required(str, column='fullname')
            nick = orm.Optional(int)
            age = orm.Required(int)
            group = orm.Optional(Group)
            def opt_is(self): return self.nick == C05_EQ
            @property
            def opt_matches(self): return self.nick == C05_EQ
            def older(self): return self.age > C05_THRESH
    return db


def populate(orm, db, which):
    with orm.db_session:
        if which == 1:
            for g in GROUPS1: db.Group(id=g[0], title=g[1], level=g[2])
            for p in PEOPLE1:
                db.Person(id=p[0], name=p[1], nick=p[2], age=p[3], score=p[4], born=p[5], group=p[6])
        else:
            for g in GROUPS2: db.Group(id=g[0], title=g[1], level=g[2])
            for p in PEOPLE2: db.Person(id=p[0], name=p[1], nick=p[2], age=p[3], group=p[4])


def sqlite_dump(path):
    import sqlite3
    con = sqlite3.connect(path)
    try:
        return {t: con.execute('select * from "%s" order by 1' % t).fetchall() for t in ('Group', 'Person')}
    finally: con.close()


def sqlite_restore(path, dump):
    import sqlite3
    con = sqlite3.connect(path)
    try:
        con.execute('PRAGMA foreign_keys = OFF')
        for t in ('Person', 'Group'):
            con.execute('delete from "%s"' % t)
        for t in ('Group', 'Person'):
            for row in dump[t]:
                con.execute('insert into "%s" values (%s)' % (t, ','.join('?' * len(row))), row)
        con.commit()
    finally: con.close()

# ---------------------------------------------------------------------------------------------------------------
# the query code objects (created once per process; re-executed with different arguments)
# ---------------------------------------------------------------------------------------------------------------
def make_funcs():
    from pony.orm import select, desc, count, raw_sql, avg
    def age_gt(E, x): return select(p for p in E.Person if p.age > x)
    def age_gt_s(E, x): return select(s for s in E.Person if s.age > x)
    def ids_age_ge(E, x): return select(p.id for p in E.Person if p.age >= x)
    def name_slice(E, a, b): return select(p.name[a:b] for p in E.Person)
    def name_from(E, a): return select(p.name[a:] for p in E.Person)
    def name_index(E, i): return select((p.id, p.name[i]) for p in E.Person)
    def getattr_(E, n): return select(getattr(p, n) for p in E.Person)
    def getattr_pair(E, n, m): return select((p.id, getattr(p, n), getattr(p, m)) for p in E.Person)
    def id_in(E, coll): return select(p for p in E.Person if p.id in coll)
    def name_in(E, coll): return select(p.id for p in E.Person if p.name in coll)
    def score_eq(E, v): return select(p for p in E.Person if p.score == v)
    def nick_eq(E, v): return select(p.id for p in E.Person if p.nick == v)
    def group_is(E, g): return select(p for p in E.Person if p.group == g)
    def born_lt(E, d): return select(p.id for p in E.Person if p.born < d)
    def two_params(E, x, s): return select((p.id, p.name) for p in E.Person if p.age >= x and p.name.startswith(s))
    def in_subq(E, lv): return select(p for p in E.Person if p.group in select(g for g in E.Group if g.level > lv))
    def over_query(E, x, y):
        q = select(p for p in E.Person if p.age > x)
        return select(z for z in q if z.age < y)
    def func_global(E): return select(p for p in E.Person if older_than_thresh(p))
    def hyb_method(E): return select(p for p in E.Person if p.opt_is())
    def hyb_method_ids(E): return select(p.id for p in E.Person if p.opt_is() and p.older())
    def hyb_prop(E): return E.Person.select(lambda p: p.opt_matches)
    def hyb_prop_param(E, x): return select(p for p in E.Person if p.opt_matches or p.age > x)
    def concat(E, s): return select(p.name + s for p in E.Person)
    def cnt_by_group(E, x): return select((p.group, count(p)) for p in E.Person if p.age > x)
    def raw_frag(E, x): return select(p for p in E.Person if raw_sql('p.age > $x'))
    def raw_frag_dyn(E, frag, x, y): return select(p.id for p in E.Person if raw_sql(frag))
    def level_gt(E, x): return select(g.id for g in E.Group if g.level > x)
    def all_people(E): return select(p for p in E.Person)
    def all_people_s(E): return select(s for s in E.Person)
    funcs = dict((k, v) for k, v in locals().items() if callable(v) and getattr(v, '__code__', None) is not None
                 and k not in ('select', 'desc', 'count', 'raw_sql', 'avg'))
    # lambda makers: one code object per lambda, different cell values per call
    def L_startswith(s): return lambda p: p.name.startswith(s)
    def L_id_ne(k): return lambda p: p.id != k
    def L_slice_eq(a, b, t): return lambda p: p.name[a:b] == t
    def L_age_lt(x): return lambda p: p.age < x
    def L_in(coll): return lambda p: p.id in coll
    def L_order_desc_age(): return lambda p: (desc(p.age), p.id)
    def L_order_attr(n): return lambda p: (getattr(p, n), p.id)
    def L_s_age_lt(x): return lambda s: s.age < x
    lambdas = {'startswith': L_startswith, 'id_ne': L_id_ne, 'slice_eq': L_slice_eq, 'age_lt': L_age_lt, 'in': L_in,
               'order_desc_age': L_order_desc_age, 'order_attr': L_order_attr, 's_age_lt': L_s_age_lt}
    return funcs, lambdas

BASE_VARS = {'age_gt_s': ('s',), 'all_people_s': ('s',), 'level_gt': ('g',), 'over_query': ('z',)}   # default ('p',)

# ---------------------------------------------------------------------------------------------------------------
# argument encoding (history specs are JSON)
# ---------------------------------------------------------------------------------------------------------------
def dec(env, a):
    if isinstance(a, list):
        tag = a[0]
        if tag == 'date': return datetime.date(*a[1])
        if tag == 'datetime': return datetime.datetime(*a[1])
        if tag == 'ent': return env.db[a[1]].entities[a[2]][a[3]]
        if tag == 'tuple': return tuple(dec(env, x) for x in a[1])
        if tag == 'list': return [dec(env, x) for x in a[1]]
        if tag == 'set': return set(dec(env, x) for x in a[1])
        if tag == 'ns': return NS(**a[1])
        raise ValueError(a)
    return a


def norm(x):
    """Result -> JSON-able normal form."""
    if x is None or isinstance(x, (bool, int, str)): return x
    if isinstance(x, float): return round(x, 9)
    if isinstance(x, (datetime.date, datetime.datetime)): return x.isoformat()
    if isinstance(x, (list, tuple)): return [norm(i) for i in x]
    if hasattr(x, '_pk_attrs_') and hasattr(x, 'get_pk'): return ['E', x.__class__.__name__, x.get_pk()]
    if hasattr(x, '_get_items'): return [norm(i) for i in x]
    if isinstance(x, (set, frozenset)): return sorted((norm(i) for i in x), key=json.dumps)
    return repr(x)


def unordered(rows):
    return sorted(rows, key=lambda r: json.dumps(r, sort_keys=True, default=repr))

# ---------------------------------------------------------------------------------------------------------------
# environment (one per mode)
# ---------------------------------------------------------------------------------------------------------------
class Env(object):
    def __init__(self, ctx, mode, tmp):
        from pony import orm
        from pony.orm import core, decompiling, asttranslation, ormtypes
        from pony.utils import utils as putils
        self.orm, self.core, self.mode = orm, core, mode
        self.modules = dict(core=core, decompiling=decompiling, asttranslation=asttranslation, ormtypes=ormtypes, putils=putils)
        self.db, self.path, self.pristine = {}, {}, {}
        for which in (1, 2):
            db = define_db(orm, which)
            path = os.path.join(tmp, 'c05-%s-%d-%d.sqlite' % (mode, which, ctx.shard))
            if os.path.exists(path): os.remove(path)
            db.bind('sqlite', path, create_db=True)
            db.generate_mapping(create_tables=True)
            populate(orm, db, which)
            self.db[which], self.path[which] = db, path
            self.pristine[which] = sqlite_dump(path)
        self.qr_hits = 0
        self.install_counters()
        self.reset_session_state()

    # -- caches ---------------------------------------------------------------------------------------------------
    def db_caches(self):
        """name -> list of CountingDicts owned by this environment's Database objects."""
        out = {}
        for which, db in self.db.items():
            out.setdefault('translator', []).append(db._translator_cache)
            out.setdefault('constructed_sql', []).append(db._constructed_sql_cache)
            for e in db.entities.values():
                for short, attr in (('find_sql', '_find_sql_cache_'), ('load_sql', '_load_sql_cache_'),
                                    ('batchload_sql', '_batchload_sql_cache_'), ('insert_sql', '_insert_sql_cache_'),
                                    ('update_sql', '_update_sql_cache_'), ('delete_sql', '_delete_sql_cache_')):
                    out.setdefault(short, []).append(e.__dict__[attr])
        return out

    def install_counters(self):
        for db in self.db.values():
            db._translator_cache = CountingDict(db._translator_cache)
            db._constructed_sql_cache = CountingDict(db._constructed_sql_cache)
            for e in db.entities.values():
                for attr in ('_find_sql_cache_', '_load_sql_cache_', '_batchload_sql_cache_', '_insert_sql_cache_',
                             '_update_sql_cache_', '_delete_sql_cache_'):
                    setattr(e, attr, CountingDict(e.__dict__[attr]))

    def clear_db_caches(self):
        for lst in self.db_caches().values():
            for d in lst: d.clear()
        for db in self.db.values():
            db._insert_cache.clear()
            for e in db.entities.values():
                e._cached_max_id_sql_ = None
                for a in e._new_attrs_:
                    a.lazy_sql_cache = None
                    if a.is_collection:
                        a.cached_load_sql.clear()
                        a.cached_add_m2m_sql = a.cached_remove_m2m_sql = a.cached_count_sql = a.cached_empty_sql = None

    def session_caches(self):
        out = []
        for db in self.db.values():
            c = self.core.local.db2cache.get(db)
            if c is not None and c.query_results is not None: out.append(c)
        return out

    def clear_query_results(self):
        for c in self.session_caches(): c.query_results.clear()

    def reset_session_state(self):
        self.queries, self.results = {}, {}
        self.mutated_results = set()      # result slots whose list was reversed/sorted in place (this session)
        self.last_exec = {}               # query signature -> (event index, result) of its last agreeing execution
        self.event_log = []               # step kinds of this session, in order
        self.committed = False

GLOBAL_CACHES = (('string2ast', 'core', 'string2ast_cache'), ('adapted_sql', 'core', 'adapted_sql_cache'),
                 ('ast_cache', 'decompiling', 'ast_cache'), ('extractors', 'asttranslation', 'extractors_cache'),
                 ('raw_sql', 'ormtypes', 'raw_sql_cache'), ('lambda_args', 'putils', 'lambda_args_cache'))


def install_global_counters(modules):
    out = {}
    for short, mod, name in GLOBAL_CACHES:
        cur = getattr(modules[mod], name)
        if not isinstance(cur, CountingDict):
            cur = CountingDict(cur); setattr(modules[mod], name, cur)
        out[short] = cur
    return out

# ---------------------------------------------------------------------------------------------------------------
# step execution
# ---------------------------------------------------------------------------------------------------------------
def apply_post(env, q, post, E):
    kind = post[0]
    if kind == 'all': return 'U', norm(q[:])
    if kind == 'ordered': return 'O', norm(q.order_by(1)[:])
    if kind == 'ordered_attr': return 'O', norm(q.order_by(E.Person.id)[:])
    if kind == 'slice': return 'O', norm(q.order_by(1)[post[1]:post[2]])
    if kind == 'slice_ids': return 'O', norm(q[post[1]:post[2]])
    if kind == 'slice_unordered': return 'N', len(q[post[1]:post[2]])
    if kind == 'page': return 'O', norm(q.order_by(1).page(post[1], post[2]))
    if kind == 'limit': return 'O', norm(list(q.order_by(1).limit(post[1], offset=post[2])))
    if kind == 'aggr':
        # any aggregate with explicit keyword arguments as written by the user: ['aggr', via, name, kwargs]
        # via: None | 'distinct' | 'without_distinct' (query-level flag applied first)
        if post[1] == 'distinct': q = q.distinct()
        elif post[1] == 'without_distinct': q = q.without_distinct()
        v = getattr(q, post[2])(**post[3])
        if post[2] == 'group_concat' and isinstance(v, str): return 'O', [len(v), ''.join(sorted(v))]
        return 'O', norm(v)
    if kind == 'fetch_kw': return 'O', norm(q.order_by(1).fetch(**post[1]))
    if kind == 'limit_kw': return 'O', norm(list(q.order_by(1).limit(**post[1])))
    if kind == 'page_kw': return 'O', norm(q.order_by(1).page(post[1], **post[2]))
    if kind == 'count': return 'O', q.count()
    if kind == 'count_distinct': return 'O', q.count(distinct=True)
    if kind == 'exists': return 'O', q.exists()
    if kind == 'first': return 'O', norm(q.order_by(1).first())
    if kind == 'len': return 'O', len(q)
    if kind == 'sum': return 'O', norm(q.sum())
    if kind == 'max': return 'O', norm(q.max())
    if kind == 'avg': return 'O', norm(q.avg())
    if kind == 'group_concat': return 'N', len(q.group_concat(post[1]) or '')
    if kind == 'get_sql': return 'O', q.get_sql()
    if kind == 'without_distinct': return 'U', norm(q.without_distinct()[:])
    if kind == 'iter': return 'U', norm([x for x in q])
    raise HarnessError(post)


def apply_op(env, q, op, E):
    kind = op[0]
    if kind == 'filter_lambda': return q.filter(env.lambdas[op[1]](*[dec(env, a) for a in op[2]]))
    if kind == 'where_lambda': return q.where(env.lambdas[op[1]](*[dec(env, a) for a in op[2]]))
    if kind == 'order_lambda': return q.order_by(env.lambdas[op[1]](*[dec(env, a) for a in op[2]]))
    if kind == 'filter_str': return q.filter(op[1], {}, dict((k, dec(env, v)) for k, v in op[2].items()))
    if kind == 'where_str': return q.where(op[1], {}, dict((k, dec(env, v)) for k, v in op[2].items()))
    if kind == 'order_str': return q.order_by(op[1], {}, dict((k, dec(env, v)) for k, v in op[2].items()))
    if kind == 'kw': return q.filter(**dict((k, dec(env, v)) for k, v in op[1].items()))
    if kind == 'where_kw': return q.where(**dict((k, dec(env, v)) for k, v in op[1].items()))
    if kind == 'order_attr': return q.order_by(getattr(E.Person, op[1]), E.Person.id)
    if kind == 'order_desc': return q.order_by(env.orm.desc(getattr(E.Person, op[1])), E.Person.id)
    if kind == 'order_num': return q.order_by(*op[1])
    if kind == 'order_none': return q.order_by(None)
    if kind == 'distinct': return q.distinct()
    raise HarnessError(op)


def query_sig(step):
    return json.dumps([step.get('k'), step.get('db'), step.get('fn'), step.get('args'), step.get('ops'), step.get('slot_from'),
                       step.get('text'), step.get('locals'), step.get('post')], sort_keys=True, default=repr)


def exec_step(env, step):
    """-> ('ok', ordering tag, value) | ('exc', class name).  Ordering tag: 'O' compare as is, 'U' compare as multiset,
    'N' already a number."""
    orm, core = env.orm, env.core
    k = step['k']
    try:
        if k == 'chain':
            db = env.db[step['db']]
            E = db
            if step.get('slot_from') is not None:
                q = env.queries.get(step['slot_from'])
                if q is None: return ('ok', 'O', 'no-such-slot')
            else:
                q = env.funcs[step['fn']](E, *[dec(env, a) for a in step['args']])
            for op in step.get('ops', ()): q = apply_op(env, q, op, E)
            probe = None
            if step.get('slot_to') is not None:
                env.queries[step['slot_to']] = q
                # a stored query is used by later steps: compare what it IS (SQL text + arguments), not only what this
                # step fetched from it, so that a silent difference is seen where it arises
                try:
                    sql, arguments = q._construct_sql_and_arguments()[:2]
                    probe = [sql, norm(list(arguments.values()) if isinstance(arguments, dict) else arguments)]
                except Exception as ex: probe = ['exc', type(ex).__name__]
            if step.get('post') is None: return ('ok', 'O', 'built', probe)
            try: tag, val = apply_post(env, q, step['post'], E)
            except HarnessError: raise
            except Exception as ex:
                if probe is None: raise
                return ('exc', type(ex).__name__, probe)      # the query was stored all the same: keep its identity
            return ('ok', tag, val, probe)
        if k == 'qr_make':
            q = env.queries.get(step['slot'])
            if q is None: return ('ok', 'O', 'no-such-slot')
            if step['lazy']: r = q.order_by(1).limit(step['limit'], offset=step['offset'])
            else: r = q.order_by(1)[:]
            env.results[step['res']] = (r, step['slot'])
            return ('ok', 'O', 'made' if step['lazy'] else norm(r))
        if k == 'qr_mutate':
            r = env.results.get(step['res'])
            if r is None: return ('ok', 'O', 'no-such-result')
            r = r[0]
            if step['op'] == 'reverse': r.reverse()
            elif step['op'] == 'sort_desc': r.sort(key=lambda o: json.dumps(norm(o)), reverse=True)
            return ('ok', 'O', norm(r))
        if k == 'qr_read':
            r = env.results.get(step['res'])
            if r is None: return ('ok', 'O', 'no-such-result')
            return ('ok', 'O', [norm(list(r[0])), len(r[0])])
        if k == 'qr_query':
            r = env.results.get(step['res'])
            if r is None: return ('ok', 'O', 'no-such-result')
            src, y = r[0], step['y']
            if step['form'] == 'iter': q = orm.select(x for x in src if x.age < y)
            else: q = orm.select(p for p in env.db[step['db']].Person if p in src and p.age < y)
            return ('ok', 'O', norm(q.order_by(1)[:]))
        if k == 'dyn':
            # a query whose code object is created now (compile/eval) and dies with this step
            db = env.db[step['db']]
            ns = {'Person': db.Person, 'Group': db.Group}
            ns.update((n, dec(env, v)) for n, v in step.get('locals', {}).items())
            obj = eval(compile(step['src'], '<dyn %d>' % (hash(step['src']) % 1000), 'eval'), ns)
            if step['form'] == 'gen': q = orm.select(obj)
            elif step['form'] == 'lambda': q = db.Person.select(obj)
            elif step['form'] == 'filter': q = db.Person.select().filter(obj)
            else: q = db.Person.select().order_by(obj)
            del obj
            tag, val = apply_post(env, q, step['post'], db)
            del q
            return ('ok', tag, val)
        if k == 'strq':
            db = env.db[step['db']]
            g = {'Person': db.Person, 'Group': db.Group}
            l = dict((n, dec(env, v)) for n, v in step['locals'].items())
            q = orm.select(step['text'], g, l)
            tag, val = apply_post(env, q, step['post'], db)
            return ('ok', tag, val)
        if k == 'entity_api':
            db = env.db[step['db']]
            ent = db.entities[step['entity']]
            kw = dict((n, dec(env, v)) for n, v in step['kw'].items())
            m = step['method']
            if m == 'get': return ('ok', 'O', norm(ent.get(**kw)))
            if m == 'exists': return ('ok', 'O', ent.exists(**kw))
            if m == 'select_kw': return ('ok', 'U', norm(ent.select(**kw)[:]))
            if m == 'getitem': return ('ok', 'O', norm(ent[step['pk']]))
            if m == 'attr': return ('ok', 'O', norm(getattr(ent[step['pk']], step['attr'])))
            if m == 'obj_load':
                o = ent[step['pk']]; o.load(*step.get('attrs', ()))
                return ('ok', 'O', norm([o.name, o.age]))
            if m == 'seed_attr': return ('ok', 'O', norm(ent[step['pk']].group.title))
            if m == 'collection': return ('ok', 'U', norm(list(ent[step['pk']].members)))
            if m == 'collection_count': return ('ok', 'O', ent[step['pk']].members.count())
            raise HarnessError(m)
        if k == 'raw':
            db = env.db[step['db']]
            l = dict((n, dec(env, v)) for n, v in step['locals'].items())
            m = step['method']
            if m == 'select': return ('ok', 'U', norm(db.select(step['sql'], {}, l)))
            if m == 'exists': return ('ok', 'O', db.exists(step['sql'], {}, l))
            if m == 'select_by_sql': return ('ok', 'U', norm(db.Person.select_by_sql(step['sql'], {}, l)))
            if m == 'get_by_sql': return ('ok', 'O', norm(db.Person.get_by_sql(step['sql'], {}, l)))
            raise HarnessError(m)
        if k == 'raw_dml':
            db = env.db[step['db']]
            l = dict((n, dec(env, v)) for n, v in step['locals'].items())
            cur = db.execute(step['sql'], {}, l)
            return ('ok', 'O', cur.rowcount)
        if k == 'adapt':
            adapted, code = core.adapt_sql(step['sql'], step['style'])
            return ('ok', 'O', [adapted, norm(eval(code, {}, dict(step['ns'])))])
        if k == 'set':
            obj = env.db[step['db']].Person[step['pk']]
            setattr(obj, step['attr'], dec(env, step['val']))
            return ('ok', 'O', 'set')
        if k == 'create':
            kw = dict((n, dec(env, v)) for n, v in step['kw'].items())
            env.db[step['db']].Person(**kw)
            return ('ok', 'O', 'created')
        if k == 'delete':
            env.db[step['db']].Person[step['pk']].delete()
            return ('ok', 'O', 'deleted')
        if k == 'bulk_delete':
            db = env.db[step['db']]
            x = step['x']
            n = orm.select(p for p in db.Person if p.age > x).delete(bulk=True)
            return ('ok', 'O', n)
        if k == 'flush':
            orm.flush(); return ('ok', 'O', 'flushed')
        if k == 'commit':
            orm.commit(); env.committed = True; return ('ok', 'O', 'committed')
        if k == 'set_global':
            globals()[step.get('name', 'C05_THRESH')] = dec(env, step['val'])
            return ('ok', 'O', 'global-set')
        raise HarnessError(k)
    except HarnessError: raise
    except Exception as ex:
        return ('exc', type(ex).__name__)


SIDE_EFFECT_FREE = ('chain', 'strq', 'dyn', 'entity_api', 'raw', 'adapt', 'qr_read', 'qr_query', 'qr_make')


def canon(res):
    if res[0] == 'exc': return res
    tag, val = res[1], res[2]
    if tag == 'U' and isinstance(val, list): val = unordered(val)
    if len(res) > 3 and res[3] is not None: return ('ok', val, res[3])
    return ('ok', val)

# ---------------------------------------------------------------------------------------------------------------
# python reference on a mirror of db1 / db2 Person rows
# ---------------------------------------------------------------------------------------------------------------
def mirror_initial():
    m1 = dict((p[0], dict(id=p[0], name=p[1], nick=p[2], age=p[3], score=p[4], born=p[5], group=p[6])) for p in PEOPLE1)
    m2 = dict((p[0], dict(id=p[0], name=p[1], nick=p[2], age=p[3], group=p[4])) for p in PEOPLE2)
    return {1: m1, 2: m2}


def ref_value(step, mirror, env):
    """Python evaluation of simple step kinds; None when no reference is defined."""
    if step['k'] != 'chain' or step.get('slot_from') is not None or step.get('ops'): return None
    rows = list(mirror[step['db']].values())
    fn, args, post = step['fn'], step['args'], step['post']
    if post is None: return None
    try:
        if fn in ('age_gt', 'age_gt_s') and isinstance(args[0], (int, float)) and not isinstance(args[0], bool):
            sel = [['E', 'Person', r['id']] for r in rows if r['age'] > args[0]]
        elif fn == 'ids_age_ge' and isinstance(args[0], (int, float)) and not isinstance(args[0], bool):
            sel = [r['id'] for r in rows if r['age'] >= args[0]]
        elif fn == 'id_in' and args[0][0] in ('tuple', 'list', 'set') and all(isinstance(x, int) for x in args[0][1]):
            sel = [['E', 'Person', r['id']] for r in rows if r['id'] in args[0][1]]
        elif fn == 'name_slice' and all(a is None or (isinstance(a, int) and a >= 0) for a in args):
            sel = sorted(set(r['name'][args[0]:args[1]] for r in rows))     # scalar queries are DISTINCT unless ordered
            if post[0] != 'all': return None
        elif fn == 'getattr_' and args[0] in ('name', 'age', 'id') :
            sel = sorted(set(r[args[0]] for r in rows))
            if post[0] != 'all': return None
        elif fn == 'score_eq' and step['db'] == 1 and (args[0] is None or isinstance(args[0], float)):
            sel = [['E', 'Person', r['id']] for r in rows if r['score'] == args[0]]
        elif fn == 'all_people':
            sel = [['E', 'Person', r['id']] for r in rows]
        else: return None
    except Exception: return None
    ordered = sorted(sel, key=lambda v: (v[2] if isinstance(v, list) else v))
    kind = post[0]
    if kind == 'aggr':
        # only for the plain one-column int queries, whose un-deduplicated values are known
        if post[1] is not None or fn not in ('getattr_', 'ids_age_ge') or (fn == 'getattr_' and args[0] not in ('age', 'id')): return None
        allv = [r[args[0]] for r in rows] if fn == 'getattr_' else [r['id'] for r in rows if r['age'] >= args[0]]
        name, kw = post[2], post[3]
        d = kw.get('distinct')
        if name == 'count': vals = allv if d is False else sorted(set(allv)); return ('ok', len(vals))
        if name == 'sum': vals = sorted(set(allv)) if d else allv; return ('ok', sum(vals))
        if name == 'avg': vals = sorted(set(allv)) if d else allv; return ('ok', round(sum(vals) / len(vals), 9) if vals else None)
        if name == 'min': return ('ok', min(allv) if allv else None)
        if name == 'max': return ('ok', max(allv) if allv else None)
        return None
    if kind == 'all': return ('ok', unordered(sel))
    if kind in ('ordered', 'ordered_attr'):
        if kind == 'ordered_attr' and not (sel and isinstance(sel[0], list) or not sel): return None
        return ('ok', ordered)
    if kind == 'slice': return ('ok', ordered[post[1]:post[2]])
    if kind == 'count': return ('ok', len(sel))
    if kind == 'len': return ('ok', len(sel))
    if kind == 'exists': return ('ok', bool(sel))
    if kind == 'first': return ('ok', ordered[0] if ordered else None)
    return None


def mirror_apply(step, mirror):
    k = step['k']
    if k not in ('set', 'create', 'delete', 'bulk_delete', 'raw_dml'): return
    m = mirror[step['db']]
    if k == 'set' and step['pk'] in m:
        v = step['val']
        if isinstance(v, list) and v[0] == 'date': v = datetime.date(*v[1])
        m[step['pk']][step['attr']] = v
    elif k == 'create':
        kw = dict(step['kw'])
        row = dict(id=kw['id'], name=kw['name'], nick=kw.get('nick', '' if step['db'] == 1 else None), age=kw['age'], group=None)
        if step['db'] == 1: row.update(score=kw.get('score'), born=None)
        m[kw['id']] = row
    elif k == 'delete': m.pop(step['pk'], None)
    elif k == 'bulk_delete':
        for pk in [pk for pk, r in m.items() if r['age'] > step['x']]: del m[pk]
    elif k == 'raw_dml':
        a, pk = step['locals']['a'], step['locals']['k']
        if pk in m: m[pk]['age'] = a

# ---------------------------------------------------------------------------------------------------------------
# history generation
# ---------------------------------------------------------------------------------------------------------------
INTS = (0, 1, 2, 3, 5, 17, 18, 25, 29, 30, 31, 33, 40, 45, 60, 100)
NAMES = ('Ann', 'Bob', 'Cid', 'Dan', 'Eve', 'Bobby', 'Anna', 'Cy', 'Zed', 'Xi', 'nobody', '')

def g_value(rng, kinds):
    kind = rng.choice(kinds)
    if kind == 'int': return rng.choice(INTS)
    if kind == 'float': return rng.choice((0.0, 1.5, 2.5, 30.5, 31.0, 9.0))
    if kind == 'str': return rng.choice(NAMES)
    if kind == 'none': return None
    if kind == 'bool': return rng.choice((True, False))
    if kind == 'date': return ['date', list(rng.choice(((1990, 5, 21), (2000, 1, 1), (1970, 1, 1), (1988, 7, 7))))]
    if kind == 'datetime': return ['datetime', [1995, 1, 1, 12, 0, 0]]
    if kind == 'ent_group': return ['ent', None, 'Group', rng.choice((1, 2, 3))]      # db filled in later
    if kind == 'ent_person': return ['ent', None, 'Person', rng.choice((1, 2, 3))]
    if kind == 'ints': return [rng.choice(('tuple', 'list', 'set')), sorted(set(rng.sample(range(1, 14), rng.randrange(0, 5))))]
    if kind == 'strs': return [rng.choice(('tuple', 'list')), rng.sample(NAMES, rng.randrange(0, 4))]
    if kind == 'mixed': return ['tuple', [1, 'Bob']]
    raise ValueError(kind)

def fix_db(v, db):
    if isinstance(v, list) and v and v[0] == 'ent': return ['ent', db, v[2], v[3]]
    return v

POSTS = (['all'], ['all'], ['ordered'], ['ordered'], ['count'], ['exists'], ['first'], ['len'], ['iter'], ['get_sql'],
         ['without_distinct'])

def g_aggr(rng, numeric=True):
    """An aggregate call with explicit keyword arguments (absent / None / False / True are different spellings)."""
    name = rng.choice(('count', 'count', 'count', 'sum', 'avg', 'min', 'max', 'group_concat') if numeric else ('count', 'count', 'min', 'max', 'group_concat'))
    kw = {}
    if name in ('count', 'sum', 'avg', 'group_concat'):
        d = rng.choice(('absent', None, False, True))
        if d != 'absent': kw['distinct'] = d
    if name == 'group_concat':
        sp = rng.choice(('absent', ',', ';', '', None, '-'))
        if sp != 'absent': kw['sep'] = sp
    return ['aggr', rng.choice((None, None, None, 'distinct', 'without_distinct')), name, kw]

def g_method_kw(rng):
    r = rng.random()
    if r < 0.4: return ['fetch_kw', rng.choice(({}, {'limit': 2}, {'limit': 2, 'offset': 1}, {'limit': None, 'offset': 2}, {'offset': 1}, {'limit': 3, 'offset': 0}, {'limit': 3, 'offset': None}))]
    if r < 0.7: return ['limit_kw', rng.choice(({'limit': 2}, {'limit': 2, 'offset': 1}, {'limit': None, 'offset': 1}, {'limit': 3, 'offset': None}, {}))]
    return ['page_kw', rng.choice((1, 2)), rng.choice(({}, {'pagesize': 2}, {'pagesize': 3}, {'pagesize': 10}))]

def g_post(rng, scalar_int=False, entity=True):
    r = rng.random()
    if r < 0.10: return g_aggr(rng, numeric=scalar_int or not entity)
    if r < 0.14: return g_method_kw(rng)
    if r < 0.55: return list(rng.choice(POSTS))
    if r < 0.75:
        a = rng.choice((0, 0, 1, 2, 3)); return ['slice', a, a + rng.choice((0, 1, 2, 3, 5))]
    if r < 0.80: return ['page', rng.choice((1, 2, 3)), rng.choice((2, 3, 5))]
    if r < 0.85: return ['limit', rng.choice((1, 2, 4)), rng.choice((0, 1, 3))]
    if r < 0.88: return ['slice_unordered', 0, rng.choice((1, 3))]
    if scalar_int: return list(rng.choice((['sum'], ['max'], ['avg'], ['count_distinct'], ['group_concat', rng.choice((',', ';', None))])))
    if entity: return ['ordered_attr']
    return ['count']

# (function, argument kind choices per parameter, scalar_int result, entity result)
QF = [
    ('age_gt', [('int', 'int', 'int', 'float', 'str', 'none', 'bool')], False, True),
    ('age_gt_s', [('int', 'float')], False, True),
    ('ids_age_ge', [('int', 'int', 'float', 'str')], True, False),
    ('name_slice', [('int', 'int', 'none'), ('int', 'int', 'none')], False, False),
    ('name_from', [('int', 'int', 'none', 'str')], False, False),
    ('name_index', [('int',)], False, False),
    ('getattr_', [('attrname',)], False, False),
    ('getattr_pair', [('attrname',), ('attrname',)], False, False),
    ('id_in', [('ints', 'ints', 'strs', 'mixed')], False, True),
    ('name_in', [('strs', 'strs', 'ints')], True, False),
    ('score_eq', [('float', 'none', 'int', 'str')], False, True),
    ('nick_eq', [('str', 'none', 'int')], True, False),
    ('group_is', [('ent_group', 'none', 'ent_person', 'int')], False, True),
    ('born_lt', [('date', 'date', 'datetime', 'none', 'str')], True, False),
    ('two_params', [('int', 'float'), ('str', 'str', 'none')], False, False),
    ('in_subq', [('int', 'str', 'float')], False, True),
    ('over_query', [('int',), ('int', 'float')], False, True),
    ('func_global', [], False, True),
    ('hyb_method', [], False, True),
    ('hyb_method_ids', [], True, False),
    ('hyb_prop', [], False, True),
    ('hyb_prop_param', [('int', 'float')], False, True),
    ('concat', [('str', 'str', 'int', 'none')], False, False),
    ('cnt_by_group', [('int',)], False, False),
    ('raw_frag', [('int', 'float', 'str')], False, True),
    ('raw_frag_dyn', [('frag',), ('int', 'int', 'float'), ('int',)], True, False),
    ('level_gt', [('int', 'str')], True, False),
    ('all_people', [], False, True),
    ('all_people_s', [], False, True),
]
ATTRNAMES = ('name', 'age', 'id', 'nick', 'score', 'group', 'nosuch', 'born')

def g_args(rng, spec, db, small_slices=False):
    out = []
    for kinds in spec:
        if kinds == ('attrname',): out.append(rng.choice(ATTRNAMES))
        elif kinds == ('frag',): out.append(rng.choice(('p.age > $x', 'p.age < $x', 'p.age between $x and $y', 'p.id = $y', 'p.age > $x and p.id <> $$y')))
        else:
            v = g_value(rng, kinds)
            if small_slices and isinstance(v, int) and not isinstance(v, bool): v = rng.choice((0, 1, 2, 3, 5, -1))
            out.append(fix_db(v, db))
    return out

def g_chain(rng, db=None, fn=None, post=True):
    if db is None: db = 1 if rng.random() < 0.8 else 2
    spec = next(s for s in QF if s[0] == fn) if fn else rng.choice(QF)
    args = g_args(rng, spec[1], db, small_slices=spec[0] in ('name_slice', 'name_from', 'name_index'))
    step = {'k': 'chain', 'db': db, 'fn': spec[0], 'args': args, 'ops': [], 'post': g_post(rng, spec[2], spec[3]) if post else None}
    return step, spec

STR_OPS = [  # text, locals maker
    ('p.age > x', lambda rng: {'x': rng.choice(INTS), 'p': ['ns', {'age': rng.choice((10, 30, 50))}]}),
    ('p.age > x', lambda rng: {'x': rng.choice((1.5, 30.5)), 'p': ['ns', {'age': 40}]}),
    ('s.age < x and s.id != k', lambda rng: {'x': rng.choice(INTS), 'k': rng.choice((1, 2, 3)), 's': ['ns', {'age': 20, 'id': 2}]}),
    ('p.name.startswith(t)', lambda rng: {'t': rng.choice(NAMES), 'p': ['ns', {'name': 'Bobcat'}]}),
    ('p.name[a:b] == t', lambda rng: {'a': rng.choice((0, 1)), 'b': rng.choice((1, 2, 3)), 't': rng.choice(('A', 'B', 'Bo', 'nn')), 'p': ['ns', {'name': 'Bo'}]}),
    ('lambda q: q.age > x', lambda rng: {'x': rng.choice(INTS)}),
    ('lambda q: q.id in ids', lambda rng: {'ids': g_value(rng, ('ints',))}),
]

def g_ops(rng, entity_result, base_fn):
    ops = []
    if not entity_result: return ops
    for _ in range(rng.choice((0, 1, 1, 2, 3))):
        r = rng.random()
        if r < 0.16: ops.append(['filter_lambda', 'startswith', [rng.choice(NAMES)]])
        elif r < 0.26: ops.append(['filter_lambda', 'id_ne', [rng.choice((1, 2, 3, 'x', None))]])
        elif r < 0.36: ops.append(['filter_lambda', 'slice_eq', [rng.choice((0, 1)), rng.choice((1, 2, 3)), rng.choice(('A', 'B', 'Bo', 'nn'))]])
        elif r < 0.44: ops.append([rng.choice(('filter_lambda', 'where_lambda')), 'age_lt' if base_fn not in BASE_VARS else 's_age_lt', [g_value(rng, ('int', 'int', 'float', 'str'))]])
        elif r < 0.50: ops.append(['filter_lambda', 'in', [g_value(rng, ('ints', 'ints', 'strs'))]])
        elif r < 0.72:
            text, mk = rng.choice(STR_OPS)
            kind = 'filter_str' if text.startswith('lambda') else rng.choice(('where_str', 'where_str', 'filter_str'))
            ops.append([kind, text, mk(rng)])
        elif r < 0.80: ops.append([rng.choice(('kw', 'where_kw')), rng.choice(({'age': rng.choice(INTS)}, {'name': rng.choice(NAMES)}, {'nick': rng.choice(('', 'a', None))}, {'score': rng.choice((None, 2.5))}, {'age': 31, 'name': 'Bob'}))])
        elif r < 0.86: ops.append(['order_lambda', rng.choice(('order_desc_age', 'order_attr')), []])
        elif r < 0.92: ops.append([rng.choice(('order_attr', 'order_desc')), rng.choice(('age', 'name', 'id'))])
        elif r < 0.95: ops.append(['order_num', [1]])
        elif r < 0.98: ops.append(['order_none'])
        else: ops.append(['distinct'])
    for op in ops:
        if op[0] == 'order_lambda' and op[1] == 'order_attr': op[2] = [rng.choice(('age', 'name', 'nick'))]
    return ops

ADAPT_TEXTS = ["select 'a%b', $x", "select 'a%%b', $x", "select 'a%%%%b', $x", "x like 'p%' and y = $y", "x like 'p%%' and y = $y",
               "no params 100%", "no params 100%%", "$x;%s$y", "$x;%%s$y", "$$ $x % $y", "$$ $x %% $y", "a=$x and b=$(y)", "$$only"]
STYLES = ('qmark', 'format', 'numeric', 'named', 'pyformat')
STRQ_TEXTS = [
    ('p for p in Person if p.age > x', lambda rng: {'x': g_value(rng, ('int', 'int', 'float', 'str'))}),
    ('p.id for p in Person if p.nick == v', lambda rng: {'v': g_value(rng, ('str', 'int', 'none'))}),
    ('(p.id, p.name) for p in Person if p.name[a:b] == t', lambda rng: {'a': rng.choice((0, 1)), 'b': rng.choice((1, 2)), 't': rng.choice(('A', 'n', 'Z', 'An'))}),
    ('g.id for g in Group if g.level > x', lambda rng: {'x': g_value(rng, ('int', 'str'))}),
    ('getattr(p, n) for p in Person', lambda rng: {'n': rng.choice(('name', 'age', 'nick', 'score'))}),
    ('p for p in Person if p.group in (g for g in Group if g.level > x)', lambda rng: {'x': g_value(rng, ('int', 'str'))}),
]
RAW_TEXTS = [
    ('select', 'id from Person where age > $x', lambda rng: {'x': g_value(rng, ('int', 'float', 'str'))}),
    ('select', 'select id, age from Person where age between $x and $(x + d)', lambda rng: {'x': rng.choice(INTS), 'd': rng.choice((1, 10, 50))}),
    ('exists', 'select 1 from Person where age = $x', lambda rng: {'x': rng.choice(INTS)}),
    ('select_by_sql', 'select * from Person where age >= $x and id <> $k', lambda rng: {'x': rng.choice(INTS), 'k': rng.choice((1, 2, 3))}),
    ('get_by_sql', 'select * from Person where id = $k', lambda rng: {'k': rng.choice((1, 2, 3, 99))}),
    ('select', "id from Person where age % 10 = $x % 10", lambda rng: {'x': rng.choice(INTS)}),
]


DYN_OPS = ('>', '<', '>=', '<=', '==', '!=')

def g_dyn(rng, db=None):
    """Source of a generator expression / lambda drawn from small families whose members compile to byte code of the
    same size (only an operator, an attribute name of equal length or a constant differs)."""
    if db is None: db = 1 if rng.random() < 0.85 else 2
    fam = rng.randrange(7)
    op, n = rng.choice(DYN_OPS), rng.choice((17, 20, 25, 30, 31, 40, 50))
    if fam == 0: src, form = '(p.%s for p in Person if p.age %s %d)' % (rng.choice(('name', 'nick')), op, n), 'gen'
    elif fam == 1: src, form = '(p for p in Person if p.age %s %d)' % (op, n), 'gen'
    elif fam == 2: src, form = '(p.id for p in Person if p.name %s %r)' % (rng.choice(('==', '!=', '>=', '<=')), rng.choice(('Ann', 'Bob', 'Cid', 'Eve'))), 'gen'
    elif fam == 3: src, form = 'lambda p: p.age %s %d' % (op, n), rng.choice(('lambda', 'filter'))
    elif fam == 4: src, form = '(p.id for p in Person if p.age %s x)' % op, 'gen'
    elif fam == 5: src, form = '((p.id, p.%s) for p in Person if p.id %s %d)' % (rng.choice(('name', 'nick')), op, rng.choice((3, 5, 8))), 'gen'
    else: src, form = 'lambda p: p.%s' % rng.choice(('age', 'id')), 'order'
    st = {'k': 'dyn', 'db': db, 'src': src, 'form': form, 'locals': {'x': rng.choice((17, 25, 31))} if fam == 4 else {},
          'post': list(rng.choice((['all'], ['all'], ['count'], ['iter']))) if form != 'order' else ['slice_ids', 0, 4]}
    return st

def g_themed(rng):
    """Short histories aimed at one cache-key hazard each (mixed into the random ones)."""
    theme = rng.choice(('qr', 'rawdml', 'result', 'result', 'types', 'types', 'limits', 'two_db', 'extr', 'adapt', 'global', 'shared', 'kwnone', 'rawfrag', 'aggr', 'aggr', 'dyn', 'dyn', 'hybrid', 'hybrid'))
    J = lambda x: json.loads(json.dumps(x))
    steps = []
    if theme == 'qr':
        base, spec = g_chain(rng, db=1, fn=rng.choice(('age_gt', 'all_people', 'id_in', 'age_gt_s')))
        if base['fn'] in ('age_gt', 'age_gt_s'): base['args'] = [rng.choice((17, 25, 30, 31))]
        if base['fn'] == 'id_in': base['args'] = [['tuple', sorted(rng.sample(range(1, 13), 5))]]
        base['post'] = ['ordered']; base['slot_to'] = 0
        again = J(base); again.pop('slot_to')
        steps = [base, {'k': 'qr_make', 'slot': 0, 'res': 0, 'lazy': False, 'limit': 3, 'offset': 0},
                 {'k': 'qr_mutate', 'res': 0, 'op': rng.choice(('reverse', 'sort_desc'))},
                 {'k': 'chain', 'db': 1, 'slot_from': 0, 'fn': base['fn'], 'args': None, 'ops': [], 'post': ['ordered']},
                 again, {'k': 'qr_read', 'res': 0},
                 {'k': 'qr_query', 'res': 0, 'db': 1, 'y': rng.choice(INTS), 'form': rng.choice(('iter', 'in'))},
                 {'k': 'qr_make', 'slot': 0, 'res': 1, 'lazy': True, 'limit': rng.choice((2, 5)), 'offset': rng.choice((0, 1))},
                 {'k': 'qr_query', 'res': 1, 'db': 1, 'y': rng.choice(INTS), 'form': rng.choice(('iter', 'in'))},
                 {'k': 'qr_read', 'res': 1}]
        if rng.random() < 0.5: steps.insert(3, {'k': 'flush'})
    elif theme == 'rawdml':
        x = rng.choice((25, 30, 31, 40))
        q = {'k': 'chain', 'db': 1, 'fn': rng.choice(('age_gt', 'ids_age_ge')), 'args': [x], 'ops': [], 'post': list(rng.choice((['ordered'], ['all'], ['count'])))}
        dml = {'k': 'raw_dml', 'db': 1, 'sql': 'update Person set age = $a where id = $k', 'locals': {'a': rng.choice((1, 99)), 'k': rng.choice((9, 10, 11))}}
        steps = [q, dml, J(q), {'k': 'flush'}, J(q), {'k': 'strq', 'db': 1, 'text': 'p for p in Person if p.age > x', 'locals': {'x': x}, 'post': ['ordered']}]
    elif theme == 'result':
        db = 1 if rng.random() < 0.8 else 2
        x = rng.choice((25, 30, 31, 40))
        fn = rng.choice(('age_gt', 'ids_age_ge', 'two_params', 'age_gt_s', 'cnt_by_group', 'func_global'))
        args = {'two_params': [x, rng.choice(('A', 'B', ''))], 'func_global': []}.get(fn, [x])
        spec = next(z for z in QF if z[0] == fn)
        q = {'k': 'chain', 'db': db, 'fn': fn, 'args': args, 'ops': [], 'post': g_post(rng, spec[2], spec[3])}
        mods = [{'k': 'set', 'db': db, 'pk': rng.choice((1, 2, 3, 4)), 'attr': 'age', 'val': rng.choice((1, 99))},
                {'k': 'create', 'db': db, 'kw': {'id': 77, 'name': 'Bea', 'age': rng.choice((1, 99))}},
                {'k': 'delete', 'db': db, 'pk': rng.choice((5, 6))},
                {'k': 'set', 'db': db, 'pk': rng.choice((1, 2, 3, 4)), 'attr': 'name', 'val': rng.choice(('Abe', 'Bea'))},
                {'k': 'bulk_delete', 'db': db, 'x': rng.choice((40, 60))}]
        rng.shuffle(mods)
        steps = [q]
        for m_ in mods[:rng.choice((1, 2, 3))]:
            steps.append(m_)
            if rng.random() < 0.5: steps.append(J(q))
            if rng.random() < 0.5: steps.append({'k': 'flush'})
            steps.append(J(q))
            if rng.random() < 0.3: steps += [{'k': 'commit'}, J(q)]
    elif theme == 'types':
        spec = rng.choice([z for z in QF if z[1]])
        db = 1 if rng.random() < 0.8 else 2
        post = g_post(rng, spec[2], spec[3])
        for _ in range(rng.randrange(4, 9)):
            steps.append({'k': 'chain', 'db': db, 'fn': spec[0], 'args': g_args(rng, spec[1], db, small_slices=spec[0] in ('name_slice', 'name_from', 'name_index')),
                          'ops': [], 'post': J(post)})
    elif theme == 'limits':
        base, spec = g_chain(rng, db=1)
        base['ops'] = g_ops(rng, spec[3], spec[0]) if rng.random() < 0.4 else []
        for _ in range(rng.randrange(4, 9)):
            st = J(base); a = rng.choice((0, 1, 2, 3))
            st['post'] = rng.choice((['slice', a, a + rng.choice((1, 2, 3))], ['page', rng.choice((1, 2, 3)), rng.choice((2, 3))],
                                     ['limit', rng.choice((1, 2, 3)), rng.choice((0, 1, 2))], ['first'], ['count'], ['ordered'], ['exists'], ['slice_unordered', 0, rng.choice((1, 2))]))
            steps.append(st)
    elif theme == 'two_db':
        if rng.random() < 0.5:
            text, mk = rng.choice(STRQ_TEXTS)
            post = list(rng.choice((['all'], ['ordered'], ['count'])))
            for _ in range(rng.randrange(4, 8)):
                steps.append({'k': 'strq', 'db': rng.choice((1, 2)), 'text': text, 'locals': mk(rng), 'post': J(post)})
        else:
            spec = rng.choice([z for z in QF if z[0] in ('age_gt', 'nick_eq', 'level_gt', 'group_is', 'getattr_', 'in_subq', 'name_slice', 'cnt_by_group')])
            post = g_post(rng, spec[2], spec[3])
            for _ in range(rng.randrange(4, 8)):
                db = rng.choice((1, 2))
                steps.append({'k': 'chain', 'db': db, 'fn': spec[0], 'args': g_args(rng, spec[1], db, small_slices=True), 'ops': [], 'post': J(post)})
            m, sql, mk = rng.choice(RAW_TEXTS)
            for _ in range(3): steps.append({'k': 'raw', 'db': rng.choice((1, 2)), 'method': m, 'sql': sql, 'locals': mk(rng)})
    elif theme == 'extr':
        text, mk = rng.choice(STR_OPS[:5])
        bases = [rng.choice(('age_gt', 'all_people', 'id_in')), rng.choice(('age_gt_s', 'all_people_s'))]
        rng.shuffle(bases)
        for fn in bases + [bases[0]]:
            st, spec = g_chain(rng, db=1, fn=fn)
            if fn in ('age_gt', 'age_gt_s'): st['args'] = [rng.choice((17, 25, 30))]
            if fn == 'id_in': st['args'] = [['tuple', sorted(rng.sample(range(1, 13), 6))]]
            st['ops'] = [[rng.choice(('where_str', 'filter_str')), text, mk(rng)]]
            st['post'] = ['ordered']
            steps.append(st)
    elif theme == 'adapt':
        fam = rng.choice((ADAPT_TEXTS[0:3], ADAPT_TEXTS[3:5], ADAPT_TEXTS[5:7], ADAPT_TEXTS[7:9], ADAPT_TEXTS[9:11]))
        for _ in range(rng.randrange(5, 11)):
            steps.append({'k': 'adapt', 'sql': rng.choice(fam), 'style': rng.choice(STYLES), 'ns': {'x': rng.choice((1, 'v')), 'y': 2}})
    elif theme == 'kwnone':
        base, spec = g_chain(rng, db=1, fn=rng.choice(('age_gt', 'all_people', 'id_in', 'age_gt_s')), post=False)
        if base['fn'] in ('age_gt', 'age_gt_s'): base['args'] = [rng.choice((1, 17, 25))]
        if base['fn'] == 'id_in': base['args'] = [['tuple', list(range(1, 10))]]
        attr = rng.choice(('score', 'score', 'group', 'nick'))
        vals = {'score': (None, 2.5, 1.5, None), 'group': (None, ['ent', 1, 'Group', 1], ['ent', 1, 'Group', 2]), 'nick': ('', 'a', None)}[attr]
        kind = rng.choice(('kw', 'where_kw'))
        for _ in range(rng.randrange(4, 8)):
            st = J(base); st['ops'] = [[kind, {attr: rng.choice(vals)}]]; st['post'] = ['ordered']
            steps.append(st)
            if rng.random() < 0.4:
                steps.append({'k': 'entity_api', 'db': 1, 'method': rng.choice(('get', 'exists', 'select_kw')), 'entity': 'Person', 'kw': {attr: rng.choice(vals)}, 'pk': 1})
    elif theme == 'rawfrag':
        post = list(rng.choice((['ordered'], ['all'], ['count'])))
        for _ in range(rng.randrange(4, 8)):
            steps.append({'k': 'chain', 'db': rng.choice((1, 1, 2)), 'fn': 'raw_frag_dyn',
                          'args': [rng.choice(('p.age > $x', 'p.age < $x', 'p.age between $x and $y', 'p.id = $y', 'p.age > $x and p.id <> $$y')), rng.choice(INTS), rng.choice((1, 2, 40, 60))],
                          'ops': [], 'post': J(post)})
    elif theme == 'aggr':
        # ONE query (same code object, same argument types) aggregated / fetched through differently spelled calls
        fn = rng.choice(('getattr_', 'getattr_', 'name_slice', 'ids_age_ge', 'name_in', 'concat', 'level_gt', 'nick_eq', 'born_lt',
                         'age_gt', 'all_people', 'two_params', 'name_index', 'cnt_by_group'))
        spec = next(z for z in QF if z[0] == fn)
        db = 1 if rng.random() < 0.8 else 2
        args = {'getattr_': [rng.choice(('age', 'age', 'name', 'nick', 'score', 'group'))], 'name_slice': [0, rng.choice((1, 2))],
                'ids_age_ge': [rng.choice((1, 25))], 'name_in': [['list', ['Ann', 'Bob', 'Cid', 'Eve']]], 'concat': ['!'],
                'level_gt': [0], 'nick_eq': [rng.choice(('', None))], 'born_lt': [['date', [2000, 1, 1]]], 'age_gt': [rng.choice((1, 30))],
                'all_people': [], 'two_params': [1, ''], 'name_index': [0], 'cnt_by_group': [1]}[fn]
        base = {'k': 'chain', 'db': db, 'fn': fn, 'args': args, 'ops': [], 'post': None}
        numeric = fn in ('getattr_', 'ids_age_ge', 'name_in', 'level_gt', 'nick_eq', 'born_lt')
        for _ in range(rng.randrange(5, 11)):
            st = J(base)
            st['post'] = g_aggr(rng, numeric) if rng.random() < 0.8 else g_method_kw(rng)
            steps.append(st)
            if rng.random() < 0.15:
                steps.append({'k': 'set', 'db': db, 'pk': rng.choice((1, 2, 3)), 'attr': 'age', 'val': rng.choice((31, 40, 99))})
    elif theme == 'dyn':
        for _ in range(rng.randrange(8, 16)): steps.append(g_dyn(rng, db=1 if rng.random() < 0.9 else 2))
    elif theme == 'hybrid':
        db = rng.choice((1, 1, 2))
        fn = rng.choice(('hyb_method', 'hyb_method', 'hyb_method_ids', 'hyb_prop', 'hyb_prop_param'))
        spec = next(z for z in QF if z[0] == fn)
        q = {'k': 'chain', 'db': db, 'fn': fn, 'args': [40] if fn == 'hyb_prop_param' else [], 'ops': [],
             'post': list(rng.choice((['ordered'], ['count'], ['all'], ['exists']))) if spec[3] else list(rng.choice((['all'], ['count'], ['aggr', None, 'count', {'distinct': False}])))}
        steps = [q]
        vals = [None, 2.5, 1.5, None, 7.25] if db == 1 else [None, 5, 7, None, 1]
        for _ in range(rng.randrange(3, 7)):
            if rng.random() < 0.8: steps.append({'k': 'set_global', 'name': 'C05_EQ', 'val': rng.choice(vals)})
            else: steps.append({'k': 'set_global', 'name': 'C05_THRESH', 'val': rng.choice((18, 30, 40.5))})
            steps.append(J(q))
            if rng.random() < 0.3:
                q2 = J(q); q2['post'] = ['count']; steps.append(q2)
    elif theme == 'global':
        q = {'k': 'chain', 'db': rng.choice((1, 1, 2)), 'fn': 'func_global', 'args': [], 'ops': [], 'post': list(rng.choice((['ordered'], ['count'], ['all'])))}
        steps = [q]
        for v in rng.sample((18, 30, 40, 30.5, 99, 'x', None), 3):
            steps += [{'k': 'set_global', 'val': v}, J(q)]
    else:  # shared base query, several derived queries executed interleaved
        base, spec = g_chain(rng, db=1, fn=rng.choice(('age_gt', 'all_people', 'id_in', 'age_gt_s', 'group_is', 'in_subq')), post=False)
        base['slot_to'] = 0
        steps = [base]
        for i in range(rng.randrange(3, 7)):
            st = {'k': 'chain', 'db': 1, 'slot_from': rng.choice((0, 0, len(steps) > 2 and 1 or 0)), 'fn': base['fn'], 'args': None,
                  'ops': g_ops(rng, True, base['fn']) or [['filter_lambda', 'startswith', [rng.choice(NAMES)]]],
                  'post': g_post(rng, False, True)}
            if i == 0: st['slot_to'] = 1
            steps.append(st)
    return [steps]

def g_history(rng):
    """-> list of sessions, each a list of step specs."""
    if rng.random() < 0.45:
        sessions = g_themed(rng)
        if rng.random() < 0.3: sessions = sessions + g_themed(rng)
        return sessions
    n_sessions = rng.choice((1, 1, 2, 3))
    sessions = []
    recent = []          # recently used read-only steps: re-executed later (same code object, same/different args)
    for si in range(n_sessions):
        steps = []
        n = rng.randrange(6, 16)
        slots, results = [], []
        fresh_pk = 50
        while len(steps) < n:
            r = rng.random()
            if r < 0.30:
                step, spec = g_chain(rng)
                if rng.random() < 0.5: step['ops'] = g_ops(rng, spec[3], spec[0])
                if rng.random() < 0.25:
                    step['slot_to'] = len(slots); slots.append((step['db'], spec))
                steps.append(step); recent.append(step)
            elif r < 0.42 and recent:
                # same code object again: identical step, or same function with new args, or same args other post
                old = rng.choice(recent[-8:])
                if old['k'] == 'chain' and old.get('slot_from') is None:
                    new = json.loads(json.dumps(old)); new.pop('slot_to', None)
                    spec = next(s for s in QF if s[0] == old['fn'])
                    c = rng.random()
                    if c < 0.4: pass
                    elif c < 0.8: new['args'] = g_args(rng, spec[1], new['db'], small_slices=spec[0] in ('name_slice', 'name_from', 'name_index'))
                    else: new['post'] = g_post(rng, spec[2], spec[3])
                    steps.append(new)
                else: steps.append(json.loads(json.dumps(old)))
            elif r < 0.50 and slots:
                si_ = rng.randrange(len(slots)); db, spec = slots[si_]
                step = {'k': 'chain', 'db': db, 'slot_from': si_, 'fn': spec[0], 'args': None, 'ops': g_ops(rng, spec[3], spec[0]),
                        'post': g_post(rng, spec[2], spec[3])}
                if rng.random() < 0.3:
                    step['slot_to'] = len(slots); slots.append((db, spec))
                steps.append(step)
            elif r < 0.55 and slots:
                si_ = rng.randrange(len(slots))
                if slots[si_][1][3]:
                    lazy = rng.random() < 0.4
                    steps.append({'k': 'qr_make', 'slot': si_, 'res': len(results), 'lazy': lazy, 'limit': rng.choice((2, 3, 20)), 'offset': rng.choice((0, 1))})
                    results.append((slots[si_][0], lazy))
            elif r < 0.61 and results:
                ri = rng.randrange(len(results))
                c = rng.random()
                if c < 0.3 and not results[ri][1]: steps.append({'k': 'qr_mutate', 'res': ri, 'op': rng.choice(('reverse', 'sort_desc'))})
                elif c < 0.6: steps.append({'k': 'qr_read', 'res': ri})
                else: steps.append({'k': 'qr_query', 'res': ri, 'db': results[ri][0], 'y': rng.choice(INTS), 'form': rng.choice(('iter', 'in'))})
            elif r < 0.63:
                st = g_dyn(rng); steps.append(st); recent.append(st)
            elif r < 0.67:
                text, mk = rng.choice(STRQ_TEXTS)
                db = rng.choice((1, 2))
                st = {'k': 'strq', 'db': db, 'text': text, 'locals': mk(rng), 'post': list(rng.choice((['all'], ['ordered'], ['count'], ['slice', 0, 2])))}
                steps.append(st); recent.append(st)
            elif r < 0.73:
                db = rng.choice((1, 1, 2))
                m = rng.choice(('get', 'get', 'exists', 'select_kw', 'getitem', 'attr', 'seed_attr', 'obj_load', 'collection', 'collection_count'))
                st = {'k': 'entity_api', 'db': db, 'method': m, 'entity': 'Person', 'kw': {}, 'pk': rng.choice((1, 2, 3, 99))}
                if m in ('get', 'exists', 'select_kw'):
                    st['kw'] = rng.choice(({'name': rng.choice(NAMES)}, {'age': rng.choice(INTS)}, {'nick': rng.choice(('', 'a', None, 5))},
                                           {'id': rng.choice((1, 2, 99))}, {'age': 31, 'name': rng.choice(('Bob', 'Anna', 'Zed'))},
                                           {'group': fix_db(g_value(rng, ('ent_group', 'none')), db)}, {'score': rng.choice((None, 2.5, 1.5))}))
                if m == 'attr': st['attr'] = rng.choice(('name', 'age', 'group', 'nick'))
                if m == 'obj_load': st['attrs'] = list(rng.choice(((), ('name',), ('name', 'age'), ('group',))))
                if m in ('collection', 'collection_count'): st['entity'] = 'Group'; st['pk'] = rng.choice((1, 2, 3))
                steps.append(st); recent.append(st)
            elif r < 0.79:
                m, sql, mk = rng.choice(RAW_TEXTS)
                st = {'k': 'raw', 'db': rng.choice((1, 1, 2)), 'method': m, 'sql': sql, 'locals': mk(rng)}
                steps.append(st); recent.append(st)
            elif r < 0.84:
                st = {'k': 'adapt', 'sql': rng.choice(ADAPT_TEXTS), 'style': rng.choice(STYLES), 'ns': {'x': rng.choice((1, 'v')), 'y': 2}}
                steps.append(st); recent.append(st)
            elif r < 0.93:
                db = 1 if rng.random() < 0.85 else 2
                c = rng.random()
                if c < 0.45:
                    attr = rng.choice(('age', 'age', 'age', 'name', 'score') if db == 1 else ('age', 'name'))
                    val = {'age': rng.choice(INTS), 'name': rng.choice(NAMES[:-1]), 'score': rng.choice((None, 2.5, 7.0))}[attr]
                    steps.append({'k': 'set', 'db': db, 'pk': rng.choice((1, 2, 3, 4, 5, 6)), 'attr': attr, 'val': val})
                elif c < 0.65:
                    fresh_pk += 1
                    steps.append({'k': 'create', 'db': db, 'kw': {'id': fresh_pk, 'name': rng.choice(NAMES[:-1]), 'age': rng.choice(INTS)}})
                elif c < 0.78: steps.append({'k': 'delete', 'db': db, 'pk': rng.choice((7, 8))})
                elif c < 0.84: steps.append({'k': 'bulk_delete', 'db': db, 'x': rng.choice((60, 80))})
                elif c < 0.92: steps.append({'k': 'raw_dml', 'db': db, 'sql': 'update Person set age = $a where id = $k', 'locals': {'a': rng.choice(INTS), 'k': rng.choice((9, 10, 11))}})
                elif rng.random() < 0.5: steps.append({'k': 'set_global', 'val': rng.choice((18, 30, 40, 30.5))})
                else: steps.append({'k': 'set_global', 'name': 'C05_EQ', 'val': rng.choice((None, 2.5, 5, 1.5, None))})
                if rng.random() < 0.5 and recent:
                    steps.append(json.loads(json.dumps(rng.choice(recent[-5:]))))      # re-run a recent query right after the change
            elif r < 0.97: steps.append({'k': 'flush'})
            else: steps.append({'k': 'commit'})
        for st in steps:
            if st.get('slot_to') is None: st.pop('slot_to', None)
        sessions.append(steps)
    return sessions

# ---------------------------------------------------------------------------------------------------------------
# running a history
# ---------------------------------------------------------------------------------------------------------------
def run_history(ctx, env, sessions, cold, globals_caches, on_step=None):
    """Execute; -> list (per session) of lists of canonical results."""
    orm = env.orm
    out = []
    globals().update(GLOBAL_DEFAULTS)
    committed = False
    for si, steps in enumerate(sessions):
        res = []
        env.reset_session_state()
        with orm.db_session:
            for db in env.db.values():
                c = db._get_cache()
                c.query_results = CountingDict(c.query_results)
            try:
                for ti, step in enumerate(steps):
                    if cold:
                        env.clear_db_caches()
                        for d in globals_caches.values(): d.clear()
                        env.clear_query_results()
                    r = canon(exec_step(env, step))
                    res.append(r)
                    if on_step is not None: on_step(si, ti, step, r)
            finally:
                committed = committed or env.committed
                for c in env.session_caches():
                    if isinstance(c.query_results, CountingDict): env.qr_hits += c.query_results.hits
                orm.rollback()
        out.append(res)
    if committed:
        for which in (1, 2): sqlite_restore(env.path[which], env.pristine[which])
    globals().update(GLOBAL_DEFAULTS)
    return out


def base_vars_of(step, env_slots):
    fn = step.get('fn')
    return BASE_VARS.get(fn, ('p',))


def run(ctx):
    from pony.orm import core
    quick = ctx.tier == 'quick'
    n_hist = 1200 if quick else 1800           # per shard
    tmp = ctx.tmp()
    warm = Env(ctx, 'warm', tmp)
    cold = Env(ctx, 'cold', tmp)
    funcs, lambdas = make_funcs()
    for e in (warm, cold): e.funcs, e.lambdas = funcs, lambdas
    gc = install_global_counters(warm.modules)
    hit_names = list(gc) + ['translator', 'constructed_sql', 'find_sql', 'load_sql', 'batchload_sql', 'insert_sql', 'update_sql', 'delete_sql']
    warm_adapted = {}          # style -> texts adapted in the warm process so far
    warm_strops = {}           # filter/where string -> set of base variable tuples it was applied over (warm process)
    first_use = {}             # ('strop', text, vars) / ('adapt', style, sql) -> the first step that did it (replay prelude)
    recent_hist = []           # the last three histories (context for replays)
    rng = ctx.rng

    def totals():
        t = dict((n, d.hits) for n, d in gc.items())
        for n, lst in warm.db_caches().items(): t[n] = sum(d.hits for d in lst)
        return t

    for hi in range(n_hist):
        sessions = g_history(rng)
        nsteps = sum(len(s) for s in sessions)
        # ---- COLD first (global caches are saved and put back, so the warm process keeps accumulating) -----------
        saved = dict((n, dict(d)) for n, d in gc.items())
        saved_hits = dict((n, (d.hits, d.misses)) for n, d in gc.items())
        cold_res = run_history(ctx, cold, sessions, True, gc)
        for n, d in gc.items():
            d.clear(); d.update(saved[n]); d.hits, d.misses = saved_hits[n]
        # ---- WARM with on-the-fly judgement ---------------------------------------------------------------------
        before = totals()
        qr_hits = [0]
        import copy
        state = {'mirror': mirror_initial(), 'committed': mirror_initial()}
        mism = []

        def track(step):
            # what the warm process has seen so far (feeds the finding predicates); independent of judgement
            k = step['k']
            if k == 'adapt':
                warm_adapted.setdefault(step['style'], []).append(step['sql'])
                first_use.setdefault(('adapt', step['style'], step['sql']), step)
            if k == 'chain':
                for op in step.get('ops') or ():
                    if op[0] in ('filter_str', 'where_str', 'order_str'):
                        warm_strops.setdefault(op[1], set()).add(base_vars_of(step, None))
                        if step.get('slot_from') is None:
                            first_use.setdefault(('strop', op[1], base_vars_of(step, None)), step)
            if k == 'qr_mutate' and step.get('res') in warm.results: warm.mutated_results.add(step['res'])

        def on_step(si, ti, step, r):
            if ti == 0:            # new session: uncommitted changes of the previous one were rolled back
                state['mirror'] = copy.deepcopy(state['committed']); state['ref_off'] = state.get('ref_off_committed', False)
            if ti == 0: state['tainted'] = set(); state['session_tainted'] = False
            want = cold_res[si][ti]
            ctx.count('steps'); ctx.count('steps.' + step['k'])
            if r[0] == 'exc': ctx.count('steps.raised')
            k = step['k']
            # A step that reads a query/result slot written by a step that already disagreed (or that runs after a
            # disagreeing modification) is a consequence, not a new observation: it is not judged.
            reads = [('q', step[f]) for f in ('slot_from', 'slot') if step.get(f) is not None] + \
                    [('r', step.get('res'))] * (k in ('qr_mutate', 'qr_read', 'qr_query'))
            writes = [('q', step.get('slot_to'))] * (step.get('slot_to') is not None) + [('r', step.get('res'))] * (k == 'qr_make')
            if state['session_tainted'] or state.get('history_tainted') or any(x in state['tainted'] for x in reads):
                ctx.count('outcome.not_judged_downstream_of_disagreement')
                state['tainted'].update(writes)
                track(step)
                warm.event_log.append((k, step.get('db')))
                state['ref_off'] = True                       # the mirror is not maintained for unjudged steps
                if k == 'commit': state['ref_off_committed'] = True
                return
            if r != want:
                state['tainted'].update(writes)
                if k == 'qr_mutate': state['tainted'].add(('r', step['res']))
                if k in ('set', 'create', 'delete', 'bulk_delete', 'raw_dml', 'flush', 'set_global'): state['session_tainted'] = True
                if k == 'commit': state['history_tainted'] = True
            else:
                for x in writes: state['tainted'].discard(x)
            # bookkeeping for the finding predicates
            sig = query_sig(step)
            if k == 'adapt':
                warm_adapted.setdefault(step['style'], [])
            if r != want:
                ctx.count('outcome.warm_ne_cold')
                mism.append(classify(si, ti, step, r, want, sig))
            else:
                ctx.count('outcome.warm_eq_cold')
                ref = ref_value(step, state['mirror'], warm) if not state.get('ref_off') else None
                if ref is not None and r[0] == 'exc':
                    # a valid query raised (in both modes): a pending change could not be flushed, e.g. a key that an
                    # earlier session of this history committed.  Loud, not judged; the mirror stops tracking.
                    ctx.count('outcome.python_reference_skipped_pony_raised'); state['ref_off'] = True
                elif ref is not None:
                    ctx.count('outcome.python_reference_checked')
                    if ref != r[:2] and not (r[0] == 'ok' and ref[0] == 'ok' and json.dumps(ref[1]) == json.dumps(r[1])):
                        ctx.count('outcome.python_reference_differs')
                        ctx.violation({'history': sessions, 'session': si, 'step': ti, 'spec': step, 'pony_warm_and_cold': r,
                                       'python_reference': ref}, mechanism='differs-from-python-reference')
            # after judging: update trackers
            track(step)
            if k == 'chain' and step.get('post') is not None and (r == want or sig not in warm.last_exec):
                warm.last_exec[sig] = (len(warm.event_log), r)
            if k == 'strq' and (r == want or sig not in warm.last_exec): warm.last_exec[sig] = (len(warm.event_log), r)
            warm.event_log.append((k, step.get('db')))
            if k in ('set', 'create', 'delete', 'bulk_delete', 'raw_dml'):
                if r[0] == 'ok': mirror_apply(step, state['mirror'])
                else: state['ref_off'] = True         # a failed modification: the mirror no longer tracks the session
            if k == 'commit':
                state['committed'] = copy.deepcopy(state['mirror']); state['ref_off_committed'] = state.get('ref_off', False)

        def classify(si, ti, step, got, want, sig):
            w = {'history': sessions, 'session': si, 'step': ti, 'spec': step, 'warm': got, 'cold': want,
                 'previous_histories': list(recent_hist), 'prelude': []}
            k = step['k']
            restored_by = []
            if k in SIDE_EFFECT_FREE:
                # clear ONE cache at a time in the warm environment and re-run the step; every experiment starts from
                # the same warm state (all caches are put back before the next one)
                # (string2ast and extractors go last: rebuilding them re-annotates AST nodes that older entries share)
                late = ('string2ast', 'extractors')
                singles = [(n, [d]) for n, d in gc.items() if n not in late] + list(warm.db_caches().items()) \
                          + [('query_results', [c.query_results for c in warm.session_caches()])] \
                          + [(n, [gc[n]]) for n in late]
                # result caches of sessions with a pending (unflushed) change: an experiment that gets as far as
                # executing SQL flushes, and flush discards cached results - those must not be put back afterwards
                qr_pending = [c.query_results for c in warm.session_caches() if c.modified]
                qr_all = [c.query_results for c in warm.session_caches()]
                if qr_pending and k != 'adapt': state['session_tainted'] = True   # the experiments may flush earlier than the cold run did
                snapshot = [(d, dict(d)) for _, dicts in singles for d in dicts]
                def put_back(final=False):
                    for d, content in snapshot:
                        d.clear()
                        # the session result cache is only put back between experiments and only if no change was pending
                        # (an experiment that gets as far as executing SQL flushes, and flush discards cached results)
                        if any(d is q for q in qr_pending) or (final and any(d is q for q in qr_all)): continue
                        d.update(content)
                w['rerun_unchanged_caches'] = canon(exec_step(warm, step))
                for name, dicts in singles:
                    put_back()
                    for d in dicts: d.clear()
                    again = canon(exec_step(warm, step))
                    if again == want: restored_by.append(name)
                put_back(final=True)
            w['restored_by_clearing_only'] = restored_by
            # ---- known mechanisms ---------------------------------------------------------------------------------
            if k == 'adapt' and step['style'] in ('format', 'pyformat') and 'adapted_sql' in restored_by:
                earlier = [e for e in warm_adapted.get(step['style'], []) if e != step['sql'] and e.replace('%', '%%') == step['sql']]
                if earlier:
                    w['earlier_text_equal_after_doubling'] = earlier[0]
                    w['prelude'] = [first_use[k_] for k_ in [('adapt', step['style'], earlier[0])] if k_ in first_use]
                    report_finding(ctx, F_ADAPT, w); return w
            if k == 'chain' and restored_by == ['extractors']:
                mine = base_vars_of(step, None)
                for op in step.get('ops') or ():
                    if op[0] in ('filter_str', 'where_str', 'order_str') and any(v != mine for v in warm_strops.get(op[1], ())):
                        w['string_applied_earlier_over_query_variables'] = sorted(warm_strops[op[1]])
                        w['prelude'] = [first_use[('strop', op[1], v)] for v in sorted(warm_strops[op[1]]) if v != mine and ('strop', op[1], v) in first_use][:1]
                        report_finding(ctx, F_EXTR, w); return w
            if k in ('chain', 'strq', 'qr_query', 'qr_make') and restored_by == ['query_results']:
                # (a) an earlier QueryResult of this session was reversed/sorted in place and the cached list IS that
                #     list: the warm answer equals the current content of a mutated QueryResult and is a permutation
                #     of the cold answer
                if got[0] == 'ok' and want[0] == 'ok' and isinstance(got[1], list) and isinstance(want[1], list) \
                        and unordered(got[1]) == unordered(want[1]) \
                        and any(norm(list(warm.results[ri][0])) == got[1] for ri in warm.mutated_results if ri in warm.results):
                    report_finding(ctx, F_QR, w); return w
            if k in SIDE_EFFECT_FREE and restored_by == ['query_results'] and w.get('rerun_unchanged_caches') == got:
                # (b) the session result cache (and nothing else) is stale, stably, and on this Database a raw DML
                #     statement (db.execute) ran in this session with no ORM-level modification or commit after it (those
                #     discard cached results; events of the other Database do not touch this session cache)
                mine = [e for e, d in warm.event_log if step.get('db') is None or d == step.get('db') or e == 'commit']
                if 'raw_dml' in mine:
                    after = mine[len(mine) - mine[::-1].index('raw_dml'):]
                    if not any(e in ('set', 'create', 'delete', 'bulk_delete', 'commit') for e in after):
                        w['events_after_last_raw_dml'] = after
                        report_finding(ctx, F_RAWDML, w); return w
            if k == 'qr_read' and got[0] == 'ok' and want[0] == 'ok' and step.get('res') in warm.results:
                # two QueryResult objects of the same query share ONE list (the cached one): sorting/reversing one of them
                # changed this one.  Identified by identity of the underlying lists and by the answer being a permutation.
                mine_items = getattr(warm.results[step['res']][0], '_items', None)
                if mine_items is not None and unordered(got[1][0]) == unordered(want[1][0]) and any(
                        ri != step['res'] and ri in warm.results and getattr(warm.results[ri][0], '_items', None) is mine_items
                        for ri in warm.mutated_results):
                    report_finding(ctx, F_QR, w); return w
            ctx.violation(w, mechanism='warm-differs-from-cold' + ('-stale-' + '+'.join(restored_by) if restored_by else ''))
            return w

        qr0 = warm.qr_hits
        run_history(ctx, warm, sessions, False, gc, on_step)
        after = totals()
        gained = 0
        for n in hit_names:
            d = after.get(n, 0) - before.get(n, 0)
            if d: ctx.count('hits.' + n, d); gained += d
        dq = warm.qr_hits - qr0
        if dq: ctx.count('hits.query_results', dq); gained += dq
        ctx.case(json.dumps(sessions, sort_keys=True), nontrivial=gained > 0,
                 sample={'history': sessions} if hi % 150 == 0 else None)
        ctx.count('histories')
        recent_hist.append(sessions); del recent_hist[:-3]
    # Entity.load() stores its SQL under pk_attrs + attrs but looks it up under attrs: that cache can never answer
    # (harmless: no stored key can equal a looked-up key).  Observed, not judged, and not part of the floors.
    ctx.count('load_sql_cache.lookups', sum(d.hits + d.misses for d in warm.db_caches()['load_sql']))
    for n in hit_names + ['query_results']:
        if n != 'load_sql': ctx.floor('hits.' + n, 30)
    ctx.floor('steps', 10000)
    ctx.floor('outcome.warm_eq_cold', 9000)
    ctx.floor('outcome.python_reference_checked', 400)
    for db in list(warm.db.values()) + list(cold.db.values()): db.disconnect()


def replay(ctx, witness):
    """Fresh process: the warm environment first runs the witness' prelude steps and the (up to three) histories that
    preceded it, then the witness history is run cold and warm and compared step by step."""
    sessions = witness['history']
    tmp = ctx.tmp()
    warm = Env(ctx, 'warm', tmp); cold = Env(ctx, 'cold', tmp)
    funcs, lambdas = make_funcs()
    for e in (warm, cold): e.funcs, e.lambdas = funcs, lambdas
    gc = install_global_counters(warm.modules)
    if witness.get('prelude'): run_history(ctx, warm, [list(witness['prelude'])], False, gc)
    for h in witness.get('previous_histories', ()): run_history(ctx, warm, h, False, gc)
    saved = dict((n, dict(d)) for n, d in gc.items())
    cold_res = run_history(ctx, cold, sessions, True, gc)
    for n, d in gc.items(): d.clear(); d.update(saved[n])
    def on_step(si, ti, step, r):
        ctx.case(('replay', si, ti))
        if r != cold_res[si][ti]:
            ctx.violation({'session': si, 'step': ti, 'spec': step, 'warm': r, 'cold': cold_res[si][ti]}, mechanism='warm-differs-from-cold')
    run_history(ctx, warm, sessions, False, gc, on_step)

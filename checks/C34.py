"""C34 — Permission checks follow the declared access rules.

Small model: entities Folder, Doc, SDoc(Doc) with relationships Doc.folder <-> Folder.docs and
SDoc.archive <-> Folder.archived; groups g1..g3 (+ the implicit 'anybody'); roles owner/editor (a function of
user and object); labels public/draft (stored with the object).  Rule sets (1..3 rules, declared through the real
`with db.set_perms_for(...): perm(...).exclude(...)` API) are enumerated over a 20-rule alphabet and sampled from the
full rule space.  For every rule set the REAL has_perm / can_* / to_json are asked every question
(users x {entities, attributes, objects} x permissions) and judged by

 * an exact reference for entity-level, object-level and relation-free attribute-level questions,
 * a bracket  (forward AND reverse) => answer => (forward OR reverse)  for attributes that have a reverse side,
 * determinism: the same question asked twice, and with `entity._access_rules_[perm]` (a set of rule objects hashed
   by address) replaced by lists in every permutation, must have one answer,
 * to_json: no object / schema entry in the output that the reference says the user cannot view.
"""
import itertools, json

META = {
    'level': 'exploration',
    'engine': '',
    'technique': 'runtime monitor with an exact reference decision procedure (bracket for reverse-side attributes), '
                 'rule-container permutation for determinism, and an output filter check on to_json',
    'level_text': 'All rule sets of size <= 2 (quick) / <= 3 (thorough) over a 20-rule alphabet plus seeded random rule '
                  'sets from the full space (targets x permission sets x groups x roles x labels x entity/attribute '
                  'exclusions); for each, ALL users (8 group subsets x 4 role profiles + anonymous) x all entities, '
                  'attributes and objects x the mentioned permissions are asked of the real has_perm in every '
                  'iteration order of the rule containers. For every rule set one mutable user object and one plain string user '
                  'change groups / role profile / extra getters inside a session (either answer admissible), between '
                  'sessions and while no session is open (exact), including get_user_groups and to_json. Exhaustive '
                  'inside the small model, sampled over rule sets: exploration.',
    'level_note': 'Trusted: the reference reading of the statement (entity/attribute questions have no object, so '
                  'only groups and exclusions apply there; roles and labels apply to object questions; an object of an '
                  'excluded entity is excluded; can_view = view or edit as pony defines it); the harness clears '
                  'entity._access_rules_ between rule sets (there is no public API to retract a rule) and substitutes '
                  'lists for the rule sets to control iteration order.',
    'rule': 'a case = one rule set (canonical JSON of its rule specs); distinct = distinct rule sets; non-trivial = at '
            'least one rule whose target entity is asked about; per case every question in the model is evaluated',
    'assumptions': [
        'groups, roles and labels are pure functions of (user), (user, object) and (object) during a session',
        'rules are declared before the first question of a session (perm caches are per session)',
        'a membership change made while a session is open may or may not be seen by that session; every later session must see it',
    ],
    'shims': [],
    'exhaustive_tiers': [],
}
SHARDS = {'quick': 1, 'thorough': 16}
SHARD_TIMEOUT = {'quick': 110, 'thorough': 900}

F_REV = 'C34-ATTR-REVERSE-CHECKED-WITH-FORWARD-RULES'
F_ORDER = 'C34-ATTR-NO-REVERSE-RULES-ORDER-DEPENDENT'
F_OBJ = 'C34-OBJECT-ENTITY-EXCLUSION-IGNORED'

def report_finding(ctx, fid, witness, cap=8):
    """ctx.finding, but while `fid` is not an open known finding (so every hit is a VIOLATION witness) only the first
    `cap` hits are submitted as witnesses - otherwise one mechanism fills all witness slots and hides the others."""
    e = ctx.known.get(fid)
    if (e is not None and e.get('status') == 'open' and e.get('property') == ctx.pid) \
            or ctx.counters.get('submitted.' + fid, 0) < cap:
        ctx.count('submitted.' + fid)
        ctx.finding(fid, witness)
    else:
        ctx.count('not_submitted_beyond_cap.' + fid)


GROUPS = ('g1', 'g2', 'g3')
ROLESETS = ((), ('owner',), ('editor',), ('owner', 'editor'))
LABELSETS = ((), ('public',), ('draft',), ('public', 'draft'))
PERMS = ('view', 'edit', 'create', 'delete')

# ---- the reference's own picture of the model (verified against pony's metadata at start-up) -------------------
SUBCLASSES = {'Folder': (), 'Doc': ('SDoc',), 'SDoc': ()}
ENTITIES = ('Folder', 'Doc', 'SDoc')
ATTRS = {   # name -> (declaring entity, is_pk, reverse attribute or None)
    'Folder.id': ('Folder', True, None), 'Folder.name': ('Folder', False, None), 'Folder.labels': ('Folder', False, None),
    'Folder.docs': ('Folder', False, 'Doc.folder'), 'Folder.archived': ('Folder', False, 'SDoc.archive'),
    'Doc.id': ('Doc', True, None), 'Doc.title': ('Doc', False, None), 'Doc.secret': ('Doc', False, None),
    'Doc.labels': ('Doc', False, None), 'Doc.folder': ('Doc', False, 'Folder.docs'), 'Doc.classtype': ('Doc', False, None),
    'SDoc.extra': ('SDoc', False, None), 'SDoc.archive': ('SDoc', False, 'Folder.archived'),
}
EXCLUDABLE = tuple(sorted(a for a, v in ATTRS.items() if not v[1]))
# objects: (class, pk) -> label set index; Doc and SDoc share the pk space
OBJECTS = [('Folder', 1, 0), ('Folder', 2, 1), ('Folder', 3, 2), ('Folder', 4, 3),
           ('Doc', 1, 0), ('Doc', 2, 1), ('Doc', 3, 2), ('Doc', 4, 3),
           ('SDoc', 5, 0), ('SDoc', 6, 1), ('SDoc', 7, 2), ('SDoc', 8, 3)]


def expand(ents):
    out = set()
    for e in ents:
        out.add(e); out.update(SUBCLASSES[e])
    return out


class RefRules(object):
    """Reference decision procedure over rule specs (plain dicts); knows nothing of pony's AccessRule objects."""
    def __init__(self, specs):
        self.rules = []
        for i, s in enumerate(specs):
            self.rules.append({'i': i, 'for': expand(s['for']), 'perms': set(s['perms']), 'groups': set(s['groups']),
                               'roles': set(s['roles']), 'labels': set(s['labels']), 'xe': expand(s['xe']), 'xa': set(s['xa'])})
    def rules_for(self, ent, perm, order=None):
        rs = [r for r in self.rules if ent in r['for'] and perm in r['perms']]
        if order is not None: rs.sort(key=lambda r: order.index(r['i']))
        return rs
    @staticmethod
    def groups_ok(r, ugroups): return r['groups'] <= ugroups
    def entity(self, ugroups, perm, ent):
        return any(self.groups_ok(r, ugroups) and ent not in r['xe'] for r in self.rules_for(ent, perm))
    def grants_fwd(self, r, ugroups, attr):
        return self.groups_ok(r, ugroups) and ATTRS[attr][0] not in r['xe'] and attr not in r['xa']
    def forward(self, ugroups, perm, attr):
        return any(self.grants_fwd(r, ugroups, attr) for r in self.rules_for(ATTRS[attr][0], perm))
    def attribute(self, ugroups, perm, attr):
        """-> (must_be_true_if, may_be_true_if): exact when equal."""
        f = self.forward(ugroups, perm, attr)
        rev = ATTRS[attr][2]
        if rev is None: return f, f
        r = self.forward(ugroups, perm, rev)
        return (f and r), (f or r)
    def object(self, ugroups, uroles, perm, cls, labels, ignore_entity_exclusion=False):
        return any((ignore_entity_exclusion or cls not in r['xe']) and self.groups_ok(r, ugroups)
                   and r['roles'] <= uroles and r['labels'] <= labels for r in self.rules_for(cls, perm))
    # ---- deviation rules (known findings) ------------------------------------------------------------------
    def attribute_deviant(self, ugroups, perm, attr, order):
        """What the probed defect computes for a relation attribute, given the iteration order of the forward rules:
        the reverse side is tested against the FORWARD entity's rules, and with no rules at all on the reverse entity
        the first forward rule decides alone."""
        ent, _, rev = ATTRS[attr]
        L = self.rules_for(ent, perm, order)
        if not L: return False
        if not self.rules_for(ATTRS[rev][0], perm): return self.grants_fwd(L[0], ugroups, attr)
        g = any(self.grants_fwd(r, ugroups, attr) for r in L)
        x = any(self.groups_ok(r, ugroups) and ATTRS[rev][0] not in r['xe'] and rev not in r['xa'] for r in L)
        return g or x

# ---------------------------------------------------------------------------------------------------------------
# rule alphabet and random rules
# ---------------------------------------------------------------------------------------------------------------
def R(for_, perms, groups=(), roles=(), labels=(), xe=(), xa=()):
    return {'for': list(for_), 'perms': list(perms), 'groups': list(groups), 'roles': list(roles), 'labels': list(labels),
            'xe': list(xe), 'xa': list(xa)}

ALPHABET = [
    R(['Doc'], ['view']),
    R(['Doc'], ['view'], ['g1']),
    R(['Doc'], ['view'], ['g1'], xa=['Doc.folder']),
    R(['Doc'], ['view'], ['g2'], xe=['SDoc']),
    R(['Doc'], ['view'], ['g1'], roles=['owner']),
    R(['Doc'], ['view'], labels=['public']),
    R(['Doc'], ['edit'], ['g1'], xa=['Doc.secret']),
    R(['Folder'], ['view'], ['g1']),
    R(['Folder'], ['view'], ['g2'], xa=['Folder.docs']),
    R(['Folder'], ['view'], xa=['Folder.docs']),
    R(['Folder'], ['edit'], ['g1'], roles=['editor'], labels=['draft']),
    R(['Doc', 'Folder'], ['view'], ['g3']),
    R(['Doc', 'Folder'], ['view'], ['g1'], xa=['Doc.folder', 'Folder.docs']),
    R(['SDoc'], ['view'], ['g2']),
    R(['SDoc'], ['view'], ['g1'], xa=['SDoc.archive']),
    R(['Folder'], ['view'], ['g1'], xa=['Folder.archived']),
    R(['Doc'], ['delete'], ['g1'], labels=['draft']),
    R(['Doc'], ['create'], ['g2'], xe=['Doc']),
    R(['Folder'], ['view'], ['g1'], xe=['Folder']),
    R(['Doc'], ['view'], ['g1', 'g2']),
]

PERM_CHOICES = (['view'], ['view'], ['edit'], ['view', 'edit'], ['create'], ['delete'], ['edit', 'delete'],
                ['view', 'edit', 'create', 'delete'])

def random_rule(rng):
    for_ = rng.choice((['Doc'], ['Doc'], ['Folder'], ['Folder'], ['SDoc'], ['Doc', 'Folder'], ['SDoc', 'Folder'],
                       ['Folder', 'Doc', 'SDoc']))
    groups = rng.sample(GROUPS, rng.choice((0, 0, 1, 1, 1, 2, 3)))
    roles = list(rng.choice(ROLESETS)) if rng.random() < 0.4 else []
    labels = list(rng.choice(LABELSETS)) if rng.random() < 0.4 else []
    xe = rng.sample(ENTITIES, rng.choice((0, 0, 0, 1, 1, 2)))
    xa = rng.sample(EXCLUDABLE, rng.choice((0, 0, 1, 1, 2, 3)))
    if rng.random() < 0.5:      # bias towards the relation attributes: that is where the two sides interact
        xa = list(set(xa) | set(rng.sample(['Doc.folder', 'Folder.docs', 'SDoc.archive', 'Folder.archived'], rng.choice((1, 1, 2)))))
    return R(for_, rng.choice(PERM_CHOICES), sorted(groups), roles, labels, sorted(xe), sorted(xa))

# ---------------------------------------------------------------------------------------------------------------
# the model under test
# ---------------------------------------------------------------------------------------------------------------
class VUser(object):
    def __init__(self, groups, rp):
        self.groups, self.rp = tuple(groups), rp
        self.name = 'u[%s|%d]' % (','.join(groups), rp)
    def __repr__(self): return self.name

def user_roles(rp, pk): return ROLESETS[(rp + pk) % 4]

class Model(object):
    def __init__(self, ctx):
        from pony import orm
        from pony.orm import core
        self.orm, self.core = orm, core
        db = self.db = orm.Database()
        class Folder(db.Entity):
            id = orm.PrimaryKey(int)
            name = orm.Required(str)
            labels = orm.Optional(str)
            docs = orm.Set('Doc')
            archived = orm.Set('SDoc')
        class Doc(db.Entity):
            id = orm.PrimaryKey(int)
            title = orm.Required(str)
            secret = orm.Optional(str)
            labels = orm.Optional(str)
            folder = orm.Required(Folder)
        class SDoc(Doc):
            extra = orm.Optional(str)
            archive = orm.Optional(Folder)
        db.bind('sqlite', ':memory:')
        db.generate_mapping(create_tables=True)
        self.E = {'Folder': Folder, 'Doc': Doc, 'SDoc': SDoc}
        self.A = {}
        for name in ATTRS:
            en, an = name.split('.')
            self.A[name] = getattr(self.E[en], an)
        # the reference's picture must match pony's metadata, otherwise nothing below means anything
        for name, (ent, is_pk, rev) in ATTRS.items():
            a = self.A[name]
            assert a.entity is self.E[ent], name
            assert (a.pk_offset is not None) == is_pk, name
            assert (a.reverse is None and rev is None) or a.reverse is self.A[rev], name
            assert not a.hidden, name
        for en, subs in SUBCLASSES.items():
            assert set(self.E[en]._subclasses_) == set(self.E[s] for s in subs), en
        assert sorted(ATTRS) == sorted('%s.%s' % (a.entity.__name__, a.name) for e in self.E.values() for a in e._new_attrs_)
        with orm.db_session:
            for cls, pk, li in OBJECTS:
                lab = ' '.join(LABELSETS[li])
                if cls == 'Folder': Folder(id=pk, name='f%d' % pk, labels=lab)
            for cls, pk, li in OBJECTS:
                lab = ' '.join(LABELSETS[li])
                if cls == 'Doc': Doc(id=pk, title='d%d' % pk, secret='s', labels=lab, folder=Folder[1 + pk % 4])
                if cls == 'SDoc': SDoc(id=pk, title='sd%d' % pk, secret='s', labels=lab, folder=Folder[1 + pk % 4],
                                       archive=Folder[1 + (pk + 1) % 4] if pk % 2 else None)
        # providers of groups / roles / labels, registered through the public decorators
        @orm.user_groups_getter(VUser)
        def _groups(user):
            return user.groups[0] if len(user.groups) == 1 else list(user.groups)     # str and list forms
        @orm.user_roles_getter(VUser, db.Entity)
        def _roles(user, obj):
            r = user_roles(user.rp, obj.id)
            return r[0] if len(r) == 1 else list(r)
        @orm.obj_labels_getter(db.Entity)
        def _labels(obj):
            return obj.labels.split() if obj.labels else None
        self.users = [VUser(gs, rp) for n in range(4) for gs in itertools.combinations(GROUPS, n) for rp in range(4)]
        self.users.append(None)

    def clear_rules(self):
        for e in self.E.values(): e._access_rules_.clear()

    def declare(self, specs, rng):
        """Declare the rule set through the public API; -> list of the AccessRule objects (declaration order)."""
        orm = self.orm
        objs = []
        for s in specs:
            kw = {}
            if s['groups']:
                if rng.random() < 0.5: kw['group'] = ' '.join(s['groups'])
                else: kw['groups'] = list(s['groups'])
            if s['roles']: kw['role' if rng.random() < 0.5 else 'roles'] = ', '.join(s['roles'])
            if s['labels']: kw['labels' if rng.random() < 0.5 else 'label'] = list(s['labels'])
            with self.db.set_perms_for(*[self.E[e] for e in s['for']]):
                perms = ' '.join(s['perms']) if rng.random() < 0.5 else list(s['perms'])
                rule = orm.perm(*([perms] if isinstance(perms, str) else perms), **kw)
                ex = [self.E[e] for e in s['xe']] + [self.A[a] for a in s['xa']]
                if ex: rule.exclude(*ex)
            objs.append(rule)
        return objs

    def set_order(self, objs, order, originals):
        """Replace every rule container by a list in the given order of declaration indexes (None = the original set)."""
        for en, e in self.E.items():
            for perm, orig in originals[en].items():
                if order is None: e._access_rules_[perm] = orig
                else: e._access_rules_[perm] = [objs[i] for i in order if objs[i] in orig]


def ugroups_of(user): return set(user.groups) if user is not None else set()
def uroles_of(user, pk): return set(user_roles(user.rp, pk)) if user is not None else set()
def uname(user): return user.name if user is not None else 'None'


def run_ruleset(ctx, m, specs, rng, with_json=True):
    orm, core = m.orm, m.core
    ref = RefRules(specs)
    spec_json = json.dumps(specs, sort_keys=True)
    n = len(specs)
    mentioned = sorted(set(p for s in specs for p in s['perms']), key=PERMS.index)
    others = [p for p in PERMS if p not in mentioned]
    ask_perms = mentioned + others[:1]
    targets_asked = expand(e for s in specs for e in s['for'])
    ctx.case(spec_json, nontrivial=n > 0, sample={'rules': specs} if ctx.evaluations % 97 == 0 else None)
    ctx.count('rulesets'); ctx.count('rulesets.size%d' % n)
    m.clear_rules()
    objs = m.declare(specs, rng)
    # registration must match the reference's notion of which rules apply to which entity
    originals = {}
    for en, e in m.E.items():
        originals[en] = {}
        for perm in PERMS:
            got = e._access_rules_.get(perm)
            want = set(r['i'] for r in ref.rules_for(en, perm))
            have = set(i for i, o in enumerate(objs) if got and o in got)
            if have != want or (got and len(got) != len(have)):
                ctx.violation({'rules': specs, 'entity': en, 'perm': perm, 'registered': sorted(have), 'expected': sorted(want)},
                              mechanism='rule-registration')
            if got: originals[en][perm] = got
    orders = [None] + [list(p) for p in itertools.permutations(range(n))]
    entity_users = [u for u in m.users if u is None or u.rp == 0]
    answers = {}     # (kind, user, perm, target) -> {order_key: answer}
    def record(key, okey, val):
        answers.setdefault(key, {})[okey] = val
    def ask(user, perm, x):
        try: return bool(core.has_perm(user, perm, x)), None
        except Exception as ex: return None, type(ex).__name__
    for oi, order in enumerate(orders):
        okey = 'set' if order is None else ''.join(map(str, order))
        m.set_order(objs, order, originals)
        full_objects = oi in (0, 1, len(orders) - 1)
        with orm.db_session:
            live = {}
            for cls, pk, li in OBJECTS:
                live[(cls, pk)] = m.E[cls][pk]
            for user in entity_users:
                for perm in ask_perms:
                    for en in ENTITIES:
                        v, exc = ask(user, perm, m.E[en])
                        record(('E', uname(user), perm, en), okey, v if exc is None else exc)
                        ctx.count('questions.entity')
                    for an in ATTRS:
                        v, exc = ask(user, perm, m.A[an])
                        record(('A', uname(user), perm, an), okey, v if exc is None else exc)
                        ctx.count('questions.attribute')
                        if oi == 0:
                            v2, exc2 = ask(user, perm, m.A[an])
                            ctx.count('questions.repeated')
                            if (v2, exc2) != (v, exc):
                                ctx.violation({'rules': specs, 'user': uname(user), 'perm': perm, 'attribute': an,
                                               'first': v, 'second': v2}, mechanism='repeat-differs')
            if full_objects:
                for user in m.users:
                    for perm in ask_perms:
                        for cls, pk, li in OBJECTS:
                            o = live[(cls, pk)]
                            v, exc = ask(user, perm, o)
                            record(('O', uname(user), perm, (cls, pk, li)), okey, v if exc is None else exc)
                            ctx.count('questions.object')
                            if oi == 0:
                                v2, exc2 = ask(user, perm, o)
                                ctx.count('questions.repeated')
                                if (v2, exc2) != (v, exc):
                                    ctx.violation({'rules': specs, 'user': uname(user), 'perm': perm, 'object': [cls, pk],
                                                   'first': v, 'second': v2}, mechanism='repeat-differs')
            if oi == 0:
                # the convenience wrappers must be the documented compositions of has_perm
                for user in entity_users[::3]:
                    for x in [m.E['Doc'], m.A['Doc.folder'], live[('SDoc', 6)], live[('Folder', 2)]]:
                        hv = dict((p, bool(core.has_perm(user, p, x))) for p in PERMS)
                        got = (bool(core.can_view(user, x)), bool(core.can_edit(user, x)), bool(core.can_create(user, x)), bool(core.can_delete(user, x)))
                        want = (hv['view'] or hv['edit'], hv['edit'], hv['create'], hv['delete'])
                        ctx.count('questions.can_wrappers')
                        if got != want:
                            ctx.violation({'rules': specs, 'user': uname(user), 'x': repr(x), 'can_': got, 'has_perm': hv}, mechanism='can-wrapper')
                if with_json: json_monitor(ctx, m, specs, ref, live, rng)
    m.set_order(objs, None, originals)
    users_by_name = dict((uname(u), u) for u in m.users)
    # ---- judge ------------------------------------------------------------------------------------------------
    for key, by_order in answers.items():
        kind, un, perm, target = key
        user = users_by_name[un]
        ug = ugroups_of(user)
        vals = set(by_order.values())
        bad = [v for v in vals if not isinstance(v, bool)]
        if bad:
            ctx.count('outcome.raised')
            ctx.violation({'rules': specs, 'question': list(key), 'answers': by_order}, mechanism='has_perm-raised')
            continue
        nontriv = (target if kind == 'E' else ATTRS[target][0] if kind == 'A' else target[0]) in targets_asked
        if kind == 'E':
            lo = hi = ref.entity(ug, perm, target)
        elif kind == 'A':
            lo, hi = ref.attribute(ug, perm, target)
            if ATTRS[target][2] is not None and nontriv: ctx.count('questions.attribute_with_reverse_nontrivial')
            if lo != hi: ctx.count('questions.bracket_open')
        else:
            cls, pk, li = target
            lo = hi = ref.object(ug, uroles_of(user, pk), perm, cls, set(LABELSETS[li]))
        if nontriv and (lo or hi): ctx.count('questions.reference_grants')
        # determinism
        if len(vals) > 1:
            ctx.count('outcome.order_dependent')
            w = {'rules': specs, 'question': list(key), 'answers_by_order': by_order}
            explained = False
            if kind == 'A' and ATTRS[target][2] is not None and not ref.rules_for(ATTRS[ATTRS[target][2]][0], perm):
                explained = True
                for okey, v in by_order.items():
                    if okey == 'set': continue
                    if ref.attribute_deviant(ug, perm, target, [int(c) for c in okey]) != v: explained = False
            if explained: report_finding(ctx, F_ORDER, w)
            else: ctx.violation(w, mechanism='order-dependent')
        # correctness of every observed answer
        for okey, v in sorted(by_order.items()):
            if (v and not hi) or (not v and lo):
                ctx.count('outcome.outside_reference')
                w = {'rules': specs, 'question': list(key), 'order': okey, 'pony': v, 'must_be_true_if': lo, 'may_be_true_if': hi}
                if kind == 'A' and ATTRS[target][2] is not None and v and not hi and okey != 'set' \
                        and ref.rules_for(ATTRS[ATTRS[target][2]][0], perm) \
                        and ref.attribute_deviant(ug, perm, target, [int(c) for c in okey]) == v:
                    report_finding(ctx, F_REV, w)
                elif kind == 'A' and ATTRS[target][2] is not None and v and not hi and okey == 'set' \
                        and ref.rules_for(ATTRS[ATTRS[target][2]][0], perm) \
                        and all(ref.attribute_deviant(ug, perm, target, list(p)) == v for p in itertools.permutations(range(n))):
                    report_finding(ctx, F_REV, w)
                elif kind == 'O' and v and not hi and ref.object(ug, uroles_of(user, target[1]), perm, target[0],
                                                                  set(LABELSETS[target[2]]), ignore_entity_exclusion=True) == v:
                    report_finding(ctx, F_OBJ, w)
                else:
                    ctx.violation(w, mechanism='answer-outside-reference-' + {'E': 'entity', 'A': 'attribute', 'O': 'object'}[kind])
                break       # one report per question
            else:
                ctx.count('outcome.agree')
    if n: membership_phase(ctx, m, specs, ref, ask_perms, rng)
    m.clear_rules()


# ---------------------------------------------------------------------------------------------------------------
# membership changes: groups / roles of ONE user value change between (and inside) sessions
# ---------------------------------------------------------------------------------------------------------------
MEMBERS = {}        # key of a mutable user -> {'groups': tuple, 'rp': int, 'xgroups': tuple, 'xroles': tuple}

def mkey(user): return user if isinstance(user, str) else getattr(user, 'mkey', None)

def install_dynamic_getters(m):
    """Registered late (first membership phase): a groups getter and a roles getter for plain string users, and a
    second pair registered for EVERY user class that contributes extra groups / roles from a table."""
    orm = m.orm
    @orm.user_groups_getter(str)
    def _str_groups(user):
        st = MEMBERS.get(user)
        return list(st['groups']) if st else None
    @orm.user_roles_getter(str, m.db.Entity)
    def _str_roles(user, obj):
        st = MEMBERS.get(user)
        return list(user_roles(st['rp'], obj.id)) if st else None
    @orm.user_groups_getter()
    def _extra_groups(user):
        st = MEMBERS.get(mkey(user))
        return list(st['xgroups']) if st and st['xgroups'] else None
    @orm.user_roles_getter()
    def _extra_roles(user, obj):
        st = MEMBERS.get(mkey(user))
        if not st or not st['xroles']: return None
        return st['xroles'][0] if len(st['xroles']) == 1 else list(st['xroles'])
    m.dynamic_getters = True

def random_state(rng):
    return {'groups': tuple(rng.sample(GROUPS, rng.choice((0, 1, 1, 2, 3)))), 'rp': rng.randrange(4),
            'xgroups': tuple(rng.sample(GROUPS, rng.choice((0, 0, 1)))), 'xroles': tuple(rng.sample(('owner', 'editor'), rng.choice((0, 0, 1))))}

def apply_state(user, st):
    MEMBERS[mkey(user)] = st
    if not isinstance(user, str): user.groups, user.rp = tuple(st['groups']), st['rp']

def membership_phase(ctx, m, specs, ref, perms, rng):
    """The same user value is asked in session 1 (state A), again in session 1 after its membership changed to B
    (either answer is admissible there: pony may keep what it computed for the session), in a NEW session (B exactly),
    and in another new session after a change made while no session was open (C exactly)."""
    orm, core = m.orm, m.core
    if not getattr(m, 'dynamic_getters', False):
        install_dynamic_getters(m)
        m.mutable_user = VUser((), 0); m.mutable_user.mkey = 'mutable-object-user'; m.mutable_user.name = 'u[mutable]'
    plain_attrs = [a for a, v in ATTRS.items() if v[2] is None]
    def ref_answers(st):
        ug = set(st['groups']) | set(st['xgroups'])
        out = {}
        for perm in perms:
            for en in ENTITIES: out[('E', perm, en)] = ref.entity(ug, perm, en)
            for an in plain_attrs: out[('A', perm, an)] = ref.attribute(ug, perm, an)[0]
            for cls, pk, li in OBJECTS:
                roles = set(user_roles(st['rp'], pk)) | set(st['xroles'])
                out[('O', perm, (cls, pk))] = ref.object(ug, roles, perm, cls, set(LABELSETS[li]))
        return out
    def pony_answers(user, live):
        out = {}
        for perm in perms:
            for en in ENTITIES: out[('E', perm, en)] = bool(core.has_perm(user, perm, m.E[en]))
            for an in plain_attrs: out[('A', perm, an)] = bool(core.has_perm(user, perm, m.A[an]))
            for cls, pk, li in OBJECTS: out[('O', perm, (cls, pk))] = bool(core.has_perm(user, perm, live[(cls, pk)]))
        return out
    def load():
        return dict(((cls, pk), m.E[cls][pk]) for cls, pk, li in OBJECTS)
    def judge(stage, user, got, admissible, states, previous=None):
        for q, v in got.items():
            ctx.count('membership.questions')
            # a stale answer (computed for the previous membership) would be visible exactly at these questions
            if previous is not None and previous[q] != admissible[0][q]: ctx.count('membership.questions_exposing_staleness')
            if not any(a[q] == v for a in admissible):
                ctx.count('outcome.membership_stale')
                known = None
                # the object-level entity-exclusion finding also shows here while it is open
                if q[0] == 'O' and v:
                    cls, pk = q[2]
                    li = [o[2] for o in OBJECTS if o[0] == cls and o[1] == pk][0]
                    st = states[-1]
                    if ref.object(set(st['groups']) | set(st['xgroups']), set(user_roles(st['rp'], pk)) | set(st['xroles']), q[1], cls,
                                  set(LABELSETS[li]), ignore_entity_exclusion=True): known = F_OBJ
                w = {'rules': specs, 'stage': stage, 'user': repr(user), 'states': states, 'question': list(q), 'pony': v,
                     'reference_for_each_admissible_state': [a[q] for a in admissible]}
                if known: report_finding(ctx, known, w)
                else: ctx.violation(w, mechanism='membership-change-' + stage)
                return
    def groups_ok(stage, user, admissible_states, states):
        got = set(core.get_user_groups(user))
        wants = [set(st['groups']) | set(st['xgroups']) | {'anybody'} for st in admissible_states]
        ctx.count('membership.get_user_groups_calls')
        if got not in wants:
            ctx.violation({'rules': specs, 'stage': stage, 'user': repr(user), 'states': states, 'get_user_groups': sorted(got),
                           'admissible': [sorted(x) for x in wants]}, mechanism='membership-change-groups-' + stage)
    for user in (m.mutable_user, rng.choice(('alice', 'bob'))):
        A, B, C = random_state(rng), random_state(rng), random_state(rng)
        rA, rB, rC = ref_answers(A), ref_answers(B), ref_answers(C)
        apply_state(user, A)
        with orm.db_session:
            live = load()
            groups_ok('first-session', user, [A], [A])
            judge('first-session', user, pony_answers(user, live), [rA], [A])
            apply_state(user, B)                                  # changed while the session is open
            groups_ok('same-session-after-change', user, [A, B], [A, B])
            judge('same-session-after-change', user, pony_answers(user, live), [rA, rB], [A, B])
        with orm.db_session:
            live = load()
            groups_ok('next-session', user, [B], [A, B])
            judge('next-session', user, pony_answers(user, live), [rB], [A, B], previous=rA)
            # serialisation follows the current membership too
            orm.set_current_user(user)
            try:
                objs = [live[k] for k in sorted(live)][::3]
                try: out = json.loads(m.db.to_json(objs, with_schema=False))
                except core.PermissionError: out = None
            finally: orm.set_current_user(None)
            ctx.count('membership.to_json_calls')
            if out is not None:
                for cls, d in out['objects'].items():
                    for pk in d:
                        ctx.count('membership.to_json_objects')
                        # a permission outside `perms` is mentioned by no rule of this rule set, so it is not granted
                        if not (rB.get(('O', 'view', (cls, int(pk))), False) or rB.get(('O', 'edit', (cls, int(pk))), False)):
                            ctx.violation({'rules': specs, 'stage': 'next-session', 'user': repr(user), 'states': [A, B],
                                           'to_json_object': [cls, int(pk)]}, mechanism='membership-change-to_json')
        apply_state(user, C)                                      # changed while no session is open
        with orm.db_session:
            live = load()
            groups_ok('session-after-offline-change', user, [C], [A, B, C])
            judge('session-after-offline-change', user, pony_answers(user, live), [rC], [A, B, C], previous=rB)
        MEMBERS.pop(mkey(user), None)


def json_monitor(ctx, m, specs, ref, live, rng):
    """to_json (data + objects + schema) must not contain anything the user cannot view."""
    orm, core = m.orm, m.core
    docs = [live[k] for k in sorted(live) if k[0] != 'Folder']
    folders = [live[k] for k in sorted(live) if k[0] == 'Folder']
    label_of = dict(((c, pk), set(LABELSETS[li])) for c, pk, li in OBJECTS)
    def ref_view(user, cls, pk, dev=False):
        ug, ur = ugroups_of(user), uroles_of(user, pk)
        return any(ref.object(ug, ur, p, cls, label_of[(cls, pk)], ignore_entity_exclusion=dev) for p in ('view', 'edit'))
    users = rng.sample(m.users[:-1], 5) + [None]
    for user in users:
        viewable = [o for o in docs + folders if ref_view(user, o.__class__.__name__, o.id)]
        choices = [(rng.sample(docs, 3) + rng.sample(folders, 1), []),
                   ({'items': rng.sample(docs + folders, 2), 'n': 1}, [])]
        if viewable:
            choices.append((rng.sample(viewable, min(len(viewable), 3)), []))
            choices.append((rng.sample(viewable, min(len(viewable), 2)), [m.A['Doc.folder']]))
            choices.append(([o for o in viewable if o.__class__.__name__ == 'Folder'][:2], [m.A['Folder.docs'], m.A['Folder.archived']]))
        for data, include in choices:
            with_schema = rng.random() < 0.4
            orm.set_current_user(user)
            ctx.count('to_json.calls')
            try:
                out = m.db.to_json(data, include=include, with_schema=with_schema)
            except core.PermissionError:
                ctx.count('to_json.refused'); continue
            except Exception as ex:
                ctx.count('to_json.other_error.' + type(ex).__name__); continue
            finally:
                orm.set_current_user(None)
            ctx.count('to_json.returned')
            doc = json.loads(out)
            seen = set()
            def walk(x):
                if isinstance(x, dict):
                    if set(x) == {'class', 'pk'}: seen.add((x['class'], int(x['pk'])))
                    else:
                        for v in x.values(): walk(v)
                elif isinstance(x, list):
                    for v in x: walk(v)
            walk(doc['data'])
            for cls, d in doc['objects'].items():
                for pk in d: seen.add((cls, int(pk)))
            for cls, pk in sorted(seen):
                ctx.count('to_json.objects_in_output')
                if ref_view(user, cls, pk): continue
                w = {'rules': specs, 'user': uname(user), 'leaked_object': [cls, pk], 'include': [a.name for a in include]}
                if ref_view(user, cls, pk, dev=True): report_finding(ctx, F_OBJ, dict(w, via='to_json'))
                else: ctx.violation(w, mechanism='to_json-leak')
            if with_schema and 'schema' in doc:
                ug = ugroups_of(user)
                for ent in doc['schema']:
                    en = ent['name']
                    ctx.count('to_json.schema_entities')
                    if not (ref.entity(ug, 'view', en) or ref.entity(ug, 'edit', en)):
                        ctx.violation({'rules': specs, 'user': uname(user), 'schema_entity': en}, mechanism='to_json-schema-entity')
                    for a in ent['newAttrs']:
                        an = '%s.%s' % (en, a['name'])
                        ctx.count('to_json.schema_attrs')
                        hi = ref.attribute(ug, 'view', an)[1] or ref.attribute(ug, 'edit', an)[1]
                        if hi: continue
                        w = {'rules': specs, 'user': uname(user), 'schema_attribute': an}
                        n = len(specs)
                        if ATTRS[an][2] is not None and any(
                                ref.rules_for(ATTRS[ATTRS[an][2]][0], p) and
                                all(ref.attribute_deviant(ug, p, an, list(o)) for o in itertools.permutations(range(n)))
                                for p in ('view', 'edit')):
                            report_finding(ctx, F_REV, dict(w, via='to_json schema'))
                        else: ctx.violation(w, mechanism='to_json-schema-attribute')


def rule_sets(ctx):
    """The enumerated part (size <= 2 quick, <= 3 thorough over ALPHABET, sliced over shards) and the random part."""
    quick = ctx.tier == 'quick'
    enum = [[]]
    for k in (1, 2) if quick else (1, 2, 3):
        enum.extend([list(c) for c in itertools.combinations(range(len(ALPHABET)), k)])
    mine = [c for i, c in enumerate(enum) if i % ctx.nshards == ctx.shard]
    for c in mine:
        yield 'enum', [ALPHABET[i] for i in c]
    n_random = 800 if quick else 1500          # per shard
    for _ in range(n_random):
        k = ctx.rng.choice((1, 2, 2, 3, 3, 3))
        specs = [random_rule(ctx.rng) for _ in range(k)]
        if ctx.rng.random() < 0.3: specs[-1] = dict(ctx.rng.choice(ALPHABET))
        yield 'random', specs


def run(ctx):
    m = Model(ctx)
    for kind, specs in rule_sets(ctx):
        ctx.count('rulesets.' + kind)
        run_ruleset(ctx, m, specs, ctx.rng)
    # the per-session permission cache: observed, never judged (it cannot change an answer while its key is `perm`)
    ctx.extra['perm_cache_note'] = 'has_perm stores its result under perm_cache[perm] and looks up perm_cache.get(x): ' \
                                   'the cache never answers a question (observed: see perm_cache.lookup_hits)'
    with m.orm.db_session:
        m.clear_rules()
        m.declare([ALPHABET[1]], ctx.rng)
        u = m.users[4]
        m.core.has_perm(u, 'view', m.E['Doc']); m.core.has_perm(u, 'view', m.E['Doc'])
        pc = m.db._get_cache().perm_cache[u]['view']
        ctx.count('perm_cache.entries_keyed_by_question', sum(1 for k in pc if not isinstance(k, str)))
        ctx.count('perm_cache.entries_keyed_by_perm_name', sum(1 for k in pc if isinstance(k, str)))
        m.clear_rules()
    ctx.floor('rulesets', 800)
    ctx.floor('questions.entity', 100000)
    ctx.floor('questions.attribute', 500000)
    ctx.floor('questions.object', 1000000)
    ctx.floor('questions.attribute_with_reverse_nontrivial', 30000)
    ctx.floor('questions.reference_grants', 80000)
    ctx.floor('questions.repeated', 500000)
    ctx.floor('to_json.returned', 3000)
    ctx.floor('to_json.refused', 3000)
    ctx.floor('to_json.objects_in_output', 8000)
    ctx.floor('membership.questions', 200000)
    ctx.floor('membership.questions_exposing_staleness', 5000)
    ctx.floor('membership.get_user_groups_calls', 5000)


def replay(ctx, witness):
    m = Model(ctx)
    specs = witness['rules']
    run_ruleset(ctx, m, specs, ctx.rng)
